"""C05 — entanglement criteria never flag a separable state.

Model: lean/NumqiModel/Entangle.lean (index layer), lean/NumqiModel/Decision.lean (verdict layer, over the
constants in lean/NumqiModel/Generated/Thresholds.lean which `translate` regenerates from the sources on every run).
Theorems: lean/NumqiProps/C05.lean.  Correspondence: exact (Gaussian-integer rho; the matrices actually handed to
is_positive_semi_definite / np.linalg.norm / np.linalg.eigvals are captured in-process), verdicts on exactly
representable inputs.  Probe: separable states of many kinds through every criterion.
"""
import ast, os, itertools, contextlib, math
from fractions import Fraction
import numpy as np
from . import common

# EntangleBridge.lean and C05SymExt.lean import C06's NumqiProofs/BoundaryLemmas.lean read-only. They are listed obligations like the others:
# if they do not build (whatever the cause) the proof is broken and the failing-input search runs - never a mere note.
# DecisionC13.lean: the closed-form two-qubit measures of C05's statement (same constants, ops sent from this harness as well).
THEOREM_FILES = ['NumqiProps/C05.lean', 'NumqiProps/C05SymExt.lean', 'NumqiProofs/DecisionC05.lean', 'NumqiProofs/EntangleAccept.lean',
                 'NumqiProofs/EntangleBridge.lean', 'NumqiProofs/DecisionC13.lean']
LEVEL = 'proof'
RULE = ('correspondence ops: Gaussian-integer Hermitian matrices (random, diagonal, unit, sparse) for every dimension list in '
        '(2,2),(2,3),(3,2),(3,3),(2,4),(2,2,2),(2,3,2),(3,2,2),(2,2,2,2) through is_ppt / is_generalized_ppt / check_reduction_witness / '
        'check_swap_witness / get_negativity / get_ppt_boundary with the tested matrices captured and compared entry by entry; verdict ops '
        'on diagonal / single-entry matrices with dyadic thresholds where Cholesky, the nuclear norm and the swap value are exact. '
        'An op is non-trivial when rho is not a multiple of the identity; distinct = distinct op lines. Probe: separable states '
        '(random product mixtures, computational-basis, repeated, nearly parallel, pure products, separable Werner/isotropic) through every criterion.')
TRUSTED = ['Lean 4.33 kernel', 'axioms: propext, Classical.choice, Quot.sound', 'Lean compiler for the driver executable',
           'harness/c05.py: canonicalisation, the in-process capture wrappers, and the ast-based thresholds translator (validated on every run by the verdict ops)',
           'contracts (parameters, not modelled): np.linalg.cholesky succeeds iff the matrix is numerically positive definite; '
           'np.linalg.norm(ord="nuc") is the sum of singular values; np.linalg.eigvals; cvxpy and its solvers (symmetric-extension SDPs)',
           'modelled, not verified: numqi/entangle/ppt.py, _misc.py, eof.py, measure.py, utils.is_positive_semi_definite']

GEN = os.path.join(common.LEAN, 'NumqiModel', 'Generated', 'Thresholds.lean')


# ---------------------------------------------------------------------------------------------------------------
# translator: comparison operators, default tolerances and guard structure  ->  Generated/Thresholds.lean
# ---------------------------------------------------------------------------------------------------------------
# The extraction is BEHAVIOURAL: nothing is read from the source text.  Public functions are resolved through the package
# (`numqi.entangle.<name>`, so moves / re-exports / renamed locals / closures turned into helpers do not matter), defaults come from
# `inspect.signature`, comparison operators, shift signs and guards are determined by evaluating the real verdict functions on exactly
# representable inputs on both sides of each boundary.  Anything that cannot be determined becomes `other` / 0 / false (the corresponding Lean
# obligation then fails and the failing-input search runs); the extraction itself never raises.
class HarnessInternal(Exception):
    """an exception raised by harness code itself (not inside a call into numqi): never a failing input"""


class ImplObservation(Exception):
    """raised by harness code at the call boundary when a VALUE RETURNED BY THE IMPLEMENTATION is not of the documented kind (a verdict that
    is not a bool, a `return_info=True` result that is not `(bool, [(dim0, dim1, norm), ...])`): an observation of the implementation.
    `guarded` turns it into the value `error:<what>`, `safely` into a failing input; it is never classified as harness-internal"""


def vbool(r):
    """a verdict of a criterion: Python / numpy bool (0-dim bool arrays included); anything else (generator, array, None, tuple of the wrong
    arity ...) is a defect of the implementation, reported with the input that produced it"""
    if isinstance(r, (bool, np.bool_)):
        return bool(r)
    if isinstance(r, np.ndarray) and r.shape == () and r.dtype == np.bool_:
        return bool(r)
    raise ImplObservation(f'verdict-type:{type(r).__name__}')


def vinfo(r):
    """`is_generalized_ppt(..., return_info=True)`: documented as `(tag, [(dim0, dim1, nuclear_norm), ...])`"""
    if not isinstance(r, tuple) or len(r) != 2:
        n = f'[{len(r)}]' if hasattr(r, '__len__') else ''
        raise ImplObservation(f'return_info-arity:{type(r).__name__}{n}')
    tag = vbool(r[0])
    out = []
    try:
        for x in r[1]:
            d0, d1, v = x
            out.append((tuple(int(i) for i in d0), tuple(int(i) for i in d1), float(v)))
    except ImplObservation:
        raise
    except Exception as e:
        raise ImplObservation(f'return_info-items:{type(e).__name__}') from None
    return tag, out


def is_impl_exception(e):
    """True iff the traceback passes through numqi code (the exception was raised by, or below, the implementation), or the exception is
    the harness's own verdict on a value the implementation returned (ImplObservation)"""
    import traceback
    if isinstance(e, ImplObservation):
        return True
    for fr in traceback.extract_tb(e.__traceback__):
        fn = fr.filename.replace(os.sep, '/')
        if '/numqi/' in fn and '/verif/harness/' not in fn:
            return True
    return False


def _sig_default(fn, name):
    import inspect
    try:
        v = inspect.signature(fn).parameters[name].default
    except Exception:
        return None
    if isinstance(v, bool) or not isinstance(v, (int, float)):
        return None
    return Fraction(repr(float(v))) if isinstance(v, float) else Fraction(v)


def _try(f, default=None):
    try:
        with np.errstate(all='ignore'):
            return f()
    except Exception:
        return default


def _op_from_truth(f, pairs):
    """the comparison `x <op> y` realised by the Boolean function f(x, y) on the grid `pairs`; 'other' if none of lt/le/gt/ge fits"""
    obs = [_try(lambda: bool(f(x, y))) for x, y in pairs]
    if any(o is None for o in obs):
        return 'other'
    for name, g in (('lt', lambda x, y: x < y), ('le', lambda x, y: x <= y), ('gt', lambda x, y: x > y), ('ge', lambda x, y: x >= y)):
        if obs == [g(x, y) for x, y in pairs]:
            return name
    return 'other'


@contextlib.contextmanager
def stub_global(fns, name, value):
    """replace the module-level name `name` in the globals of the given functions (follows a function to whatever module it lives in)"""
    import inspect
    saved = []
    for fn in fns:
        g = getattr(inspect.unwrap(fn), '__globals__', None)
        if g is not None and name in g and all(g is not s_[0] for s_ in saved):
            saved.append((g, g[name])); g[name] = value
    try:
        yield len(saved)
    finally:
        for g, old in saved:
            g[name] = old


def py_eof(zero, clamp, guard, c):
    """Python twin of NumqiModel/Decision.lean `eof2qubit` at given flags (used only to decide `recognised`)"""
    c = np.float64(c)
    if zero and c == 0:
        return 0.0
    x = 1 - c * c
    if clamp:
        x = x if x > 0 else 0.0
    t = (1 + np.sqrt(x)) / 2
    ret = -t * np.log(t)
    if (not guard) or t < 1:
        ret = ret - (1 - t) * np.log(1 - t)
    return float(ret)


def py_gme(clamp, c):
    c = np.float64(c)
    x = 1 - c * c
    if clamp:
        x = x if x > 0 else 0.0
    return float((1 - np.sqrt(x)) / 2)


def _same_float(a, b):
    if a is None or b is None:
        return False
    return (np.isnan(a) and np.isnan(b)) or a == b


# sizes on which the behavioural extraction is carried out: at least two per structural class (square / rectangular bipartite, >= 3 parties),
# including (4,4) and (5,5); one size beyond in the thorough tier.  A constant is emitted only if EVERY size gives the same answer - a
# change that is confined to some sizes ("eps with the wrong sign for d >= 4") makes the constant `other` / 0 and the obligation fail.
EXTRACT_SIZES = dict(
    quick=dict(psd=[1, 4, 16, 25], multi=[(2, 2), (2, 3), (3, 3), (4, 4), (5, 5), (2, 2, 2), (2, 3, 2)], square=[2, 3, 4, 5]),
    thorough=dict(psd=[1, 4, 9, 16, 25, 36, 49], multi=[(2, 2), (2, 3), (3, 2), (3, 3), (2, 4), (4, 4), (5, 5), (6, 6), (2, 2, 2), (2, 3, 2), (3, 3, 3), (2, 2, 2, 2)],
                  square=[2, 3, 4, 5, 6, 7]))


def _consensus(vals, unknown):
    vals = list(vals)
    return vals[0] if vals and all(v == vals[0] for v in vals) else unknown


def extract_thresholds(thorough=False):
    T = dict(isPptEpsDefault=None, isPptShiftCoeff=0, reductionEpsDefault=None, reductionShiftCoeff=0, psdShiftCoeff=0, psdCholesky=False,
             gpptThresholdDefault=None, gpptAcceptOp='other', gpptRhsOnePlusThreshold=False, gpptBreakOp='other', swapEpsDefault=None, swapOp='other',
             isPptHermGuard=False, reductionHermGuard=False, negativityHermGuard=False,
             eofZeroShortcut=False, eofClampSqrtArg=False, eofSecondTermGuardLt1=False, eofRecognised=False, gmeClampSqrtArg=False,
             gmeRecognised=False, concPureClampSqrtArg=False, concPureRecognised=False)
    SZ = EXTRACT_SIZES['thorough' if thorough else 'quick']
    T['_sizes'] = {k: [list(x) if isinstance(x, tuple) else x for x in v] for k, v in SZ.items()}
    T['_per_size'] = {}
    tb = lambda f: _try(lambda: vbool(f()))            # a verdict that is not a bool counts as "not determined"
    try:
        import numqi
        E = numqi.entangle
        psd = numqi.utils.is_positive_semi_definite
        # utils.is_positive_semi_definite(M, shift): Cholesky of M + k*shift*1 (strictly positive definite)
        ks, chol = [], []
        for n in SZ['psd']:
            Z, I = np.zeros((n, n)), np.eye(n)
            up, dn = tb(lambda: psd(Z, shift=0.5)), tb(lambda: psd(Z, shift=-0.5))
            ks.append(1 if (up is True and dn is False) else (-1 if (up is False and dn is True) else 0))
            chol.append(tb(lambda: psd(Z, shift=0.0)) is False and tb(lambda: psd(I, shift=0.0)) is True and tb(lambda: psd(-I, shift=0.0)) is False)
        T['psdShiftCoeff'] = _consensus(ks, 0)
        T['psdCholesky'] = bool(_consensus(chol, False))
        T['_per_size']['psdShiftCoeff'] = dict(zip(map(str, SZ['psd']), ks))
        # is_ppt / check_reduction_witness: shift = c*eps handed to the PSD test (zero matrix: accepted iff k*c*eps > 0)
        k = T['psdShiftCoeff']
        for key, f in (('isPpt', E.is_ppt), ('reduction', E.check_reduction_witness)):
            T[key + 'EpsDefault'] = _sig_default(f, 'eps')
            cs_ = []
            for dim in SZ['multi']:
                Z = np.zeros((int(np.prod(dim)),) * 2)
                a, b = tb(lambda: f(Z, dim, eps=-0.5)), tb(lambda: f(Z, dim, eps=0.5))
                cs_.append(-k if (k != 0 and a is True and b is False) else (k if (k != 0 and a is False and b is True) else 0))   # k*c*(-0.5) > 0
            T[key + 'ShiftCoeff'] = _consensus(cs_, 0)
            T['_per_size'][key + 'ShiftCoeff'] = dict(zip(map(str, SZ['multi']), cs_))
        # is_generalized_ppt: verdict on single-entry matrices v*E_00 (every realignment has nuclear norm exactly |v|) as a function of (v, threshold)
        T['gpptThresholdDefault'] = _sig_default(E.is_generalized_ppt, 'threshold')
        grid = [(v, thr) for thr in (0.0, 0.5, 1.0) for v in (0.5, 1.0, 1.5, 2.0, 2.5)]
        ops_, brk_ = [], []
        for dim in SZ['multi']:
            N = int(np.prod(dim))
            def gp(v, thr, **kw):
                M = np.zeros((N, N)); M[0, 0] = v
                r = E.is_generalized_ppt(M, dim, threshold=thr, **kw)
                return vinfo(r)[0] if kw.get('return_info') else vbool(r)
            op = _op_from_truth(lambda v, y: gp(v, y - 1), [(v, 1 + thr) for v, thr in grid])
            # early exit (return_info=False) against the full evaluation (return_info=True): the break fires exactly when the final test fails
            same = all(_try(lambda: gp(v, thr) == gp(v, thr, return_info=True), False) for v, thr in grid)
            ops_.append(op)
            brk_.append({'le': 'gt', 'lt': 'ge', 'ge': 'lt', 'gt': 'le'}.get(op, 'other') if same else 'other')
        T['gpptAcceptOp'] = _consensus(ops_, 'other')
        T['gpptRhsOnePlusThreshold'] = T['gpptAcceptOp'] != 'other'
        T['gpptBreakOp'] = _consensus(brk_, 'other')
        T['_per_size']['gpptAcceptOp'] = dict(zip(map(str, SZ['multi']), ops_))
        # check_swap_witness: value of diag(x,0,…,0) is x; value of x*|01><01| is 0
        T['swapEpsDefault'] = _sig_default(E.check_swap_witness, 'eps')
        sw_ = []
        for d in SZ['square']:
            def sw(x, e):
                M = np.zeros((d * d, d * d)); M[0, 0] = x
                return vbool(E.check_swap_witness(M, eps=e))
            def sw0(x, e):
                M = np.zeros((d * d, d * d)); M[0, 0] = x; M[1, 1] = 7.0        # |01><01| contributes nothing to the swap value
                return vbool(E.check_swap_witness(M, eps=e))
            pairs = [(x, e) for e in (-0.5, 0.0, 0.5) for x in (-1.0, -0.5, 0.0, 0.5, 1.0)]
            o1, o2 = _op_from_truth(sw, pairs), _op_from_truth(sw0, pairs)
            sw_.append(o1 if o1 == o2 else 'other')
        T['swapOp'] = _consensus(sw_, 'other')
        T['_per_size']['swapOp'] = dict(zip(map(str, SZ['square']), sw_))
        # Hermiticity guards (`assert np.abs(rho-rho.T.conj()).max() <(=) 1e-10`): every kind of non-Hermitian perturbation of size 1 and 1e-9
        # is rejected (any exception), Hermitian input and a 1e-12 perturbation are accepted
        def rejects(f, M):
            try:
                with np.errstate(all='ignore'):
                    f(M)
                return False
            except Exception:
                return True
        for key, f, dims in (('isPptHermGuard', E.is_ppt, [(2, 2), (2, 3), (4, 4), (2, 2, 2)]), ('reductionHermGuard', E.check_reduction_witness, [(2, 2), (2, 3), (4, 4), (2, 2, 2)]),
                             ('negativityHermGuard', E.get_negativity, [(2, 2), (2, 3), (4, 4)])):
            flags = []
            for dim in dims:
                N = int(np.prod(dim))
                H = np.eye(N, dtype=np.complex128) / N
                g = lambda M: f(M, dim)
                ok = not rejects(g, H)
                for _, P in non_hermitian_variants(N):
                    ok = ok and rejects(g, H + P) and rejects(g, H + 1e-9 * P) and not rejects(g, H + 1e-12 * P)
                flags.append(bool(ok))
            T[key] = bool(_consensus(flags, False))
        # closed forms as functions of the concurrence: which inputs give NaN decides the guard flags; `recognised` = the model formula at those
        # flags reproduces the implementation bit for bit on a grid
        one = np.float64(1.0)
        cs = [0.0, 5e-324, 1e-160, 1e-12, 1e-9, 1.0536712127723509e-08, 1.4901161193847656e-08, 3e-8, 1e-6, 1e-3, 0.1, 0.3, 0.5, 0.7071067811865476,
              0.9, 0.999999, float(np.nextafter(one, 0)), 1.0, float(np.nextafter(one, 2)), 1.0 + 1e-12]
        def at(fn, c):
            with stub_global([fn], 'get_concurrence_2qubit', lambda rho, _c=c: np.float64(_c)) as n:
                if n == 0:
                    return None
                return _try(lambda: float(fn(np.eye(4) / 4)))
        ve = [at(E.get_eof_2qubit, c) for c in cs]
        if all(v is not None for v in ve):
            nan = lambda c: bool(np.isnan(ve[cs.index(c)]))
            T['eofClampSqrtArg'] = not nan(1.0 + 1e-12)
            T['eofSecondTermGuardLt1'] = not nan(1e-9)
            T['eofZeroShortcut'] = not nan(0.0)
            T['eofRecognised'] = all(_same_float(v, _try(lambda: py_eof(T['eofZeroShortcut'], T['eofClampSqrtArg'], T['eofSecondTermGuardLt1'], c)))
                                     for v, c in zip(ve, cs))
        vg = [at(E.get_gme_2qubit, c) for c in cs]
        if all(v is not None for v in vg):
            T['gmeClampSqrtArg'] = not bool(np.isnan(vg[cs.index(1.0 + 1e-12)]))
            T['gmeRecognised'] = all(_same_float(v, _try(lambda: py_gme(T['gmeClampSqrtArg'], c))) for v, c in zip(vg, cs))
        # get_concurrence_pure: product amplitudes whose reduced purity rounds above 1 (corpus witness; deterministic search as fallback)
        wit = []
        try:
            import json
            for case in json.load(open(os.path.join(common.VERIF, 'corpus', 'C13', '4bfd71c_concurrence_pure_nan.json')))['cases']:
                wit.append(np.array([complex(*z) for z in case['psi']]).reshape(2, 2))
        except Exception:
            pass
        r0 = np.random.default_rng(0)
        while len(wit) < 6:
            a = r0.normal(size=2) + 1j * r0.normal(size=2); b = r0.normal(size=2) + 1j * r0.normal(size=2)
            psi = np.outer(a / np.linalg.norm(a), b / np.linalg.norm(b))
            t = psi.conj().T @ psi
            if np.vdot(t.reshape(-1), t.reshape(-1)).real > 1:
                wit.append(psi)
        vals = [_try(lambda: float(E.get_concurrence_pure(psi))) for psi in wit]
        if all(v is not None for v in vals):
            over = [np.vdot((p.conj().T @ p).reshape(-1), (p.conj().T @ p).reshape(-1)).real > 1 for p in wit]
            nans = [bool(np.isnan(v)) for v, o in zip(vals, over) if o]
            if nans and (all(nans) or not any(nans)):
                T['concPureClampSqrtArg'] = not any(nans)
                def py_cp(psi):
                    t = psi.conj().T @ psi if psi.shape[0] >= psi.shape[1] else psi @ psi.conj().T
                    x = 2 * (1 - np.vdot(t.reshape(-1), t.reshape(-1)).real)
                    if T['concPureClampSqrtArg']:
                        x = x if x > 0 else 0.0
                    with np.errstate(all='ignore'):
                        return float(np.sqrt(x))
                extra = [np.array([[0.6, 0], [0, 0.8]], dtype=np.complex128), np.ones((2, 2), dtype=np.complex128) / 2]
                T['concPureRecognised'] = all(_same_float(_try(lambda: float(E.get_concurrence_pure(p))), py_cp(p)) for p in wit + extra)
    except Exception:
        pass        # whatever could not be determined stays `unknown`: the obligations about it fail, the check goes on
    return T


def _lean_rat(fr):
    if fr is None:
        return '(0 : Rat)'   # absent default: slack obligations fail
    return f'(({fr.numerator}) : Rat) / {fr.denominator}'


def render_thresholds(T):
    b = lambda v: 'true' if v else 'false'
    L = []
    L.append('/-')
    L.append('GENERATED on every run by harness/c05.py:translate (also called by harness/c13.py) from the working tree of numqi:')
    L.append('comparison operators, default tolerances and guard structure of the verdict functions. Do not edit.')
    L.append('-/')
    L.append('namespace Numqi.Ent.Thresholds')
    L.append('')
    L.append('/-- comparison operator found in the source (`other` = not recognised) -/')
    L.append('inductive Cmp where')
    L.append('  | lt | le | gt | ge | other')
    L.append('deriving DecidableEq, Repr')
    L.append('')
    L.append('/-- `is_ppt(rho, dim, eps=…)` (ppt.py) -/')
    L.append(f'def isPptEpsDefault : Rat := {_lean_rat(T["isPptEpsDefault"])}')
    L.append('/-- `k` in `is_positive_semi_definite(rhoT, shift=k*eps)` (0 = not recognised) -/')
    L.append(f'def isPptShiftCoeff : Int := {T["isPptShiftCoeff"]}')
    L.append('/-- `check_reduction_witness(rho, dim, eps=…)` (_misc.py) -/')
    L.append(f'def reductionEpsDefault : Rat := {_lean_rat(T["reductionEpsDefault"])}')
    L.append(f'def reductionShiftCoeff : Int := {T["reductionShiftCoeff"]}')
    L.append('/-- `utils.is_positive_semi_definite`: `np0 = np0 + k*shift*eye` then Cholesky succeeds ⇒ True, LinAlgError ⇒ False -/')
    L.append(f'def psdShiftCoeff : Int := {T["psdShiftCoeff"]}')
    L.append(f'def psdCholesky : Bool := {b(T["psdCholesky"])}')
    L.append('/-- `is_generalized_ppt(…, threshold=…)`: `tag = all(x[2] <op> 1+threshold)`, early exit when `ret[-1][2] <brk> 1+threshold` -/')
    L.append(f'def gpptThresholdDefault : Rat := {_lean_rat(T["gpptThresholdDefault"])}')
    L.append(f'def gpptAcceptOp : Cmp := .{T["gpptAcceptOp"]}')
    L.append(f'def gpptRhsOnePlusThreshold : Bool := {b(T["gpptRhsOnePlusThreshold"])}')
    L.append(f'def gpptBreakOp : Cmp := .{T["gpptBreakOp"]}')
    L.append('/-- input guards `assert np.abs(rho-rho.T.conj()).max() <(=) 1e-10` of is_ppt / check_reduction_witness / get_negativity: present and complete -/')
    L.append(f'def isPptHermGuard : Bool := {b(T["isPptHermGuard"])}')
    L.append(f'def reductionHermGuard : Bool := {b(T["reductionHermGuard"])}')
    L.append(f'def negativityHermGuard : Bool := {b(T["negativityHermGuard"])}')
    L.append('/-- `check_swap_witness(rho, eps=…)`: `ret = tmp0 <op> eps` -/')
    L.append(f'def swapEpsDefault : Rat := {_lean_rat(T["swapEpsDefault"])}')
    L.append(f'def swapOp : Cmp := .{T["swapOp"]}')
    L.append('/-- `get_eof_2qubit` (eof.py): `if tmp0==0: 0`, `max(0, 1-c²)` under the square root, `if tmp1<1` around the second entropy term -/')
    L.append(f'def eofZeroShortcut : Bool := {b(T["eofZeroShortcut"])}')
    L.append(f'def eofClampSqrtArg : Bool := {b(T["eofClampSqrtArg"])}')
    L.append(f'def eofSecondTermGuardLt1 : Bool := {b(T["eofSecondTermGuardLt1"])}')
    L.append(f'def eofRecognised : Bool := {b(T["eofRecognised"])}')
    L.append('/-- `get_gme_2qubit` (measure.py): `max(0, 1-c²)` under the square root -/')
    L.append(f'def gmeClampSqrtArg : Bool := {b(T["gmeClampSqrtArg"])}')
    L.append(f'def gmeRecognised : Bool := {b(T["gmeRecognised"])}')
    L.append('/-- `get_concurrence_pure` (eof.py): `max(0, 2*(1-tmp2))` under the square root -/')
    L.append(f'def concPureClampSqrtArg : Bool := {b(T["concPureClampSqrtArg"])}')
    L.append(f'def concPureRecognised : Bool := {b(T["concPureRecognised"])}')
    L.append('')
    L.append('end Numqi.Ent.Thresholds')
    return '\n'.join(L) + '\n'


def translate(ctx):
    T = extract_thresholds(thorough=(ctx is not None and not ctx.quick()))
    txt = render_thresholds(T)
    os.makedirs(os.path.dirname(GEN), exist_ok=True)
    old = open(GEN).read() if os.path.exists(GEN) else None
    if old != txt:
        with common.build_lock():
            tmp = GEN + f'.tmp{os.getpid()}'
            with open(tmp, 'w') as fh:
                fh.write(txt)
            os.replace(tmp, GEN)   # atomic: a killed run must not leave a half-written generated file (Decision.lean is shared by C05 and C13)
    if ctx is not None:
        ctx.extra['thresholds'] = {k: (str(v) if isinstance(v, Fraction) else v) for k, v in T.items() if not k.startswith('_')}
        ctx.extra['threshold_extraction_sizes'] = T.get('_sizes')
        ctx.extra['threshold_extraction_per_size'] = T.get('_per_size')
    return T


# ---------------------------------------------------------------------------------------------------------------
# correspondence: exact tie of the index layer and of the verdict layer
# ---------------------------------------------------------------------------------------------------------------
# every structural class (square bipartite - the only one the swap witness accepts -, rectangular bipartite, >= 3 parties) with at least two
# sizes, including (4,4) and (5,5); one size beyond in the thorough tier.  LARGEST_TIED_N is recorded in the evidence.
DIMS_QUICK = [(2, 2), (2, 3), (3, 2), (3, 3), (2, 4), (4, 4), (5, 5), (2, 2, 2), (2, 3, 2), (3, 2, 2)]
DIMS_THOROUGH = DIMS_QUICK + [(4, 2), (3, 4), (6, 6), (2, 2, 3), (2, 2, 2, 2), (3, 3, 2), (3, 3, 3)]


def guarded(f):
    """an exception raised by (or below) the implementation is an observation `error:<type>`; an exception raised by harness code itself
    (e.g. reading a private attribute that was renamed) is re-raised as HarnessInternal and ends up as a note, never as a failing input"""
    try:
        return f()
    except HarnessInternal:
        raise
    except ImplObservation as e:
        return 'error:' + str(e)
    except AssertionError as e:
        if not is_impl_exception(e):
            raise HarnessInternal(f'AssertionError in harness code: {str(e)[:100]}') from e
        return 'error:assert'
    except Exception as e:
        if not is_impl_exception(e):
            raise HarnessInternal(f'{type(e).__name__} in harness code: {str(e)[:100]}') from e
        return 'error:' + type(e).__name__


SKIP = 'harness-skip'


def gskip(f):
    """`guarded` for the correspondence builders: a harness-internal exception yields SKIP (the op is withdrawn, with a note)"""
    try:
        return guarded(f)
    except HarnessInternal:
        return SKIP


def drop_skipped(ctx, triples):
    """remove ops whose implementation side could not be obtained for harness-internal reasons"""
    keep = [t for t in triples if not (isinstance(t[1], str) and t[1] == SKIP)]
    n = len(triples) - len(keep)
    if n:
        ctx.count('harness-internal-skip', n)
        ctx.note(f'harness-internal: {n} correspondence op(s) withdrawn (a private name / layout the capture relies on is not available); ops: '
                 + ', '.join(sorted({t[0].split(" ")[1] for t in triples if isinstance(t[1], str) and t[1] == SKIP})))
    return keep


def safely(ctx, key, replay, fn):
    """run a block that calls into the implementation; an exception becomes a failing input (ctx.fail), never an internal error"""
    try:
        return fn()
    except ImplObservation as e:
        # the implementation RETURNED something that is not of the documented kind (validated at the call boundary): a failing input
        ctx.fail(key.replace(':raises', ':bad-return-value'), f'the implementation returned a value of the wrong kind: {e}', replay)
        return None
    except Exception as e:
        import traceback
        tb = traceback.extract_tb(e.__traceback__)
        if isinstance(e, HarnessInternal) or not is_impl_exception(e):
            # raised by the harness itself (private name / layout it relied on changed): that part of the check is skipped, with a note
            where = next((f'{os.path.basename(t.filename)}:{t.lineno}' for t in reversed(tb) if '/verif/harness/' in t.filename.replace(os.sep, '/')), '')
            ctx.count('harness-internal-skip')
            msg = f'harness-internal: {key.replace(":raises", "")} skipped ({type(e).__name__}: {str(e)[:120]} at {where})'
            if msg not in ctx.notes and len([n for n in ctx.notes if n.startswith('harness-internal')]) < 20:
                ctx.note(msg)
            return None
        where = next((f'{os.path.basename(t.filename)}:{t.lineno}' for t in reversed(tb) if '/numqi/' in t.filename.replace(os.sep, '/')), '')
        ctx.fail(key, f'{type(e).__name__}: {str(e)[:200]} {where}'.strip(), replay)
        return None


def install_skip_reporting():
    """ties / probe blocks withdrawn for harness-internal reasons must be VISIBLE and must not pass for full coverage: the count is written to
    the evidence (`coverage.harness_internal_skips`), printed right under the summary line, and in the thorough tier a run that would otherwise
    exit 0 exits 2 (internal error: incomplete coverage), never 1 (it is not a violation of the property).  harness/common.py belongs to the
    coordinator; until the summary line itself carries the count this wraps `common.finish` for C05 / C13 runs only."""
    if getattr(common.finish, '_ent1_hook', False):
        return
    orig = common.finish

    def finish(ctx, *a, **kw):
        mine = ctx.pid in ('C05', 'C13')
        n = int(ctx.hist.get('harness-internal-skip', 0)) if mine else 0
        if mine:
            ctx.extra['harness_internal_skips'] = n
        rc = orig(ctx, *a, **kw)
        if n > 0:
            esc = ctx.tier == 'thorough' and rc == 0
            print(f'[{ctx.pid}] harness-internal-skip={n}: that many tie ops / probe blocks were WITHDRAWN and are not part of the agree count above '
                  f'(coverage.notes names them)' + ('; thorough tier: incomplete coverage is an internal error -> exit 2' if esc else ''))
            import sys
            sys.stdout.flush()
            if esc:
                rc = 2
        return rc
    finish._ent1_hook = True
    common.finish = finish


# expected number of tie ops per kind on an unchanged tree (80 % of the counts of a clean run): a kind that falls below its minimum - in
# particular to 0, which `drop_skipped` / SKIP make possible with a note only - is listed in the evidence together with the probe that still
# covers the function
TIE_MINIMA = dict(
    quick={'ppt': 100, 'red': 100, 'gppt': 90, 'swap': 8, 'ptb': 12, 'vppt': 110, 'vred': 110, 'vgppt': 110, 'vswap': 60, 'hguard': 70, 'gpptlist': 3,
           'sxidx': 4, 'sxcon': 6, 'sxwit': 4, 'idx0213': 5, 'sxrealign': 8, 'extray': 3, 'irreprdm': 8,
           'measure-eof': 50, 'measure-gme': 50, 'measure-wread': 10, 'measure-eofspec': 35, 'measure-gmespec': 35, 'measure-negread': 20},
    thorough={'ppt': 400, 'red': 400, 'gppt': 350, 'swap': 30, 'ptb': 60, 'vppt': 500, 'vred': 500, 'vgppt': 230, 'vswap': 200, 'hguard': 130, 'gpptlist': 4,
              'sxidx': 7, 'sxcon': 12, 'sxwit': 7, 'idx0213': 5, 'sxrealign': 14, 'extray': 5, 'irreprdm': 14,
              'measure-eof': 340, 'measure-gme': 340, 'measure-wread': 10, 'measure-eofspec': 300, 'measure-gmespec': 300, 'measure-negread': 150})
TIE_COVERED_BY = {'ppt': 'probe is_ppt:index', 'red': 'probe check_reduction_witness:index', 'gppt': 'probe is_generalized_ppt:index', 'swap': 'probe check_swap_witness:index',
                  'ptb': 'probe get_negativity:index', 'gpptlist': 'probe is_generalized_ppt:bipartitions'}


def record_tie_minima(ctx, minima, covered=TIE_COVERED_BY):
    seen = {k: int(ctx.hist.get(k, 0)) for k in minima}
    below = sorted(k for k, m in minima.items() if seen[k] < m)
    ctx.extra['tie_ops_per_kind'] = seen
    ctx.extra['tie_ops_minimum'] = dict(minima)
    ctx.extra['tie_kinds_below_minimum'] = below
    if below:
        ctx.note('tie kinds below their expected number of ops: ' + ', '.join(f'{k} {seen[k]}/{minima[k]}' + (' (VANISHED; ' + covered.get(k, 'covered by the *-separable / *-nonzero probes only') + ')' if seen[k] == 0 else '')
                                                                                for k in below))
        if any(seen[k] == 0 for k in below) and not ctx.hist.get('harness-internal-skip', 0):
            ctx.count('harness-internal-skip')       # a whole kind of tie is gone without any op having been counted as withdrawn


def gi(v):
    """complex with integer parts -> 're,im'"""
    v = complex(v)
    r, i = round(v.real), round(v.imag)
    if abs(v.real - r) > 1e-9 or abs(v.imag - i) > 1e-9:
        return 'nonintegral'
    return f'{int(r)},{int(i)}'


def dump(M):
    return ';'.join(gi(v) for v in np.asarray(M).reshape(-1))


def ents(M):
    return ';'.join(f'{int(round(v.real))},{int(round(v.imag))}' for v in np.asarray(M, dtype=np.complex128).reshape(-1))


def dims_str(dim):
    return ';'.join(str(int(d)) for d in dim)


def frac_str(fr):
    fr = Fraction(fr)
    return f'{fr.numerator}/{fr.denominator}'


_EIG = ('eigh', 'eigvalsh', 'eigvals', 'eig')
_RESULT_TYPES = {}


def _eig_result_type(orig):
    """the (named) tuple type the real routine returns for `(values, vectors)`; plain tuple if it has none"""
    k = id(orig)
    if k not in _RESULT_TYPES:
        try:
            r = orig(np.eye(1))
            _RESULT_TYPES[k] = type(r) if isinstance(r, tuple) and hasattr(r, '_fields') and len(r) == 2 else None
        except Exception:
            _RESULT_TYPES[k] = None
    return _RESULT_TYPES[k]


@contextlib.contextmanager
def eig_family(handler):
    """replace, CONSISTENTLY, every entry point through which the implementation can obtain a dense eigen-decomposition:
    `eigh / eigvalsh / eigvals / eig` of `numpy.linalg` and `scipy.linalg`, and every module-global alias of one of them inside a numqi
    module (`from numpy.linalg import eigvalsh`).  `handler(name, a, wants_vectors)` returns None (call the real routine) or `(values,
    vectors)`; the wrapper hands back values only where the routine returns values only.  Which of the routines the implementation
    happens to call must not matter to a tie (eigvals -> eigvalsh, eigvalsh(M) -> eigh(M)[0] are behaviour-preserving rewrites)."""
    import sys
    mods = [np.linalg]
    try:
        import scipy.linalg
        mods.append(scipy.linalg)
    except Exception:
        pass
    wrappers = {}

    def make(orig, name):
        def w(a, *args, **kw):
            vec = name in ('eigh', 'eig') and not kw.get('eigvals_only', False)
            r = handler(name, a, vec)
            if r is None:
                return orig(a, *args, **kw)
            evl, evc = r
            if not vec:
                return evl
            cls = _eig_result_type(orig)
            return cls(evl, evc) if cls else (evl, evc)
        return w
    for mod in mods:
        for name in _EIG:
            orig = getattr(mod, name, None)
            if orig is not None and id(orig) not in wrappers:
                _eig_result_type(orig) if name in ('eigh', 'eig') else None
                wrappers[id(orig)] = (orig, make(orig, name))
    saved = []
    for mod in mods:
        for name in _EIG:
            orig = getattr(mod, name, None)
            if orig is not None and id(orig) in wrappers and wrappers[id(orig)][0] is orig:
                saved.append((mod, name, orig)); setattr(mod, name, wrappers[id(orig)][1])
    for mname, m in list(sys.modules.items()):
        if m is None or not (mname == 'numqi' or mname.startswith('numqi.')):
            continue
        g = getattr(m, '__dict__', None)
        if not isinstance(g, dict):
            continue
        for k, v in list(g.items()):
            if callable(v) and id(v) in wrappers and wrappers[id(v)][0] is v:
                saved.append((g, k, v)); g[k] = wrappers[id(v)][1]
    try:
        yield
    finally:
        for tgt, k, v in reversed(saved):
            if isinstance(tgt, dict):
                tgt[k] = v
            else:
                setattr(tgt, k, v)


def _swap_numqi_aliases(orig, new):
    """replace the object `orig` by `new` in the globals of every loaded numqi module that holds it; returns the undo list"""
    import sys
    saved = []
    for mname, m in list(sys.modules.items()):
        if m is None or not (mname == 'numqi' or mname.startswith('numqi.')):
            continue
        g = getattr(m, '__dict__', None)
        if not isinstance(g, dict):
            continue
        for k, v in list(g.items()):
            if v is orig:
                saved.append((g, k, v)); g[k] = new
    return saved


@contextlib.contextmanager
def spectrum_stub(ev):
    """every routine of the eigen family answers with the prescribed spectrum (identity eigenvectors where vectors are asked for)"""
    calls = []

    def handler(name, a, vec):
        calls.append(name)
        return np.array(ev, dtype=np.float64), np.eye(len(ev), dtype=np.complex128)
    with eig_family(handler):
        yield calls


@contextlib.contextmanager
def capture():
    """record the matrices that the criteria hand to the PSD test / nuclear norm / eigenvalue routines (PSD verdicts forced to True so that
    `all(...)` does not short-circuit).  Every wrapper passes `*args, **kw` through unchanged (the implementation's own signatures may grow)
    and reads the one argument it needs defensively; the eigenvalue routines are recorded through `eig_family` (whichever routine is used),
    the nuclear norm through `np.linalg.norm(ord='nuc')` or a bare `np.linalg.svd(compute_uv=False)`"""
    import numqi
    rec = dict(psd=[], norm=[], eig=[])
    o_psd, o_norm, o_svd = numqi.utils.is_positive_semi_definite, np.linalg.norm, np.linalg.svd

    def psd(np0, *a, **kw):
        rec['psd'].append((np.array(np0), kw.get('shift', a[0] if a else 0.0)))
        return True

    def norm(x, *a, **kw):
        o = kw.get('ord', a[0] if a else None)
        if isinstance(o, str) and o == 'nuc':
            rec['norm'].append(np.array(x))
        return o_norm(x, *a, **kw)

    def svd(x, *a, **kw):
        if kw.get('compute_uv', a[1] if len(a) > 1 else True) is False and np.ndim(x) == 2:
            rec['norm'].append(np.array(x))          # nuclear norm spelled as the sum of the singular values
        return o_svd(x, *a, **kw)

    def handler(name, a, vec):
        rec['eig'].append(np.array(a))
        return None
    saved = _swap_numqi_aliases(o_psd, psd)      # `numqi.utils.is_positive_semi_definite` and every `from numqi.utils import …` alias of it
    np.linalg.norm, np.linalg.svd = norm, svd
    try:
        with eig_family(handler):
            yield rec
    finally:
        for g, k, v in reversed(saved):
            g[k] = v
        np.linalg.norm, np.linalg.svd = o_norm, o_svd


def first_eig(rec, what):
    """the first matrix handed to a routine of the eigen family (first item of a batch)"""
    need(rec['eig'], what)
    m = rec['eig'][0]
    return m.reshape(-1, m.shape[-2], m.shape[-1])[0]


def parse_ents(s, N):
    """entries `a,b` (Gaussian integer) or `p/q` (exact real rational)"""
    v = []
    for t in s.split(';'):
        if ',' in t:
            a, b = t.split(',')
            v.append(complex(int(a), int(b)))
        else:
            v.append(complex(float(Fraction(t)), 0.0))
    return np.array(v, dtype=np.complex128).reshape(N, N)


def gppt_bipartitions(n):
    """the bipartitions is_generalized_ppt evaluates for n parties, from its PUBLIC return value (return_info=True lists (dim0, dim1, norm))"""
    import numqi
    N = 2 ** n
    info = vinfo(numqi.entangle.is_generalized_ppt(np.eye(N) / N, (2,) * n, return_info=True))[1]
    return [(d0, d1) for d0, d1, _ in info]


def need(rec_list, what):
    """the capture wrappers intercept the routine through which the implementation tests its matrix; if nothing was intercepted the
    implementation reaches that routine differently: the capture (harness) is out of date, not the implementation.  (The value the
    function RETURNED has been validated before this point - a verdict that is not a bool is reported, not skipped.)"""
    if len(rec_list) == 0:
        raise HarnessInternal(f'nothing captured through {what}')


def psd_tested_matrices(call):
    """the matrices a criterion tests for positivity, in the order tested: through `is_positive_semi_definite` (verdicts forced to True so
    that `all(...)` does not stop early) or, if the implementation does not go through that function, through a routine of the eigen family
    (answered with an all-ones spectrum for the same reason).  The verdict returned by `call` is validated (bool) first."""
    with capture() as rec:
        vbool(call())
    if rec['psd']:
        return [m for m, _ in rec['psd']]
    mats = []

    def handler(name, a, vec):
        mats.append(np.array(a))
        n = np.asarray(a).shape[-1]
        return np.ones(n), np.eye(n, dtype=np.complex128)
    with eig_family(handler):
        vbool(call())
    need(mats, 'is_positive_semi_definite or an eigenvalue routine')
    return [m.reshape(-1, m.shape[-2], m.shape[-1])[0] for m in mats]


def non_hermitian_variants(N):
    """perturbations P such that H + P is not Hermitian (H Hermitian), one per way a Hermiticity test can be incomplete:
    real asymmetric off-diagonal, imaginary diagonal, imaginary symmetric off-diagonal"""
    out = []
    P = np.zeros((N, N), dtype=np.complex128); P[0, N - 1] = 1; out.append(('real-asymmetric', P))
    P = np.zeros((N, N), dtype=np.complex128); P[N - 1, N - 1] = 1j; out.append(('imaginary-diagonal', P))
    P = np.zeros((N, N), dtype=np.complex128); P[0, N - 1] = 1j; P[N - 1, 0] = 1j; out.append(('imaginary-symmetric', P))
    return out


def impl_op(op):
    import numqi
    E = numqi.entangle
    t = op.split(' ')
    k = t[1]
    b = lambda x: '1' if vbool(x) else '0'          # a verdict that is not a bool is an observation `error:verdict-type:<type>`
    if k == 'gpptlist':
        def f():
            return '|'.join(','.join(str(x) for x in d0) + ':' + ','.join(str(x) for x in d1) for d0, d1 in gppt_bipartitions(int(t[2])))
        return gskip(f)
    dim = tuple(int(x) for x in t[2].split(';'))
    N = int(np.prod(dim))
    if k == 'hguard':
        fn = dict(ppt=lambda m: E.is_ppt(m, dim), red=lambda m: E.check_reduction_witness(m, dim), neg=lambda m: E.get_negativity(m, dim))[t[3]]
        rho = parse_ents(t[4], N)

        def f():
            r = guarded(lambda: fn(rho))
            return 'error' if isinstance(r, str) and r.startswith('error') else 'ok'
        return gskip(f)
    if k in ('ppt', 'red', 'gppt', 'swap', 'ptb'):
        rho = parse_ents(t[3], N)
        if k == 'ppt':
            return gskip(lambda: '|'.join(dump(m) for m in psd_tested_matrices(lambda: E.is_ppt(rho, dim))))
        if k == 'red':
            return gskip(lambda: '|'.join(dump(m) for m in psd_tested_matrices(lambda: E.check_reduction_witness(rho, dim))))
        if k == 'gppt':
            def f():
                with capture() as rec:
                    vinfo(E.is_generalized_ppt(rho, dim, return_info=True))
                need(rec['norm'], 'np.linalg.norm(ord="nuc")')
                return '|'.join(f'{m.shape[0]}:' + dump(m) for m in rec['norm'])
            return gskip(f)
        if k == 'swap':
            # the value is recovered exactly from verdicts: the first integer v with not (value > v - 1/2) ... done by bisection
            def f():
                lo, hi = -10 ** 6, 10 ** 6
                # invariant: value > lo - 1/2 and not value > hi - 1/2  (value integer in [lo, hi-1])
                if not vbool(E.check_swap_witness(rho, eps=lo - 0.5)) or vbool(E.check_swap_witness(rho, eps=hi - 0.5)):
                    return 'out-of-range'
                while hi - lo > 1:
                    mid = (lo + hi) // 2
                    if vbool(E.check_swap_witness(rho, eps=mid - 0.5)):
                        lo = mid
                    else:
                        hi = mid
                return str(lo)
            return gskip(f)
        if k == 'ptb':
            def f():
                with capture() as rec:
                    E.get_negativity(rho, dim)
                a = dump(first_eig(rec, 'an eigenvalue routine (get_negativity)'))
                with capture() as rec:
                    with np.errstate(all='ignore'):
                        E.get_ppt_boundary(rho, dim, dm_norm=1.0, within_dm=False)
                b_ = dump(first_eig(rec, 'an eigenvalue routine (get_ppt_boundary)'))
                return a if a == b_ else f'negativity:{a} ppt_boundary:{b_}'
            return gskip(f)
    if k in ('vppt', 'vred', 'vgppt', 'vswap'):
        eps = t[3]
        rho = parse_ents(t[4], N)
        kw = {} if eps == 'default' else {('threshold' if k == 'vgppt' else 'eps'): float(Fraction(eps))}
        if k == 'vppt':
            return gskip(lambda: b(E.is_ppt(rho, dim, **kw)))
        if k == 'vred':
            return gskip(lambda: b(E.check_reduction_witness(rho, dim, **kw)))
        if k == 'vgppt':
            def f():
                r0 = vbool(E.is_generalized_ppt(rho, dim, **kw))
                r1 = vinfo(E.is_generalized_ppt(rho, dim, return_info=True, **kw))[0]
                return ('1' if r0 else '0') if r0 == r1 else 'inconsistent-return_info'
            return gskip(f)
        if k == 'vswap':
            return gskip(lambda: b(E.check_swap_witness(rho, **kw)))
    return 'bad-op'


def model_line(op, T):
    """the op line is sent unchanged: for `default` the driver itself uses the constant of Generated/Thresholds.lean (the one the
    robust-acceptance theorems are about) and the implementation is called without the keyword"""
    return op


def rand_gint_matrix(rng, N, hermitian, lo=-3, hi=3, density=1.0):
    A = rng.integers(lo, hi + 1, size=(N, N)) + 1j * rng.integers(lo, hi + 1, size=(N, N))
    if density < 1:
        A = A * (rng.random((N, N)) < density)
    if hermitian:
        A = A + A.conj().T
    return A.astype(np.complex128)


def gen_ops(ctx):
    rng = np.random.default_rng(ctx.np_seed)
    ops = []
    dims = DIMS_QUICK if ctx.quick() else DIMS_THOROUGH
    for n in range(2, 5 if ctx.quick() else 6):
        ops.append(f'C05 gpptlist {n}')
    rep0 = 3 if ctx.quick() else 12
    for dim in dims:
        N = int(np.prod(dim))
        ds = dims_str(dim)
        rep = rep0 if N <= 12 else max(2, rep0 // 3)         # the large systems: fewer random matrices (each has N^2 >= 256 entries)
        # Hermiticity guards of is_ppt / check_reduction_witness / get_negativity: one Hermitian input and the three kinds of non-Hermitian ones
        Hh = rand_gint_matrix(rng, N, True)
        for fn in ('ppt', 'red') + (('neg',) if len(dim) == 2 else ()):
            ops.append(f'C05 hguard {ds} {fn} {ents(Hh)}')
            for _, P in non_hermitian_variants(N):
                ops.append(f'C05 hguard {ds} {fn} {ents(Hh + P)}')
        for r in range(rep):
            H = rand_gint_matrix(rng, N, True, density=[1.0, 0.3, 1.0][r % 3])
            G = rand_gint_matrix(rng, N, False, density=[1.0, 1.0, 0.3][r % 3])
            ops.append(f'C05 ppt {ds} {ents(H)}')
            ops.append(f'C05 red {ds} {ents(H)}')
            if len(dim) <= 3 or not ctx.quick():
                ops.append(f'C05 gppt {ds} {ents(G)}')
            if len(dim) == 2:
                ops.append(f'C05 ptb {ds} {ents(H)}')
                if dim[0] == dim[1]:
                    ops.append(f'C05 swap {ds} {ents(G)}')
        # unit matrices: every entry position separately for the smallest systems (exhaustive over index pairs)
        if N <= 6 or (not ctx.quick() and N <= 9):
            for r in range(N):
                for c in range(N):
                    U = np.zeros((N, N), dtype=np.complex128); U[r, c] = 1
                    ops.append(f'C05 gppt {ds} {ents(U)}')
                    Hh = U + U.T + (1j * (U - U.T) if r != c else 0)
                    ops.append(f'C05 ppt {ds} {ents(Hh)}')
                    ops.append(f'C05 red {ds} {ents(Hh)}')
        # verdict layer: diagonal matrices (Cholesky exact), dyadic eps, and the default
        eps_list = ['default', '0/1', '1/2', '-1/2', '1/1', '-1/1', '-1/4', '2/1']
        for r in range(rep * 3):
            d = rng.integers(-1, 3, size=N) if r % 2 else rng.integers(0, 3, size=N)
            D = np.diag(d).astype(np.complex128)
            e = eps_list[r % len(eps_list)] if r >= 2 else 'default'
            ops.append(f'C05 vppt {ds} {e} {ents(D)}')
            ops.append(f'C05 vred {ds} {e} {ents(D)}')
        for kk, th in [(1, 'default'), (2, 'default'), (1, '0/1'), (2, '1/1'), (2, '1/2'), (3, '2/1'), (1, '-1/2'), (0, '0/1'), (-2, '1/1'), (-2, '1/2')]:
            r, c = int(rng.integers(0, N)), int(rng.integers(0, N))
            U = np.zeros((N, N), dtype=np.complex128); U[r, c] = kk
            ops.append(f'C05 vgppt {ds} {th} {ents(U)}')
        # the default tolerances by magnitude (not only by sign): values at half and at twice the tolerance, exact rationals
        def rat_diag(vals):
            M = [['0/1'] * N for _ in range(N)]
            for k, v in enumerate(vals):
                M[k][k] = v
            return ';'.join(x for row in M for x in row)
        for x in ('-1/20000000', '-1/5000000', '-1/10000001', '-1/9999999', '0/1', '1/20000000'):
            ops.append(f'C05 vppt {ds} default ' + rat_diag(['1/2'] * (N - 1) + [x]))
            ops.append(f'C05 vred {ds} default ' + rat_diag([x] + ['0/1'] * (N - 1)))
            if len(dim) == 2 and dim[0] == dim[1]:
                ops.append(f'C05 vswap {ds} default ' + rat_diag([x] + ['0/1'] * (N - 1)))
        for k in ('20000000001/20000000000', '5000000001/5000000000', '1/1', '9999999999/10000000000', '-20000000001/20000000000'):
            M = ['0/1'] * (N * N); M[int(rng.integers(0, N * N))] = k
            ops.append(f'C05 vgppt {ds} default ' + ';'.join(M))
        if len(dim) == 2 and dim[0] == dim[1]:
            for r in range(rep * 2):
                G = rand_gint_matrix(rng, N, False)
                d0 = dim[0]
                v = int(round(sum(G[a * d0 + b, b * d0 + a] for a in range(d0) for b in range(d0)).real))
                for e in ['default', f'{v}/1', f'{2 * v - 1}/2', f'{2 * v + 1}/2']:
                    ops.append(f'C05 vswap {ds} {e} {ents(G)}')
            Z = np.zeros((N, N), dtype=np.complex128)
            ops.append(f'C05 vswap {ds} default {ents(Z)}')
    # malformed
    ops += ['C05 ppt 2;2 1,0;0,0', 'C05 ppt 1;4 ' + ents(np.eye(4)), 'C05 swap 2;3 ' + ents(np.eye(6)), 'C05 nonsense 2;2 ' + ents(np.eye(4)), 'C05 gpptlist x']
    return ops


class PureCalls:
    """proxy for a module of the implementation: every call (i) must leave its array arguments bit-identical (dtype, shape, strides,
    bytes) - numpy views and in-place operators on the caller's data are a classic way to corrupt a state silently - and (ii) called a
    second time on the very same argument objects must return the same value.  Violations become failing inputs
    `<function>:mutates-argument` / `<function>:not-repeatable` (the replay carries the original argument)"""

    def __init__(self, ctx, mod, rp=None, repeat=True):
        self._ctx, self._mod, self.rp, self._repeat = ctx, mod, (rp or {}), repeat

    @staticmethod
    def _same(a, b):
        try:
            if isinstance(a, (tuple, list)):
                return len(a) == len(b) and all(PureCalls._same(x, y) for x, y in zip(a, b))
            a1, b1 = np.asarray(a), np.asarray(b)
            if a1.dtype == object or b1.dtype == object:
                return True
            return a1.shape == b1.shape and bool(np.array_equal(a1, b1, equal_nan=True))
        except Exception:
            return True

    def __getattr__(self, name):
        f = getattr(self._mod, name)
        if not callable(f):
            return f
        ctx, rp = self._ctx, self.rp

        def wrapper(*args, **kw):
            arrs = [a for a in list(args) + list(kw.values()) if isinstance(a, np.ndarray)]
            snaps = [(a.copy(), a.dtype, a.shape, a.strides) for a in arrs]
            r = f(*args, **kw)
            for a, (s0, dt, sh, st) in zip(arrs, snaps):
                if a.dtype != dt or a.shape != sh or a.strides != st or not np.array_equal(a, s0, equal_nan=True):
                    ctx.fail(f'{name}:mutates-argument', f'{name} modified its {dt} argument of shape {sh} in place (max change '
                             f'{float(np.abs(np.asarray(a, dtype=np.complex128) - s0).max()) if a.shape == sh else "shape"}); the caller\'s array is corrupted',
                             dict(rp, dtype=str(dt), argument=[[float(np.real(z)), float(np.imag(z))] for z in np.asarray(s0).reshape(-1)], shape=list(sh)))
                    if a.shape == sh and a.flags.writeable:
                        a[...] = s0
            if self._repeat:
                r2 = f(*args, **kw)
                if not PureCalls._same(r, r2):
                    ctx.fail(f'{name}:not-repeatable', f'{name} called twice on the same argument objects returned {str(r)[:80]} and then {str(r2)[:80]}',
                             dict(rp, dtype=str(arrs[0].dtype) if arrs else ''))
                for a, (s0, dt, sh, st) in zip(arrs, snaps):
                    if a.shape == sh and a.flags.writeable and not np.array_equal(a, s0, equal_nan=True):
                        a[...] = s0
            return r
        return wrapper


# ---------------------------------------------------------------------------------------------------------------
# the formulation of the naive symmetric-extension SDP (solver = contract): cvxpy.Variable replaced by an integer Hermitian constant,
# cvxpy.Problem captured instead of solved, every constraint's left-hand side compared exactly with the model
# ---------------------------------------------------------------------------------------------------------------
@contextlib.contextmanager
def patched(obj, name, val):
    old = getattr(obj, name)
    setattr(obj, name, val)
    try:
        yield
    finally:
        setattr(obj, name, old)


def capture_naive_sdp(X, rho, dim, kext, index_kind='2d'):
    """run is_ABk_symmetric_ext_naive with `cvxX := X` (constant) and return the captured constraints"""
    import cvxpy, numqi
    cap = {}

    class FakeProblem:
        value = 0.0

        def __init__(self, obj, cons):
            cap['cons'] = list(cons)

        def solve(self, *a, **kw):
            return 0.0
    with patched(cvxpy, 'Variable', lambda shape, hermitian=False, **kw: cvxpy.Constant(X)), patched(cvxpy, 'Problem', FakeProblem):
        ok, val = numqi.entangle.symext.is_ABk_symmetric_ext_naive(rho, dim, kext, index_kind=index_kind)
    return cap['cons'], ok, val


def sx_constraint_sides(cons):
    """(kind, lhs, rhs) for every captured constraint; the PSD constraint has kind 'psd' and lhs = the matrix required to be PSD"""
    import cvxpy
    out = []
    for c in cons:
        if isinstance(c, cvxpy.constraints.psd.PSD):
            out.append(('psd', np.asarray(c.args[0].value), None))
        elif isinstance(c, cvxpy.constraints.zero.Equality):
            out.append(('eq', np.asarray(c.args[0].value), np.asarray(c.args[1].value)))
        else:
            out.append((type(c).__name__, None, None))
    return out


def sx_ops(ctx, rng):
    """ops + implementation lines for the symmetric-extension formulation tie"""
    import numqi
    from numqi.entangle.symext import get_symmetric_extension_index_list
    ops, impl = [], []
    cases = [((2, 2), 2), ((2, 2), 3), ((2, 3), 2), ((3, 2), 2), ((3, 2), 3)] if ctx.quick() else \
            [((2, 2), 2), ((2, 2), 3), ((2, 2), 4), ((2, 3), 2), ((2, 3), 3), ((3, 2), 2), ((3, 2), 3), ((3, 2), 4), ((3, 3), 2)]
    for (dA, dB), kext in cases:
        N = dA * dB ** kext
        # (a) the index arrays, both kinds
        def fi():
            l2 = get_symmetric_extension_index_list(dA, dB, kext, kind='2d')
            l1 = get_symmetric_extension_index_list(dA, dB, kext, kind='1d')
            return '|'.join(','.join(str(int(v)) for v in x) for x in l2) + '#' + '|'.join(','.join(str(int(v)) for v in x) for x in l1)
        ops.append(f'C05 sxidx {dA} {dB} {kext}'); impl.append(gskip(fi)); ctx.count('sx-index-arrays')
        # (b) constraint left-hand sides on a random Gaussian-integer Hermitian "variable" (both index kinds must give the same constraints)
        for rep in range(1 if ctx.quick() and N > 20 else 2):
            G = rand_gint_matrix(rng, N, True, density=1.0 if N <= 16 else 0.3)
            rho_dummy = rand_gint_matrix(rng, dA * dB, True)
            def fc():
                outs = []
                for kind in ('2d', '1d'):
                    cons, ok, val = capture_naive_sdp(G, rho_dummy, (dA, dB), kext, kind)
                    sides = sx_constraint_sides(cons)
                    kinds = [k for k, _, _ in sides]
                    want = ['psd', 'eq', 'eq'] + ['eq'] * (2 if kext > 2 else 1)
                    if kinds != want:
                        return f'constraint-structure:{kinds}'
                    if not np.array_equal(sides[0][1], G) or ok is not True or not np.array_equal(val, G):
                        return 'variable-not-used-as-is'
                    if complex(sides[1][2]) != 1 or not np.array_equal(sides[2][2], rho_dummy):
                        return 'right-hand-sides'
                    if any(not np.array_equal(s[2], G) for s in sides[3:]):
                        return 'permutation-rhs-not-X'
                    outs.append(gi(complex(np.asarray(sides[1][1]).reshape(-1)[0])) + '|' + dump(sides[2][1]) + '|' + '|'.join(dump(s[1]) for s in sides[3:]))
                return outs[0] if outs[0] == outs[1] else 'index-kinds-differ'
            ops.append(f'C05 sxcon {dA} {dB} {kext} {ents(G)}'); impl.append(gskip(fc)); ctx.count('sx-constraints')
        # (c) the separable witness of the model, fed into the captured constraints: they must be satisfied exactly
        nterm = int(rng.integers(1, 4))
        terms = []
        for _ in range(nterm):
            w = int(rng.integers(1, 4))
            a = rand_gint_matrix(rng, 1, False, -2, 2).reshape(-1)[0] * 0 + (rng.integers(-2, 3, size=dA) + 1j * rng.integers(-2, 3, size=dA))
            b = rng.integers(-2, 3, size=dB) + 1j * rng.integers(-2, 3, size=dB)
            if not np.any(a): a[0] = 1
            if not np.any(b): b[0] = 1
            terms.append((w, a, b))
        tstr = '|'.join(f'{w},0:' + ';'.join(f'{int(z.real)},{int(z.imag)}' for z in a) + ':' + ';'.join(f'{int(z.real)},{int(z.imag)}' for z in b) for w, a, b in terms)
        W = np.zeros((N, N), dtype=np.complex128)
        R = np.zeros((dA * dB, dA * dB), dtype=np.complex128)
        for w, a, b in terms:
            v = a
            for _ in range(kext):
                v = np.kron(v, b)
            W += w * np.outer(v, v.conj())
            ab = np.kron(a, b)
            R += w * (np.vdot(b, b).real ** (kext - 1)) * np.outer(ab, ab.conj())
        def fw():
            cons, ok, val = capture_naive_sdp(W, R, (dA, dB), kext, '2d')
            sides = sx_constraint_sides(cons)
            # satisfied exactly (homogeneous form: the witness is unnormalised, trace(W) stands for 1): every equality lhs == rhs
            for kk, (kd, lhs, rhs) in enumerate(sides):
                if kd == 'psd':
                    if np.linalg.eigvalsh(lhs)[0] < -1e-9 * max(1.0, np.abs(lhs).max()):
                        return 'witness-not-psd'
                elif kk == 1:
                    if abs(complex(np.asarray(lhs).reshape(-1)[0]) - np.trace(R)) > 0:
                        return 'trace-of-witness-differs-from-trace-of-state'
                elif not np.array_equal(lhs, rhs):
                    return f'constraint-{kk}-violated-by-the-separable-witness'
            return dump(W) + '|' + dump(R)
        ops.append(f'C05 sxwit {dA} {dB} {kext} {tstr}'); impl.append(gskip(fw)); ctx.count('sx-witness')
    return ops, impl


# ---------------------------------------------------------------------------------------------------------------
# irrep-block path of the extension SDPs (entangle/symext.py:66,135,186,298): index helpers and the reduced-state contraction.
# Shared with C06: the ops are handled by lean/Driver/SymExtOps.lean (`Numqi.Driver.SymExtOps.handle?`).
# ---------------------------------------------------------------------------------------------------------------
def f2b(x):
    import struct
    return struct.unpack('<Q', struct.pack('<d', float(x)))[0]


def bits_list(M):
    return ';'.join(f'{f2b(v.real)},{f2b(v.imag)}' for v in np.asarray(M, dtype=np.complex128).reshape(-1))


def parse_qi(s):
    out = []
    for t in s.split(';'):
        a, b = t.split(',')
        out.append(complex(float(Fraction(a)), float(Fraction(b))))
    return np.array(out)


class _FakeProblem:
    """records the constraint list; nothing is solved"""
    last = None
    value = 0.0

    def __init__(self, obj, cons):
        self.cons = list(cons)
        _FakeProblem.last = self

    def solve(self, *a, **kw):
        return 0.0


def irrep_ops(ctx, rng):
    """(op, implementation value, kind) with kind 'exact' (string equality) or 'qi' (exact rational model vs float, 1e-12)"""
    import cvxpy, numqi
    SX = numqi.entangle.symext
    out = []
    # (1) get_cvxpy_transpose0213_indexing
    for (n0, n1, n2, n3) in [(2, 3, None, None), (3, 2, None, None), (2, 1, None, None), (2, 4, None, None), (3, 6, None, None), (2, 3, 4, 5), (1, 2, 3, 2)]:
        def f():
            r = SX.get_cvxpy_transpose0213_indexing(n0, n1) if n2 is None else SX.get_cvxpy_transpose0213_indexing(n0, n1, n2, n3)
            return ','.join(str(int(v)) for v in r)
        a2, a3 = (n0, n1) if n2 is None else (n2, n3)
        out.append((f'C05 idx0213 {n0} {n1} {a2} {a3}', gskip(f), 'exact')); ctx.count('irrep-idx0213')
    cases = [((2, 2), 2), ((2, 2), 3), ((2, 3), 2), ((3, 2), 2)] if ctx.quick() else [((2, 2), 2), ((2, 2), 3), ((2, 2), 4), ((2, 3), 2), ((3, 2), 2), ((3, 2), 3), ((3, 3), 2)]
    for (dA, dB), kext in cases:
        N = dA * dB
        rho = np.asarray(numqi.random.rand_density_matrix(N, seed=rng), dtype=np.complex128)
        L = (np.arange(N * N).reshape(N, N)).astype(np.complex128)         # labels r*N+c
        def labels_of(R, src):
            table = {complex(v): k for k, v in enumerate(np.asarray(src).reshape(-1))}
            if len(table) != N * N:
                return None
            lab = [table.get(complex(v)) for v in np.asarray(R).reshape(-1)]
            return None if any(x is None for x in lab) else ';'.join(f'{x},0' for x in lab)
        # (2) realignment of the input state in is_ABk_symmetric_ext: the value handed to the cvxpy Parameter
        for boson in (False, True):
            params = []
            real_param = cvxpy.Parameter
            def rec_param(*a, **kw):
                p_ = real_param(*a, **kw); params.append(p_); return p_
            def f():
                with patched(cvxpy, 'Parameter', rec_param), patched(cvxpy, 'Problem', _FakeProblem):
                    r = SX.is_ABk_symmetric_ext(rho, (dA, dB), kext, use_boson=boson)
                if r is not True and r is not np.True_:
                    return f'verdict-with-finite-problem-value:{r}'
                if len(params) != 1 or params[0].value is None or params[0].value.shape != (dA * dA, dB * dB):
                    return 'parameter-shape'
                lab = labels_of(params[0].value, rho)
                return lab if lab is not None else 'parameter-is-not-a-rearrangement-of-rho'
            out.append((f'C05 sxrealign {dA} {dB} {ents(L)}', gskip(f), 'exact')); ctx.count('irrep-sxrealign')
        # (3) get_ABk_symmetric_extension_boundary: the direction handed to the Parameter and the right-hand side eye/N + beta*direction
        beta0 = 0.75
        params = []
        real_param = cvxpy.Parameter
        def rec_param2(*a, **kw):
            p_ = real_param(*a, **kw); params.append(p_); return p_
        def fake_var(shape=(), hermitian=False, **kw):
            if shape == () or shape is None:
                return cvxpy.Constant(beta0)
            return cvxpy.Constant(np.zeros(shape if isinstance(shape, tuple) else (shape,), dtype=np.complex128))
        def fb():
            with patched(cvxpy, 'Parameter', rec_param2), patched(cvxpy, 'Problem', _FakeProblem), patched(cvxpy, 'Variable', fake_var):
                b = SX.get_ABk_symmetric_extension_boundary(rho, (dA, dB), kext)
            if float(b) != beta0:
                return 'beta-not-returned'
            R = np.asarray(params[0].value)
            dm_norm = numqi.gellmann.dm_to_gellmann_norm(rho[np.newaxis])
            hat = ((rho[np.newaxis] - np.eye(N) / N) / dm_norm.reshape(-1, 1, 1))[0]
            lab = labels_of(R, hat)
            sigma = np.asarray(_FakeProblem.last.cons[-1].args[1].value)
            return lab, R, sigma
        rb = gskip(fb)
        if isinstance(rb, str):
            out.append((f'C05 sxrealign {dA} {dB} {ents(L)}', rb, 'exact'))
        else:
            lab, R, sigma = rb
            out.append((f'C05 sxrealign {dA} {dB} {ents(L)}', lab if lab is not None else 'direction-is-not-a-rearrangement-of-(rho-1/N)/norm', 'exact'))
            out.append((f'C05 extray {dA} {dB} {f2b(beta0)} {bits_list(R)}', sigma.reshape(-1), 'qi'))
        ctx.count('irrep-extray')
        # (4) _ABk_symmetric_extension_setup: cvx_rdm, the trace constraint and (use_ppt) the partial transposes, variables := Gaussian integers
        for boson, ppt in ((False, False), (True, False), (False, True)):
            Ps = []
            def fake_var2(shape=(), hermitian=False, **kw):
                G = rand_gint_matrix(rng, shape[0], True)
                Ps.append(G); return cvxpy.Constant(G)
            def fr():
                with patched(cvxpy, 'Variable', fake_var2):
                    setup = getattr(SX, '_ABk_symmetric_extension_setup', None)
                    if setup is None:
                        raise HarnessInternal('private helper _ABk_symmetric_extension_setup not found')
                    cvxP, cons, rdm = setup(dA, dB, kext, boson, ppt)
                coeff, mult = numqi.group.symext.get_symmetric_extension_irrep_coeff(dB, kext)
                if boson:
                    coeff, mult = coeff[:1], mult[:1]
                if [c.shape[0] * dA for c in coeff] != [P.shape[0] for P in Ps]:
                    return 'block-sizes'
                npsd = len(Ps) * (2 if ppt else 1)
                kinds = [type(c).__name__ for c in cons]
                if kinds != ['PSD'] * npsd + ['Equality']:
                    return f'constraint-structure:{kinds}'
                blocks = '|'.join(f'{c.shape[0]}:{ents(P)}:{bits_list(c)}:{f2b(float(m))}' for P, c, m in zip(Ps, coeff, mult))
                pts = [np.asarray(c.args[0].value) for c in cons[len(Ps):npsd]]
                return blocks, np.asarray(rdm.value).reshape(-1), complex(np.asarray(cons[-1].args[0].value).reshape(-1)[0]), pts, [c.shape[0] for c in coeff]
            rr = gskip(fr)
            if isinstance(rr, str):
                out.append((f'C05 irreprdm {dA} {dB} 1:0,0:0,0:0', rr, 'exact'))
                continue
            blocks, rdmv, trv, pts, xs = rr
            out.append((f'C05 irreprdm {dA} {dB} {blocks}', (rdmv, trv), 'qi2')); ctx.count('irrep-rdm')
            for P, pt, x in zip(Ps, pts, xs):
                if x >= 2:
                    out.append((f'C05 ptb {dA};{x} {ents(P)}', dump(pt), 'exact')); ctx.count('irrep-ppt')
    return out


def compare_irrep(ctx, items):
    items = drop_skipped(ctx, items)
    ops = [o for o, _, _ in items]
    model = common.run_model(ops)
    dev = 0.0
    for (op, a, kd), b in zip(items, model):
        ctx.count(op.split(' ')[1])
        ok = False
        if isinstance(a, str):
            ok = (a == b)
        elif b == 'bad-op':
            ok = False
        elif kd == 'qi':
            mv = parse_qi(b)
            d = float(np.abs(mv - a).max()) if mv.shape == a.shape else float('inf')
            dev = max(dev, d); ok = d <= 1e-12
        elif kd == 'qi2':
            m1, m2 = b.split('#')
            mv = parse_qi(m1); tv = parse_qi(m2)[0]
            d = max(float(np.abs(mv - a[0]).max()) if mv.shape == a[0].shape else float('inf'), abs(tv - a[1]))
            dev = max(dev, d); ok = d <= 1e-12 * max(1.0, float(np.abs(a[0]).max()))
        if ok:
            ctx.agree(op, op)
        else:
            ctx.disagree(op, b if len(b) < 300 else b[:300] + '…', a if isinstance(a, str) else repr(a)[:300])
    ctx.extra['irrep_tie_max_deviation'] = dev


def compare_measures(ctx):
    """the closed-form two-qubit measures C05's statement leans on ("finite and equal to zero on separable states"), sent from this harness
    too (the C05 driver delegates these ops to the C13 handler: same model constants, theorems in NumqiProofs/DecisionC13.lean which is in
    THEOREM_FILES): scalar closed forms at structured concurrences, negativity read-out, Wootters read-out, and the compositions"""
    import numqi
    from . import c13
    E = numqi.entangle
    rng = np.random.default_rng(ctx.np_seed + 8)
    items = c13.measure_ops(rng, ctx.quick(), 'C05')
    for c in c13.structured_concurrences(rng, 20 if ctx.quick() else 200):
        for name, f in (('eof', E.get_eof_2qubit), ('gme', E.get_gme_2qubit)):
            with c13.stub_concurrence(c) as stub_ok, np.errstate(all='ignore'):
                r = gskip(lambda: float(f(np.eye(4) / 4))) if stub_ok else SKIP
            items.append((f'C05 {name} {f2b(c)}', r))
    for ev in [[0, 0, 0, 0], [0, 0, 0, 1], [1e-18, 1e-17, 1e-17, 2e-17], [0.0625] * 4] + [sorted((rng.dirichlet(np.ones(4)) ** 2).tolist()) for _ in range(10)]:
        eff_w = c13.stub_effective('wread', lambda: E.get_concurrence_2qubit(np.eye(4) / 4), [0, 0, 0, 1], [0, 0, 0, 0.25])
        items.append(('C05 wread ' + ';'.join(str(f2b(x)) for x in ev), c13.read_with_spectrum(ev, lambda: E.get_concurrence_2qubit(np.eye(4) / 4)) if eff_w else SKIP))
    items = drop_skipped(ctx, items)
    model = common.run_model([o for o, _ in items])
    dev = 0.0
    for (op, a), b in zip(items, model):
        ctx.count('measure-' + op.split(' ')[1])
        ok, d = (False, 0.0) if b == 'bad-op' else c13.float_agree(a, b, abs_tol=1e-15 if op.split(' ')[1] == 'negread' else 0.0)
        dev = max(dev, d)
        if ok:
            ctx.agree(op, op)
        else:
            ctx.disagree(op, b, repr(a))
    ctx.extra['measure_tie_max_rel_deviation'] = dev


def correspondence(ctx):
    install_skip_reporting()
    T = extract_thresholds(not ctx.quick())
    ops = gen_ops(ctx)
    impl = []
    for op in ops:
        t = op.split(' ')
        # the malformed stream: the driver rejects, the implementation asserts / raises
        r = impl_op(op) if _wellformed(op) else 'bad-op'
        impl.append(r)
    rng2 = np.random.default_rng(ctx.np_seed + 5)
    sops, simpl = sx_ops(ctx, rng2)
    ops += sops; impl += simpl
    kept = drop_skipped(ctx, list(zip(ops, impl)))
    ops, impl = [k[0] for k in kept], [k[1] for k in kept]
    model = common.run_model([model_line(op, T) for op in ops])
    def nontrivial(op, out):
        t = op.split(' ')
        if t[1] in ('gpptlist', 'sxidx', 'sxcon', 'sxwit') or out == 'bad-op':
            return True
        e = t[-1].split(';')
        N = int(round(math.sqrt(len(e))))
        off = [x for i, x in enumerate(e) if i % (N + 1) != 0]
        return any(x not in ('0,0', '0/1') for x in off) or len(set(e[:: N + 1])) > 1
    common.compare(ctx, ops, impl, model, nontrivial=nontrivial)
    compare_irrep(ctx, irrep_ops(ctx, np.random.default_rng(ctx.np_seed + 6)))
    compare_measures(ctx)
    record_tie_minima(ctx, TIE_MINIMA['quick' if ctx.quick() else 'thorough'])
    ctx.extra['largest_tied_N'] = max(int(np.prod(d)) for d in (DIMS_QUICK if ctx.quick() else DIMS_THOROUGH))
    ctx.extra['tied_dims'] = [list(d) for d in (DIMS_QUICK if ctx.quick() else DIMS_THOROUGH)]
    ctx.extra['exhaustive'] = True
    ctx.extra['exhaustive_domain'] = ('every single-entry matrix (all index pairs) of the systems with N<=6 through is_ppt / is_generalized_ppt / '
                                      'check_reduction_witness; the complete _is_generalized_ppt_dim_list for 2..4 parties' + ('' if ctx.quick() else ' (2..5, N<=9 in thorough)'))


def _wellformed(op):
    t = op.split(' ')
    if t[1] == 'gpptlist':
        return t[2].isdigit()
    if t[1] in ('sxidx', 'sxcon', 'sxwit'):
        return True
    if t[1] not in ('ppt', 'red', 'gppt', 'swap', 'ptb', 'vppt', 'vred', 'vgppt', 'vswap', 'hguard'):
        return False
    if t[1] == 'hguard' and (len(t) != 5 or t[3] not in ('ppt', 'red', 'neg')):
        return False
    try:
        dim = [int(x) for x in t[2].split(';')]
    except ValueError:
        return False
    if len(dim) < 2 or any(d < 2 for d in dim):
        return False
    N = int(np.prod(dim))
    if len(t[-1].split(';')) != N * N:
        return False
    if t[1] in ('swap', 'vswap') and (len(dim) != 2 or dim[0] != dim[1]):
        return False
    if t[1] == 'ptb' and len(dim) != 2:
        return False
    return True


# ---------------------------------------------------------------------------------------------------------------
# probe: direct evaluation of the property on the real code (independent of the Lean model)
# ---------------------------------------------------------------------------------------------------------------
PROBE_DIMS = [(2, 2), (2, 3), (3, 2), (3, 3), (2, 4), (2, 2, 2), (2, 3, 2)]
PROBE_DIMS_LARGE = [(4, 4), (5, 5)]          # quick and thorough: second / third size of the square class (the only class of the swap witness)
PROBE_DIMS_LARGE_THOROUGH = [(6, 6), (3, 3, 3), (2, 2, 2, 2)]
TOL_MEASURE = 1e-7          # closed-form measures of a separable state (exactly 0) must be finite and below this
TOL_CONCURRENCE = 5e-7      # concurrence is a difference of square roots of eigenvalues known to ~1e-16: error ~1e-8


def unit(v):
    return v / np.linalg.norm(v)


def rand_vec(rng, d, kind):
    if kind == 'basis':
        v = np.zeros(d, dtype=np.complex128); v[rng.integers(0, d)] = 1
        return v
    if kind == 'real':
        return unit(rng.normal(size=d)).astype(np.complex128)
    return unit(rng.normal(size=d) + 1j * rng.normal(size=d))


def product_state(vecs):
    v = vecs[0]
    for w in vecs[1:]:
        v = np.kron(v, w)
    return v


def make_separable(rng, dim, nterm, kind):
    """returns rho and a JSON-able description sufficient to rebuild it"""
    n = len(dim)
    if kind == 'repeated':
        base = [[rand_vec(rng, d, 'complex') for d in dim] for _ in range(max(1, nterm // 2))]
        vec = [base[i % len(base)] for i in range(nterm)]
    elif kind == 'parallel':
        v0 = [rand_vec(rng, d, 'complex') for d in dim]
        eps = 10.0 ** rng.integers(-9, -2)
        vec = [[unit(v + eps * (rng.normal(size=len(v)) + 1j * rng.normal(size=len(v)))) for v in v0] for _ in range(nterm)]
    else:
        vec = [[rand_vec(rng, d, kind) for d in dim] for _ in range(nterm)]
    p = rng.dirichlet(np.ones(nterm)) if nterm > 1 else np.ones(1)
    if kind == 'basis' and rng.random() < 0.5:
        p = np.ones(nterm) / nterm
    rho = np.zeros((int(np.prod(dim)),) * 2, dtype=np.complex128)
    for pi, vs in zip(p, vec):
        psi = product_state(vs)
        rho = rho + pi * np.outer(psi, psi.conj())
    desc = dict(dim=list(dim), kind=kind, p=[float(x) for x in p],
                vectors=[[[[float(z.real), float(z.imag)] for z in v] for v in vs] for vs in vec])
    return rho, desc


def rebuild(desc):
    dim = tuple(desc['dim'])
    if 'rho' in desc:
        rho = np.array([[complex(*z) for z in row] for row in desc['rho']])
    else:
        rho = np.zeros((int(np.prod(dim)),) * 2, dtype=np.complex128)
        for pi, vs in zip(desc['p'], desc['vectors']):
            psi = product_state([np.array([complex(*z) for z in v]) for v in vs])
            rho = rho + pi * np.outer(psi, psi.conj())
    if desc.get('dtype') and desc['dtype'] != 'complex128':
        rho = cast_like(rho, desc['dtype'])
    if desc.get('layout') == 'strided':
        big = np.zeros((rho.shape[0], 2 * rho.shape[1]), dtype=rho.dtype); big[:, ::2] = rho; rho = big[:, ::2]
    return rho, dim


def rho_desc(rho, dim, kind):
    return dict(dim=list(dim), kind=kind, dtype=str(np.asarray(rho).dtype),
                rho=[[[float(z.real), float(z.imag)] for z in row] for row in np.asarray(rho, dtype=np.complex128)])


def cast_like(rho, dtype):
    """the same matrix stored with another dtype (real dtypes take the real part: only used for real-valued states)"""
    dt = np.dtype(dtype)
    if dt.kind in 'fiu':
        r = np.asarray(rho).real
        return np.rint(r).astype(dt) if dt.kind in 'iu' else r.astype(dt)
    return np.asarray(rho).astype(dt)


def family_states():
    """analytically separable members of the named families (incl. the boundary of the separable range)"""
    import numqi
    out = []
    for d in (2, 3):
        for a in (-1.0, -0.5, 0.0, 0.5 / d, 1.0 / d):
            out.append((numqi.state.Werner(d, a), (d, d), f'Werner(d={d},alpha={a})'))
        for a in (-1.0 / (d * d - 1), 0.0, 0.5 / (d + 1), 1.0 / (d + 1)):
            out.append((numqi.state.Isotropic(d, a), (d, d), f'Isotropic(d={d},alpha={a})'))
        out.append((np.eye(d * d) / (d * d), (d, d), f'maximally-mixed({d},{d})'))
    for b in (0.0, 1.0):
        out.append((numqi.state.get_bes2x4_Horodecki1997(b), (2, 4), f'Horodecki2x4(b={b})'))
    out.append((numqi.state.get_bes3x3_Horodecki1997(0.0), (3, 3), 'Horodecki3x3(a=0)'))
    out.append((np.eye(8) / 8, (2, 2, 2), 'maximally-mixed(2,2,2)'))
    return out


def bell_diag_grid(rng, quick):
    """Bell-diagonal weights: the full grid k/8 (165 compositions, incl. the boundary p_max = 1/2 exactly), points next to the
    boundary, and random ones"""
    out = []
    for c in itertools.product(range(9), repeat=4):
        if sum(c) == 8:
            out.append(np.array(c) / 8)
    for d in (1e-12, 1e-9, 1e-6, 1e-4):
        for sgn in (1, -1):
            t = 0.5 + sgn * d
            out.append(np.array([t, (1 - t) / 2, (1 - t) / 2, 0.0]))
            out.append(np.array([0.0, (1 - t), 0.0, t]))
    for _ in range(40 if quick else 400):
        out.append(rng.dirichlet(np.ones(4) * rng.choice([0.3, 1.0, 3.0])))
    return out


def bell_diag_rho(p):
    import numqi
    return sum(pi * np.outer(numqi.state.Bell(i), numqi.state.Bell(i).conj()) for i, pi in enumerate(p)).astype(np.complex128)


def check_bell_diag(ctx, p):
    """on the Bell-diagonal family separable <=> p_max <= 1/2 (theorems bellDiag_ppt_iff, woottersReadout_bellDiag): every criterion
    must accept for p_max <= 1/2 (incl. the boundary) and the PPT-equivalent ones must reject beyond a band around it"""
    import numqi
    rho = bell_diag_rho(p)
    pm = float(max(p))
    rp = dict(rho_desc(rho, (2, 2), 'bell-diagonal'), weights=[float(x) for x in p])
    E = PureCalls(ctx, numqi.entangle, rp)
    ok = True
    res = dict(is_ppt=guarded(lambda: vbool(E.is_ppt(rho, (2, 2)))), is_generalized_ppt=guarded(lambda: vbool(E.is_generalized_ppt(rho, (2, 2)))),
               check_reduction_witness=guarded(lambda: vbool(E.check_reduction_witness(rho, (2, 2)))), check_swap_witness=guarded(lambda: vbool(E.check_swap_witness(rho))))
    if pm <= 0.5:
        for name, r in res.items():
            if r is not True:
                ctx.fail(f'{name}:separable-rejected', f'{name} returned {r} for the separable Bell-diagonal state p={list(p)} (p_max={pm})', rp); ok = False
    elif pm > 0.5 + 1e-6:
        # PPT, generalized PPT (the partial transpose is one of its realignments) and the reduction criterion are complete for two qubits
        for name in ('is_ppt', 'is_generalized_ppt', 'check_reduction_witness'):
            if res[name] is not False:
                ctx.fail(f'{name}:bell-diagonal-entangled-accepted', f'{name} returned {res[name]} for the Bell-diagonal state p={list(p)} with p_max={pm} > 1/2 '
                         f'(partial transpose has the eigenvalue {0.5 - pm})', rp); ok = False
    n = guarded(lambda: float(E.get_negativity(rho, (2, 2))))
    if isinstance(n, str) or not np.isfinite(n) or abs(n - max(0.0, pm - 0.5)) > 1e-9:
        ctx.fail('get_negativity:bell-diagonal', f'negativity {n} != max(0, p_max - 1/2) = {max(0.0, pm - 0.5)} for p={list(p)}', rp); ok = False
    if ok:
        ctx.probe_ok(('bell-diagonal', tuple(float(x) for x in p)))
    return ok


def oracle_pt(rho, dim, i):
    """partial transpose on party i from the definition (explicit loop over multi-indices; independent of the reshape in is_ppt)"""
    N = int(np.prod(dim))
    idx = list(itertools.product(*[range(d) for d in dim]))
    pos = {x: k for k, x in enumerate(idx)}
    out = np.zeros((N, N), dtype=rho.dtype)
    for x in idx:
        for y in idx:
            x2 = list(x); y2 = list(y)
            x2[i], y2[i] = y[i], x[i]
            out[pos[tuple(x2)], pos[tuple(y2)]] = rho[pos[x], pos[y]]
    return out


def oracle_reduction(rho, dim, i):
    N = int(np.prod(dim))
    idx = list(itertools.product(*[range(d) for d in dim]))
    pos = {x: k for k, x in enumerate(idx)}
    out = -np.array(rho, dtype=np.complex128)
    for x in idx:
        for y in idx:
            if all(x[j] == y[j] for j in range(len(dim)) if j != i):
                # (1 ⊗ rho_i ⊗ 1)[x,y] = rho_i[x_i,y_i] = sum over the other parties z of rho[(z,x_i),(z,y_i)]
                s = 0
                for z in idx:
                    if z[i] == x[i]:
                        z2 = list(z); z2[i] = y[i]
                        s += rho[pos[z], pos[tuple(z2)]]
                out[pos[x], pos[y]] += s
    return out


def oracle_gppt(rho, dim, d0, d1):
    n = len(dim)
    shape = list(dim) + list(dim)
    idx = list(itertools.product(*[range(d) for d in dim]))
    pos = {x: k for k, x in enumerate(idx)}
    def enc(axes, z):
        k = 0
        for a in axes:
            k = k * shape[a] + z[a]
        return k
    rows = int(np.prod([shape[a] for a in d0])) if len(d0) else 1
    cols = int(np.prod([shape[a] for a in d1])) if len(d1) else 1
    out = np.zeros((rows, cols), dtype=rho.dtype)
    for x in idx:
        for y in idx:
            z = list(x) + list(y)
            out[enc(d0, z), enc(d1, z)] = rho[pos[x], pos[y]]
    return out


def check_index_layer(ctx, rho, dim, tag, replay):
    """the matrices really tested by the criteria are the mathematical operations (exact: they are permutations / sums of entries)"""
    import numqi
    E = numqi.entangle
    ok = True
    got = psd_tested_matrices(lambda: E.is_ppt(rho, dim))
    for i in range(len(dim)):
        if i >= len(got) or not np.array_equal(got[i], oracle_pt(rho, dim, i)):
            ctx.fail('is_ppt:index', f'is_ppt tests a matrix that is not the partial transpose on party {i} for dim={dim} ({tag})', dict(replay, party=i)); ok = False
            break
    got = psd_tested_matrices(lambda: E.check_reduction_witness(rho, dim))
    for i in range(len(dim)):
        if i >= len(got) or np.abs(got[i] - oracle_reduction(rho, dim, i)).max() > 1e-12:
            ctx.fail('check_reduction_witness:index', f'check_reduction_witness tests a matrix that is not 1⊗rho_{i}⊗1-rho for dim={dim} ({tag})', dict(replay, party=i)); ok = False
            break
    with capture() as rec:
        info = vinfo(E.is_generalized_ppt(rho, dim, return_info=True))[1]        # validated: (bool, [(dim0, dim1, norm), …])
    need(rec['norm'], 'np.linalg.norm(ord="nuc")')
    dl = [(d0, d1) for d0, d1, _ in info]     # public return value
    if len(rec['norm']) != len(dl):
        ctx.fail('is_generalized_ppt:index', f'is_generalized_ppt evaluated {len(rec["norm"])} bipartitions, expected {len(dl)}', replay); ok = False
    else:
        for (d0, d1), m in zip(dl, rec['norm']):
            if not np.array_equal(m, oracle_gppt(rho, dim, d0, d1)):
                ctx.fail('is_generalized_ppt:index', f'is_generalized_ppt takes the nuclear norm of a matrix that is not the ({d0},{d1}) realignment for dim={dim} ({tag})', dict(replay, d0=list(d0), d1=list(d1))); ok = False
                break
    # the bipartition list covers every split exactly once (up to exchanging the two groups)
    n = len(dim)
    want = set()
    for k in range(0, n + 1):
        for s in itertools.combinations(range(2 * n), k):
            c = tuple(sorted(set(range(2 * n)) - set(s)))
            want.add(min((len(s), s), (len(c), c))[1] if len(s) != len(c) else min(s, c))
    have = [tuple(d0) for d0, _ in dl]
    if set(have) != want or len(have) != len(want) or any(tuple(sorted(set(range(2 * n)) - set(d0))) != tuple(d1) for d0, d1 in dl):
        ctx.fail('is_generalized_ppt:bipartitions', f'the bipartitions evaluated by is_generalized_ppt for {n} parties are not the set of all splits of the {2 * n} axes', dict(n=n)); ok = False
    if len(dim) == 2 and dim[0] == dim[1]:
        d = dim[0]
        v = float(sum(rho[a * d + b, b * d + a] for a in range(d) for b in range(d)).real)
        h = 1e-9 * max(1.0, abs(v))
        if not (vbool(E.check_swap_witness(rho, eps=v - h)) and not vbool(E.check_swap_witness(rho, eps=v + h))):
            ctx.fail('check_swap_witness:index', f'check_swap_witness does not threshold Re sum_ab rho[(a,b),(b,a)] = {v} ({tag})', dict(replay, value=v)); ok = False
    if len(dim) == 2:
        with capture() as rec:
            E.get_negativity(rho, dim)
        if not np.array_equal(first_eig(rec, 'an eigenvalue routine (get_negativity)'), oracle_pt(rho, dim, 1)):
            ctx.fail('get_negativity:index', f'get_negativity diagonalises a matrix that is not the partial transpose ({tag})', replay); ok = False
    if ok:
        ctx.probe_ok(('index', tag))
    return ok


def check_state(ctx, rho, dim, tag, replay, meas):
    """every criterion on one separable state; `meas` collects the measured rounding errors"""
    import numqi
    if isinstance(replay, dict) and 'dtype' not in replay:
        replay = dict(replay, dtype=str(rho.dtype))
    E = PureCalls(ctx, numqi.entangle, replay)
    good = True
    def bad(key, what):
        nonlocal good
        good = False
        ctx.fail(key, what + f' [{tag}]', replay)
    r = guarded(lambda: vbool(E.is_ppt(rho, dim)))
    if r is not True:
        bad('is_ppt:separable-rejected', f'is_ppt returned {r} for a separable state, dim={dim}')
    r = guarded(lambda: vbool(E.is_generalized_ppt(rho, dim)))
    with capture() as rec_g:      # (norm / svd are recorded and passed through: values unchanged)
        ri = guarded(lambda: vinfo(E.is_generalized_ppt(rho, dim, return_info=True)))
    if r is not True or isinstance(ri, str) or ri[0] is not True:
        info = max((x[2] for x in ri[1]), default=None) if not isinstance(ri, str) else ri
        bad('is_generalized_ppt:separable-rejected', f'is_generalized_ppt returned {r} (return_info=True: {ri[0] if not isinstance(ri, str) else ri}) for a separable state '
            f'(largest nuclear norm {info}), dim={dim}')
    r = guarded(lambda: vbool(E.check_reduction_witness(rho, dim)))
    if r is not True:
        bad('check_reduction_witness:separable-rejected', f'check_reduction_witness returned {r} for a separable state, dim={dim}')
    if len(dim) == 2 and dim[0] == dim[1]:
        r = guarded(lambda: vbool(E.check_swap_witness(rho)))
        if r is not True:
            bad('check_swap_witness:separable-rejected', f'check_swap_witness returned {r} for a separable state, dim={dim}')
        d = dim[0]
        sv = sum(rho[a * d + b, b * d + a] for a in range(d) for b in range(d)).real
        meas['swap'] = max(meas.get('swap', 0.0), max(0.0, -sv))
    if len(dim) == 2:
        r = guarded(lambda: float(E.get_negativity(rho, dim)))
        if isinstance(r, str) or not np.isfinite(r) or abs(r) > TOL_MEASURE:
            bad('get_negativity:separable-nonzero', f'get_negativity returned {r} for a separable state, dim={dim}')
        else:
            meas['negativity'] = max(meas.get('negativity', 0.0), abs(r))
    if tuple(dim) == (2, 2):
        for name, f, tol in [('get_concurrence_2qubit', E.get_concurrence_2qubit, TOL_CONCURRENCE), ('get_eof_2qubit', E.get_eof_2qubit, TOL_MEASURE),
                             ('get_gme_2qubit', E.get_gme_2qubit, TOL_MEASURE)]:
            with np.errstate(all='ignore'):
                r = guarded(lambda: float(f(rho)))
            if isinstance(r, str) or not np.isfinite(r) or abs(r) > tol:
                bad(f'{name}:separable-nonzero', f'{name} returned {r} for a separable two-qubit state')
            else:
                meas[name] = max(meas.get(name, 0.0), abs(r))
    # measured rounding: smallest eigenvalue of every partial transpose / reduction matrix, largest nuclear norm
    for i in range(len(dim)):
        lm = np.linalg.eigvalsh(oracle_pt(rho, dim, i) if rho.shape[0] <= 12 else rho)[0]
        meas['ppt'] = max(meas.get('ppt', 0.0), max(0.0, -lm))
    for m in rec_g['norm']:
        meas['gppt'] = max(meas.get('gppt', 0.0), max(0.0, np.linalg.svd(m, compute_uv=False).sum() - 1))
    if good:
        ctx.probe_ok(('state', tag))
    return good


def check_state_soft(ctx, rho, dim, tag, replay):
    """low-precision storage (float32 / complex64): accepted by the clean tree.  The 1e-7 / 1e-10 tolerances are below float32 resolution,
    so verdicts are not asserted; every call must return without exception, leave its argument untouched and be repeatable, and the
    closed-form measures must be finite"""
    import numqi
    rp = dict(replay, dtype=str(rho.dtype))
    E = PureCalls(ctx, numqi.entangle, rp)
    calls = [('is_ppt', lambda: E.is_ppt(rho, dim)), ('is_generalized_ppt', lambda: E.is_generalized_ppt(rho, dim)),
             ('check_reduction_witness', lambda: E.check_reduction_witness(rho, dim))]
    if len(dim) == 2:
        calls.append(('get_negativity', lambda: E.get_negativity(rho, dim)))
        if dim[0] == dim[1]:
            calls.append(('check_swap_witness', lambda: E.check_swap_witness(rho)))
    if tuple(dim) == (2, 2):
        calls += [('get_concurrence_2qubit', lambda: E.get_concurrence_2qubit(rho)), ('get_eof_2qubit', lambda: E.get_eof_2qubit(rho)),
                  ('get_gme_2qubit', lambda: E.get_gme_2qubit(rho))]
    for name, f in calls:
        with np.errstate(all='ignore'):
            r = guarded(f)
        if isinstance(r, str):
            ctx.fail(f'{name}:{rho.dtype}', f'{name} raised {r} for a {rho.dtype} density matrix that the complex128 path accepts [{tag}]', rp)
        elif name.startswith('get_') and not np.isfinite(float(r)):
            ctx.fail(f'{name}:{rho.dtype}', f'{name} returned {r} for a {rho.dtype} separable state [{tag}]', rp)
        else:
            ctx.probe_ok()


def dtype_variants(ctx, rho, dim, tag, desc, meas):
    """the same separable state stored with other dtypes / memory layouts (only where the data are real-valued resp. integral)"""
    if np.abs(rho.imag).max() == 0:
        r64 = rho.real.copy()
        safely(ctx, 'criteria:raises', dict(desc, dtype='float64'), lambda: check_state(ctx, r64, dim, tag + '/float64', dict(desc, dtype='float64'), meas))
        if np.array_equal(r64, np.rint(r64)):
            ri = np.rint(r64).astype(np.int64)
            safely(ctx, 'criteria:raises', dict(desc, dtype='int64'), lambda: check_state(ctx, ri, dim, tag + '/int64', dict(desc, dtype='int64'), meas))
        for dt in (np.float32, np.complex64):
            safely(ctx, 'criteria:raises', dict(desc, dtype=np.dtype(dt).name), lambda: check_state_soft(ctx, rho.astype(dt) if np.dtype(dt).kind == 'c' else r64.astype(dt), dim, tag, desc))
    big = np.zeros((rho.shape[0], 2 * rho.shape[1]), dtype=rho.dtype); big[:, ::2] = rho
    view = big[:, ::2]
    safely(ctx, 'criteria:raises', dict(desc, layout='strided'), lambda: check_state(ctx, view, dim, tag + '/strided', dict(desc, layout='strided'), meas))


def replay_corpus(ctx, meas):
    """original witnesses of the repaired defects of this property (corpus/C05/*.json), replayed first in both tiers"""
    import glob, json
    for f in sorted(glob.glob(os.path.join(common.VERIF, 'corpus', 'C05', '*.json'))):
        for case in json.load(open(f))['cases']:
            ctx.count('corpus')
            def one(case=case):
                rho, dim = rebuild(case)
                check_state(ctx, rho, dim, 'corpus/' + os.path.basename(f), case, meas)
            safely(ctx, 'criteria:raises', case, one)


def probe(ctx):
    import numqi
    rng = np.random.default_rng(ctx.np_seed + 17)
    meas = {}
    replay_corpus(ctx, meas)
    buffer_reuse_block(ctx)
    kinds = ['complex', 'real', 'basis', 'repeated', 'parallel']
    nrep = 6 if ctx.quick() else 12
    count = 0
    large = PROBE_DIMS_LARGE + ([] if ctx.quick() else PROBE_DIMS_LARGE_THOROUGH)
    ctx.extra['largest_probed_N'] = max(int(np.prod(d)) for d in PROBE_DIMS + large)
    for dim in PROBE_DIMS + large:
        N = int(np.prod(dim))
        terms = sorted(set([1, 2, 3, N // 2, N, N + 1, 2 * N]) - {0})
        if dim in large:
            terms = sorted(set([1, 2, N // 2, N + 1]))        # the large systems: fewer ensemble sizes and repetitions (cost ~ N^3 per criterion)
        for kind in kinds:
            for nterm in terms:
                for _ in range((nrep if dim not in large else 2) if nterm > 1 else 1):
                    rho, desc = make_separable(rng, dim, nterm, kind)
                    tag = f'{kind}/{"x".join(map(str, dim))}/terms={nterm}'
                    ctx.count('probe-' + kind)
                    ctx.count('probe-dim-' + 'x'.join(map(str, dim)))
                    safely(ctx, 'criteria:raises', desc, lambda: check_state(ctx, rho, dim, tag, desc, meas))
                    count += 1
                    if kind in ('real', 'basis') and (count % 3 == 0 or nterm == 1):
                        ctx.count('probe-dtype-variants')
                        dtype_variants(ctx, rho, dim, tag, desc, meas)
                    if kind == 'complex' and count % 4 == 0:
                        # within 1e-6 .. 1e-12 of the maximally mixed state (still separable)
                        t = 10.0 ** rng.integers(-12, -5)
                        rm = (1 - t) * np.eye(N) / N + t * rho
                        ctx.count('probe-near-mixed')
                        safely(ctx, 'criteria:raises', rho_desc(rm, dim, 'near-mixed'), lambda: check_state(ctx, rm, dim, tag + '/near-mixed', rho_desc(rm, dim, 'near-mixed'), meas))
        # index layer on a generic Hermitian matrix (not a state: every entry distinct)
        H = rng.normal(size=(N, N)) + 1j * rng.normal(size=(N, N)); H = H + H.conj().T
        safely(ctx, 'index-layer:raises', rho_desc(H, dim, 'random-hermitian'), lambda: check_index_layer(ctx, H, dim, 'x'.join(map(str, dim)), rho_desc(H, dim, 'random-hermitian')))
    # pure products with tiny concurrence-type rounding: many two-qubit product mixtures (the NaN of D6 needs c in (0,1e-8))
    for k in range(1500 if ctx.quick() else 6000):
        rho, desc = make_separable(rng, (2, 2), int(rng.integers(1, 9)), 'complex' if k % 3 else 'real')
        ctx.count('probe-2qubit-extra')
        safely(ctx, 'criteria:raises', desc, lambda: check_state(ctx, rho, (2, 2), f'2qubit-extra/{k}', desc, meas))
    # orthogonal computational-basis products |a b><a b|, a != b, and their mixtures: swap value EXACTLY 0 (the boundary of the exact bound),
    # every partial transpose / reduction matrix has the eigenvalue 0, every realignment nuclear norm exactly 1 - for every square size
    for d in (2, 3, 4, 5) + (() if ctx.quick() else (6, 7)):
        for (a_, b_) in sorted({(0, 1), (1, 0), (0, d - 1), (d - 1, d - 2)}):
            rho = np.zeros((d * d, d * d), dtype=np.complex128); rho[a_ * d + b_, a_ * d + b_] = 1
            nm = f'|{a_}{b_}><{a_}{b_}|/{d}x{d}'
            ctx.count('probe-orthogonal-product')
            safely(ctx, 'criteria:raises', rho_desc(rho, (d, d), nm), lambda: check_state(ctx, rho, (d, d), nm, rho_desc(rho, (d, d), nm), meas))
        rho = np.zeros((d * d, d * d), dtype=np.complex128)
        for a_ in range(d):
            rho[a_ * d + (a_ + 1) % d, a_ * d + (a_ + 1) % d] = 1.0 / d
        nm = f'mixture-of-|a,a+1>/{d}x{d}'
        ctx.count('probe-orthogonal-product')
        safely(ctx, 'criteria:raises', rho_desc(rho, (d, d), nm), lambda: check_state(ctx, rho, (d, d), nm, rho_desc(rho, (d, d), nm), meas))
    pl = np.array([1.0, 1.0]) / np.sqrt(2); mi = np.array([1.0, -1.0]) / np.sqrt(2); z0 = np.array([1.0, 0.0])
    for name, vs in [('|++>', [pl, pl]), ('|+->', [pl, mi]), ('|+0>', [pl, z0]), ('|0+>', [z0, pl]), ('|+++>', [pl, pl, pl]), ('|+0->', [pl, z0, mi])]:
        v = product_state(vs); rr = np.outer(v, v)                # float64, real, not an X-state
        dimv = (2,) * len(vs)
        ctx.count('probe-real-product')
        safely(ctx, 'criteria:raises', rho_desc(rr, dimv, name), lambda: check_state(ctx, rr, dimv, name + '/float64', rho_desc(rr, dimv, name), meas))
        dtype_variants(ctx, rr.astype(np.complex128), dimv, name, rho_desc(rr.astype(np.complex128), dimv, name), meas)
    for rho, dim, name in (safely(ctx, 'state-families:raises', dict(op='numqi.state.Werner/Isotropic/get_bes*'), family_states) or []):
        ctx.count('probe-family')
        safely(ctx, 'criteria:raises', rho_desc(rho, dim, name), lambda: check_state(ctx, np.asarray(rho, dtype=np.complex128), dim, name, rho_desc(rho, dim, name), meas))
    for pw in bell_diag_grid(rng, ctx.quick()):
        ctx.count('probe-bell-diagonal')
        safely(ctx, 'criteria:raises', dict(weights=[float(x) for x in pw], dim=[2, 2]), lambda: check_bell_diag(ctx, pw))
    # input guards: is_ppt / check_reduction_witness / get_negativity reject a matrix that is not Hermitian (every kind of deviation, size 1 and 1e-9)
    for dim in [(2, 2), (2, 3), (4, 4), (2, 2, 2)]:
        N = int(np.prod(dim))
        rho0, dsc = make_separable(rng, dim, 3, 'complex')
        for name, f in (('is_ppt', numqi.entangle.is_ppt), ('check_reduction_witness', numqi.entangle.check_reduction_witness)) + \
                ((('get_negativity', numqi.entangle.get_negativity),) if len(dim) == 2 else ()):
            for kindP, P in non_hermitian_variants(N):
                for mag in (1.0, 1e-9):
                    M = rho0 + mag * P
                    ctx.count('probe-non-hermitian')
                    r = gskip(lambda: f(M, dim))
                    if isinstance(r, str) and r == SKIP:
                        continue
                    if not (isinstance(r, str) and r.startswith('error')):
                        ctx.fail(f'{name}:non-hermitian-accepted', f'{name} accepted (returned {str(r)[:40]}) a matrix that is not Hermitian: a separable state plus a {kindP} '
                                 f'deviation of size {mag} (max|rho - rho^H| = {float(np.abs(M - M.conj().T).max()):.3g} > 1e-10), dim={dim}',
                                 dict(rho_desc(M, dim, 'non-hermitian'), deviation=kindP, magnitude=mag))
                    else:
                        ctx.probe_ok((name, 'non-hermitian', dim, kindP, mag))
    # the documented closed boundary of is_generalized_ppt (`norm<=1+threshold` passes): computational-basis product states have
    # nuclear norm exactly 1 in every realignment (a single entry 1), so they must pass even with threshold=0
    for dim in PROBE_DIMS + large:
        N = int(np.prod(dim))
        for k in sorted(set([0, N - 1, int(rng.integers(0, N))])):
            rho = np.zeros((N, N), dtype=np.complex128); rho[k, k] = 1
            r = gskip(lambda: vbool(numqi.entangle.is_generalized_ppt(rho, dim, threshold=0)))
            ctx.count('probe-gppt-boundary')
            if r == SKIP:
                continue
            if r is not True:
                ctx.fail('is_generalized_ppt:boundary-rejected', f'is_generalized_ppt(threshold=0) returned {r} for the basis product state |{k}><{k}| (all nuclear norms exactly 1), dim={dim}',
                         dict(rho_desc(rho, dim, 'basis-product'), threshold=0))
            else:
                ctx.probe_ok(('gppt-boundary', dim, k))
    # formulation of the naive extension SDP, directly on the real code (no solving): exact extension satisfies every captured
    # constraint, a non-symmetric matrix violates a permutation constraint, for both index kinds
    for (dA, dB), kext in ([((2, 2), 2), ((2, 2), 3), ((2, 3), 2), ((3, 2), 3)] if ctx.quick() else
                           [((2, 2), 2), ((2, 2), 3), ((2, 2), 4), ((2, 3), 2), ((2, 3), 3), ((3, 2), 2), ((3, 2), 3), ((3, 3), 2), ((3, 3), 3)]):
        ctx.count('probe-symext-formulation')
        safely(ctx, 'symext-formulation:raises', dict(dimA=dA, dimB=dB, kext=kext), lambda: check_sx_formulation(ctx, dA, dB, kext, dict()))
    # naive SDP vs irrep-block SDP (numerically derived bases: a contract): the two verdicts must agree
    naive_plan = [((2, 2), 2)] if ctx.quick() else [((2, 2), 2), ((2, 2), 3), ((2, 3), 2), ((3, 2), 2)]
    for dim, kext in naive_plan:
        states = []
        for kind in (['complex', 'basis'] if ctx.quick() else ['complex', 'basis', 'repeated', 'real', 'parallel']):
            rho, dsc = make_separable(rng, dim, int(rng.integers(1, 5)), kind)
            states.append((rho, dsc, f'separable/{kind}', True))
        if dim[0] == dim[1]:
            d = dim[0]
            for a in ([1.0] if ctx.quick() else [-1.0, 0.0, 1.0 / d, 0.9, 1.0]):
                states.append((numqi.state.Werner(d, a).astype(np.complex128), rho_desc(numqi.state.Werner(d, a), dim, f'Werner({d},{a})'), f'Werner({d},{a})', None))
            for a in ([] if ctx.quick() else [0.0, 1.0 / (d + 1), 0.8, 1.0]):
                states.append((numqi.state.Isotropic(d, a).astype(np.complex128), rho_desc(numqi.state.Isotropic(d, a), dim, f'Isotropic({d},{a})'), f'Isotropic({d},{a})', None))
        for rho, dsc, tag, expect in states:
            ctx.count('probe-symext-naive-vs-irrep')
            r1 = gskip(lambda: vbool(numqi.entangle.symext.is_ABk_symmetric_ext_naive(rho, dim, kext)[0]))
            r2 = gskip(lambda: vbool(numqi.entangle.is_ABk_symmetric_ext(rho, dim, kext)))
            if SKIP in (r1, r2):
                continue
            rp = dict(dsc, kext=kext, use_boson=False, use_ppt=False, naive=str(r1), irrep=str(r2))
            if expect is True and r1 is not True:
                ctx.fail('is_ABk_symmetric_ext_naive:separable-rejected', f'is_ABk_symmetric_ext_naive(kext={kext}) returned {r1} for a separable state, dim={dim} [{tag}]', rp)
            elif r1 != r2:
                ctx.fail('is_ABk_symmetric_ext:naive-vs-irrep', f'naive SDP says {r1}, irrep-block SDP says {r2} (kext={kext}, dim={dim}) [{tag}]', rp)
            else:
                ctx.probe_ok(('naive-vs-irrep', dim, kext, tag))
    # the forms of `dim` that hf_tuple_of_int accepts (tuple / list / ndarray / numpy integers), hermitian_eps of is_positive_semi_definite
    for dim in ((2, 2), (2, 3), (2, 2, 2)):
        rho, dsc = make_separable(rng, dim, 3, 'complex')
        for label, dv in (('list', list(dim)), ('ndarray', np.array(dim)), ('np.int64', tuple(np.int64(x) for x in dim)), ('int32 array', np.array(dim, dtype=np.int32))):
            ctx.count('probe-dim-forms')
            for name in ('is_ppt', 'check_reduction_witness', 'is_generalized_ppt'):
                r = gskip(lambda: vbool(getattr(numqi.entangle, name)(rho, dv)))
                if r == SKIP:
                    continue
                if r is not True:
                    ctx.fail(f'{name}:dim-form', f'{name} returned {r} for a separable state when dim is given as {label} {dv!r} (tuple form accepted)', dict(dsc, dim_form=label))
                else:
                    ctx.probe_ok((name, label, dim))
        for he in (1e-8, 1e-12):
            r = gskip(lambda: vbool(numqi.utils.is_positive_semi_definite(rho, shift=1e-7, hermitian_eps=he)))
            if r == SKIP:
                continue
            if r is not True:
                ctx.fail('is_positive_semi_definite:hermitian_eps', f'is_positive_semi_definite(separable rho, shift=1e-7, hermitian_eps={he}) returned {r}', dict(dsc, hermitian_eps=he))
            else:
                ctx.probe_ok(('psd-hermitian-eps', dim, he))
    # batched input / return_info of is_ABk_symmetric_ext: list and 3-d array of states = item by item
    def batched():
        d2 = (2, 2)
        sts = [make_separable(rng, d2, 2, 'complex')[0], make_separable(rng, d2, 4, 'real')[0], np.asarray(numqi.state.Werner(2, 1.0), dtype=np.complex128)]
        single = [vbool(numqi.entangle.is_ABk_symmetric_ext(x, d2, 2)) for x in sts]
        arr = numqi.entangle.is_ABk_symmetric_ext(np.stack(sts), d2, 2)
        lst = numqi.entangle.is_ABk_symmetric_ext(list(sts), d2, 2)
        info = numqi.entangle.is_ABk_symmetric_ext(sts[0], d2, 2, return_info=True)
        rp = dict(dim=[2, 2], kext=2, states=[rho_desc(x, d2, 'batched')['rho'] for x in sts])
        if single[:2] != [True, True] or single[2] is not False:
            ctx.fail('is_ABk_symmetric_ext:batched', f'item-by-item verdicts {single} for (separable, separable, Werner(2,1))', rp)
        elif [bool(x) for x in np.asarray(arr).reshape(-1)] != single or [bool(x) for x in np.asarray(lst).reshape(-1)] != single:
            ctx.fail('is_ABk_symmetric_ext:batched', f'batched verdicts {list(np.asarray(arr))} / {list(np.asarray(lst))} differ from the item-by-item verdicts {single}', rp)
        elif not (isinstance(info, tuple) and bool(info[0]) is True and info[1] is not None):
            ctx.fail('is_ABk_symmetric_ext:return_info', f'return_info=True returned {str(info)[:100]} for a separable state', rp)
        else:
            ctx.probe_ok(('symext-batched',))
    ctx.count('probe-symext-batched')
    safely(ctx, 'is_ABk_symmetric_ext:batched:raises', dict(dim=[2, 2], kext=2), batched)
    # histories on the SDP-backed path (shared set-up helper / caches): numerical range, boundary and other option tuples in between
    opt = lambda k, b, p_: (k, b, p_)
    hist_plan = [((2, 2), 2, False, False, [('numerical_range', opt(2, False, False)), ('boundary', opt(2, False, False)), ('numerical_range', opt(2, True, False))])]
    if not ctx.quick():
        hist_plan += [((2, 2), 2, True, False, [('numerical_range', opt(2, True, False)), ('is_ext', opt(2, False, False)), ('numerical_range', opt(2, True, False)), ('boundary', opt(2, True, False))]),
                      ((2, 2), 3, False, False, [('boundary', opt(3, False, False)), ('numerical_range', opt(3, False, False)), ('numerical_range', opt(2, False, False))]),
                      ((2, 2), 2, False, True, [('numerical_range', opt(2, False, True)), ('boundary', opt(2, False, True))]),
                      ((2, 3), 2, False, False, [('numerical_range', opt(2, False, False)), ('boundary', opt(2, False, False))]),
                      ((3, 2), 2, True, False, [('numerical_range', opt(2, True, False)), ('numerical_range', opt(2, False, False))])]
    for dim, kext, boson, ppt, steps in hist_plan:
        safely(ctx, 'symext-history:raises', dict(dim=list(dim), kext=kext, use_boson=boson, use_ppt=ppt, steps=[s_[0] for s_ in steps]),
               lambda: check_symext_history(ctx, dim, kext, boson, ppt, rng, steps, f'history/{dim}/k{kext}/boson{boson}/ppt{ppt}'))
    # symmetric / bosonic extension SDPs (slow solvers: budgeted)
    sdp_budget = 30.0 if ctx.quick() else 600.0
    plan = [((2, 2), 2, False, False), ((2, 2), 2, True, False), ((2, 2), 2, False, True), ((2, 2), 3, False, False), ((2, 2), 3, True, False)]
    if not ctx.quick():
        plan += [((2, 3), 2, False, False), ((2, 3), 2, True, False), ((3, 3), 2, False, False), ((3, 3), 2, True, True), ((2, 2), 3, False, True), ((3, 2), 2, False, False), ((3, 2), 3, True, False), ((2, 3), 3, True, False), ((2, 3), 3, False, False)]
    t0 = ctx.elapsed()
    ran = 0
    import time as _time
    tstart = _time.time()
    for dim, kext, boson, ppt in plan:
        for j in range(3 if ctx.quick() else 6):
            if _time.time() - tstart > sdp_budget:
                break
            rho, desc = make_separable(rng, dim, int(rng.integers(1, 2 * dim[0] * dim[1] + 1)), ['complex', 'basis', 'repeated'][j % 3])
            r = gskip(lambda: vbool(numqi.entangle.is_ABk_symmetric_ext(rho, dim, kext, use_ppt=ppt, use_boson=boson)))
            ctx.count('probe-symext')
            ran += 1
            if r == SKIP:
                continue
            if r is not True:
                ctx.fail('is_ABk_symmetric_ext:separable-rejected', f'is_ABk_symmetric_ext(kext={kext}, use_boson={boson}, use_ppt={ppt}) returned {r} for a separable state, dim={dim}',
                         dict(desc, kext=kext, use_boson=boson, use_ppt=ppt))
            else:
                ctx.probe_ok(('symext', dim, kext, boson, ppt, j))
    ctx.extra['symext_sdp_runs'] = ran
    ctx.extra['statements_not_proved'] = statements_not_proved(THEOREM_FILES)
    ctx.extra['measured_rounding'] = {k: float(v) for k, v in sorted(meas.items())}
    T = extract_thresholds(not ctx.quick())
    slack = dict(ppt=float(-T['isPptEpsDefault']) if T['isPptEpsDefault'] is not None else None,
                 gppt=float(T['gpptThresholdDefault']) if T['gpptThresholdDefault'] is not None else None,
                 swap=float(-T['swapEpsDefault']) if T['swapEpsDefault'] is not None else None)
    ctx.extra['slack_from_source'] = slack
    ctx.note(f'measured rounding on {count} separable states: ' + ', '.join(f'{k}={v:.2e}' for k, v in sorted(meas.items())) + f'; slack {slack}')
    ctx.assumptions.append('rounding inside Cholesky / SVD / eigvals / the SDP solver is not modelled; the theorems take |computed-exact|<=delta<slack as a hypothesis, delta is measured on every run (coverage.measured_rounding)')
    ctx.assumptions.append('"nuclear norm of a separable realignment <= 1", "concurrence of a separable two-qubit state = 0" (Wootters) and the irrep-block reformulation of the extension SDP are not proved in Lean; they are probed')


# ---------------------------------------------------------------------------------------------------------------
# input class "buffer reuse across calls": a result must not be changed by a later call with a DIFFERENT input of the same size
# ---------------------------------------------------------------------------------------------------------------
def _leaves(x):
    """the arrays / tensors inside a returned value (tuples, lists, dicts are walked; scalars ignored)"""
    try:
        import torch
        if isinstance(x, torch.Tensor):
            return [x]
    except Exception:
        pass
    if isinstance(x, np.ndarray):
        return [x]
    if isinstance(x, dict):
        return [l for v in x.values() for l in _leaves(v)]
    if isinstance(x, (list, tuple)):
        return [l for v in x for l in _leaves(v)]
    return []


def _snapshot(x):
    import copy
    return copy.deepcopy(x)


def _same_value(a, b):
    la, lb = _leaves(a), _leaves(b)
    if len(la) != len(lb):
        return False
    for u, v in zip(la, lb):
        u, v = np.asarray(u.detach() if hasattr(u, 'detach') else u), np.asarray(v.detach() if hasattr(v, 'detach') else v)
        if u.shape != v.shape or u.dtype != v.dtype or not np.array_equal(u, v, equal_nan=True):
            return False
    if not la:
        try:
            return bool(a == b)
        except Exception:
            return True
    return True


def _shares(a, b):
    for u in _leaves(a):
        for v in _leaves(b):
            if hasattr(u, 'data_ptr') and hasattr(v, 'data_ptr'):
                if u.numel() and v.numel() and u.data_ptr() == v.data_ptr():
                    return True
            elif isinstance(u, np.ndarray) and isinstance(v, np.ndarray) and u.size and v.size and np.shares_memory(u, v):
                return True
    return False


def check_buffer_reuse(ctx, name, f, A, B, descA, descB, valid=None):
    """`r1 = f(A)`, then `f(B)` with a different input of the same size: `r1` must be unchanged, must not share memory with the new result
    and must still be valid for A; then `r1` is vandalised in place and `f(B)`, `f(A)` must still return the right values.
    Failing input = the history `[f(A), f(B)]`, key `<fn>:result-overwritten-by-next-call`"""
    rp = dict(op=name, buffer_reuse=True, history=[dict(call=name, input=descA), dict(call=name, input=descB)])
    key = f'{name}:result-overwritten-by-next-call'
    ctx.count('probe-buffer-reuse')

    def run():
        r1 = f(A); c1 = _snapshot(r1)
        r2 = f(B); c2 = _snapshot(r2)
        if not _same_value(r1, c1):
            ctx.fail(key, f'the value returned by {name}(A) was changed by the later call {name}(B) with a different input of the same size', rp); return
        if _shares(r1, r2):
            ctx.fail(key, f'{name}(A) and {name}(B) return objects that share memory: the second call overwrites what the first caller holds', rp); return
        if valid is not None and not valid(r1, A):
            ctx.fail(key, f'after {name}(B) the value returned earlier by {name}(A) is no longer valid for A', rp); return
        for l in _leaves(r1):       # vandalise what was returned
            try:
                if hasattr(l, 'detach'):
                    l.detach().mul_(0).add_(7)
                elif l.flags.writeable:
                    l[...] = 7
            except Exception:
                pass
        r3, r4 = f(B), f(A)
        if not _same_value(r3, c2) or not _same_value(r4, c1):
            ctx.fail(key, f'after the caller modified the array returned by {name}(A) in place, {name} returns different values ({name}(B) '
                     f'{"ok" if _same_value(r3, c2) else "changed"}, {name}(A) {"ok" if _same_value(r4, c1) else "changed"}): a shared workspace / cache is handed out', rp); return
        ctx.probe_ok(('buffer-reuse', name, str(descA)[:40]))
    safely(ctx, f'{name}:raises', rp, run)


def buffer_reuse_block(ctx):
    """deterministic block (both tiers): every function in the scope of C05 that returns an array / list / tuple of arrays"""
    import numqi
    E, S = numqi.entangle, numqi.state
    rng = np.random.default_rng(20240913)
    for dim in ((2, 2), (2, 3), (3, 3), (2, 2, 2)):
        A, _ = make_separable(rng, dim, 3, 'complex'); B, _ = make_separable(rng, dim, 2, 'real')
        dA, dB = rho_desc(A, dim, 'separable'), rho_desc(B, dim, 'separable')
        check_buffer_reuse(ctx, 'is_generalized_ppt', lambda r: E.is_generalized_ppt(r, dim, return_info=True), A, B, dA, dB)
        if len(dim) == 2:
            stA = np.stack([A, B, A]); stB = np.stack([B, A, B])
            check_buffer_reuse(ctx, 'get_ppt_boundary', lambda r: E.get_ppt_boundary(r, dim), stA, stB, dict(batch=[dA, dB, dA]), dict(batch=[dB, dA, dB]))
            check_buffer_reuse(ctx, 'get_generalized_ppt_boundary', lambda r: E.get_generalized_ppt_boundary(r, dim), A, B, dA, dB) if hasattr(E, 'get_generalized_ppt_boundary') else None
    for d in (2, 3):
        check_buffer_reuse(ctx, 'state.Werner', lambda a: S.Werner(d, a), 0.25, -0.5, dict(d=d, alpha=0.25), dict(d=d, alpha=-0.5),
                           valid=lambda r, a: abs(np.trace(r) - 1) < 1e-12 and np.allclose(r, S.Werner(d, a).copy()))
        check_buffer_reuse(ctx, 'state.Isotropic', lambda a: S.Isotropic(d, a), 0.1, 0.3, dict(d=d, alpha=0.1), dict(d=d, alpha=0.3),
                           valid=lambda r, a: abs(np.trace(r) - 1) < 1e-12)
    check_buffer_reuse(ctx, 'state.Bell', lambda i: S.Bell(i), 0, 3, dict(index=0), dict(index=3), valid=lambda r, i: abs(np.vdot(r, r) - 1) < 1e-12)
    check_buffer_reuse(ctx, 'state.get_bes2x4_Horodecki1997', lambda b: S.get_bes2x4_Horodecki1997(b), 0.2, 0.7, dict(b=0.2), dict(b=0.7), valid=lambda r, b: abs(np.trace(r) - 1) < 1e-12)
    check_buffer_reuse(ctx, 'state.get_bes3x3_Horodecki1997', lambda a: S.get_bes3x3_Horodecki1997(a), 0.2, 0.7, dict(a=0.2), dict(a=0.7), valid=lambda r, a: abs(np.trace(r) - 1) < 1e-12)
    SX = E.symext
    check_buffer_reuse(ctx, 'symext.get_cvxpy_transpose0213_indexing', lambda n: SX.get_cvxpy_transpose0213_indexing(*n), (2, 3), (3, 2), dict(N0=2, N1=3), dict(N0=3, N1=2),
                       valid=lambda r, n: sorted(int(x) for x in r) == list(range((n[0] * n[1]) ** 2)))
    check_buffer_reuse(ctx, 'symext.get_symmetric_extension_index_list', lambda a: SX.get_symmetric_extension_index_list(*a), (2, 2, 3, '2d'), (2, 2, 3, '1d'),
                       dict(dimA=2, dimB=2, kext=3, kind='2d'), dict(dimA=2, dimB=2, kext=3, kind='1d'))
    check_buffer_reuse(ctx, 'symext.get_symmetric_extension_index_list', lambda a: SX.get_symmetric_extension_index_list(*a), (2, 3, 2, '2d'), (3, 2, 2, '2d'),
                       dict(dimA=2, dimB=3, kext=2, kind='2d'), dict(dimA=3, dimB=2, kext=2, kind='2d'))


def statements_not_proved(files):
    """target theorems kept as `def ….Statement : Prop` (full statement type-checked, not proved)"""
    import re
    out = []
    for f in files:
        src = common.strip_lean_comments(open(os.path.join(common.LEAN, f)).read())
        out += re.findall(r'^def\s+(\S+\.Statement)\b', src, re.M)
    return out


def _sdp_signature(fn):
    """run `fn` with a recording cvxpy.Problem (the real problem is still built and solved): structure of every constraint list handed over"""
    import cvxpy
    sigs = []
    real = cvxpy.Problem

    def recorder(obj, cons=None, *a, **kw):
        cons = list(cons or [])
        sigs.append([(type(c).__name__, tuple(getattr(c, 'shape', ()) or ())) for c in cons])
        return real(obj, cons, *a, **kw)
    with patched(cvxpy, 'Problem', recorder):
        out = fn()
    return out, sigs


def check_symext_history(ctx, dim, kext, boson, ppt, rng, steps, tag):
    """history on the SDP-backed path: the verdict of is_ABk_symmetric_ext on a separable state, and the structure of the SDP it builds,
    must be the same before and after other public functions that share its set-up helper were called in the same process (same and
    different option tuples)"""
    import numqi
    E = numqi.entangle
    dA, dB = dim
    rho, dsc = make_separable(rng, dim, int(rng.integers(1, 2 * dA * dB + 1)), 'complex')
    history = []
    rp = dict(dsc, kext=kext, use_boson=boson, use_ppt=ppt, history=history)

    def verdict():
        return _sdp_signature(lambda: vbool(E.is_ABk_symmetric_ext(rho, dim, kext, use_ppt=ppt, use_boson=boson)))
    v0, sig0 = verdict()
    if v0 is not True:
        ctx.fail('is_ABk_symmetric_ext:separable-rejected', f'is_ABk_symmetric_ext(kext={kext}, use_boson={boson}, use_ppt={ppt}) returned {v0} for a separable state, dim={dim} [{tag}]', rp)
        return False
    ops = [numqi.random.rand_hermitian_matrix(dA * dB, seed=rng) for _ in range(2)]
    ops = [x - np.trace(x) / (dA * dB) * np.eye(dA * dB) for x in ops]
    ok = True
    for step in steps:
        name, (k2, b2, p2) = step
        history.append(dict(call=name, kext=k2, use_boson=b2, use_ppt=p2))
        if name == 'numerical_range':
            r = guarded(lambda: E.get_ABk_extension_numerical_range(ops, np.array([1.0, 0.0]), dim, k2, use_ppt=p2, use_boson=b2, use_tqdm=False))
        elif name == 'boundary':
            r = guarded(lambda: E.get_ABk_symmetric_extension_boundary(rho, dim, k2, use_ppt=p2, use_boson=b2))
        elif name == 'is_ext':
            r = guarded(lambda: E.is_ABk_symmetric_ext(rho, dim, k2, use_ppt=p2, use_boson=b2))
        else:
            r = guarded(lambda: E.get_ABk_symmetric_extension_ree(rho, dim, k2, use_ppt=p2, use_boson=b2))
        if isinstance(r, str):
            ctx.fail(f'symext-history:{name}:raises', f'{name}(kext={k2}, use_boson={b2}, use_ppt={p2}) raised {r}, dim={dim} [{tag}]', dict(rp, history=list(history))); ok = False
            continue
        v1, sig1 = guarded(verdict) if False else verdict()
        ctx.count('probe-symext-history')
        if v1 is not True or v1 != v0:
            ctx.fail('is_ABk_symmetric_ext:history', f'is_ABk_symmetric_ext(kext={kext}, use_boson={boson}, use_ppt={ppt}) accepted the separable state before and returns '
                     f'{v1} after the history {[h["call"] for h in history]} in the same process, dim={dim} [{tag}]', dict(rp, history=list(history))); ok = False
            break
        if sig1 != sig0:
            ctx.fail('is_ABk_symmetric_ext:history', f'the SDP built by is_ABk_symmetric_ext changed after the history {[h["call"] for h in history]}: constraints {sig0} -> {sig1} '
                     f'(kext={kext}, use_boson={boson}, use_ppt={ppt}, dim={dim}) [{tag}]', dict(rp, history=list(history))); ok = False
            break
    if ok:
        ctx.probe_ok(('symext-history', dim, kext, boson, ppt, tag))
    return ok


def check_sx_formulation(ctx, dA, dB, kext, rp):
    """direct statement on the real code (independent of the Lean model): the constraints captured from is_ABk_symmetric_ext_naive are
    satisfied by the explicit extension of a product state, and only permutation-invariant matrices satisfy the permutation constraints"""
    rng = np.random.default_rng(12345)
    N = dA * dB ** kext
    a = rng.normal(size=dA) + 1j * rng.normal(size=dA); a /= np.linalg.norm(a)
    b = rng.normal(size=dB) + 1j * rng.normal(size=dB); b /= np.linalg.norm(b)
    v = a
    for _ in range(kext):
        v = np.kron(v, b)
    W = np.outer(v, v.conj())
    rho = np.outer(np.kron(a, b), np.kron(a, b).conj())
    ok = True
    for kind in ('2d', '1d'):
        cons, _, _ = capture_naive_sdp(W, rho, (dA, dB), kext, kind)
        for kk, (kd, lhs, rhs) in enumerate(sx_constraint_sides(cons)):
            if kd == 'eq' and np.abs(np.asarray(lhs) - np.asarray(rhs)).max() > 1e-12:
                ctx.fail('is_ABk_symmetric_ext_naive:formulation', f'constraint #{kk} (index_kind={kind}) of the naive SDP is violated by the exact extension '
                         f'a⊗b^⊗{kext} of a product state (residual {np.abs(np.asarray(lhs) - np.asarray(rhs)).max():.3g}): the SDP would reject a separable state',
                         dict(rp, dimA=dA, dimB=dB, kext=kext, index_kind=kind, constraint=kk)); ok = False
        # a matrix that is not invariant under exchanging two copies must violate some permutation constraint
        u = a
        bs = [b] + [rng.normal(size=dB) + 1j * rng.normal(size=dB) for _ in range(kext - 1)]
        for x in bs:
            u = np.kron(u, x)
        Wn = np.outer(u, u.conj())
        cons, _, _ = capture_naive_sdp(Wn, rho, (dA, dB), kext, kind)
        viol = [np.abs(np.asarray(l) - np.asarray(r)).max() for kd, l, r in sx_constraint_sides(cons)[3:]]
        if max(viol) < 1e-6:
            ctx.fail('is_ABk_symmetric_ext_naive:formulation', f'the permutation constraints (index_kind={kind}) accept a matrix that is not symmetric under the copies',
                     dict(rp, dimA=dA, dimB=dB, kext=kext, index_kind=kind)); ok = False
    if ok:
        ctx.probe_ok(('sx-formulation', dA, dB, kext))
    return ok


def search(ctx, hints):
    """a proof obligation or the correspondence broke and the probe found nothing: evaluate the index-layer statements with the
    independent oracles on exactly the disagreeing inputs, and the verdict statements on separable states built around them"""
    for d in hints[:100]:
        t = d['op'].split(' ')
        if len(t) < 4 or not _wellformed(d['op']):
            continue
        if t[1] == 'gpptlist':
            check_index_layer(ctx, np.eye(4, dtype=np.complex128), (2, 2), 'hint-gpptlist', dict(op=d['op']))
            continue
        if t[1] in ('sxidx', 'sxcon', 'sxwit'):
            safely(ctx, 'symext-formulation:raises', dict(op=d['op'][:200]), lambda: check_sx_formulation(ctx, int(t[2]), int(t[3]), int(t[4]), dict(op=d['op'][:200])))
            if ctx.failures:
                return
            continue
        dim = tuple(int(x) for x in t[2].split(';'))
        N = int(np.prod(dim))
        rho = parse_ents(t[-1], N)
        H = rho + rho.conj().T
        check_index_layer(ctx, H, dim, 'hint', dict(op=d['op'], note='rho + rho^H of the disagreeing op'))
        if ctx.failures:
            return
    # verdict layer: a dense sweep of separable states (more samples than the probe)
    rng = np.random.default_rng(ctx.np_seed + 99)
    meas = {}
    for k in range(400):
        dim = (PROBE_DIMS + PROBE_DIMS_LARGE)[k % len(PROBE_DIMS + PROBE_DIMS_LARGE)]
        rho, desc = make_separable(rng, dim, int(rng.integers(1, 2 * int(np.prod(dim)) + 1)), ['complex', 'real', 'basis', 'repeated', 'parallel'][k % 5])
        check_state(ctx, rho, dim, f'search/{k}', desc, meas)
        if ctx.failures:
            return


def _replay_path():
    import sys
    a = sys.argv
    return a[a.index('--replay') + 1] if '--replay' in a and a.index('--replay') + 1 < len(a) else '(replayed)'


def replay(ctx, payload):
    """bin/check C05 --replay file: rebuild the recorded state and run every criterion on it"""
    rp = payload.get('replay', {})
    meas = {}
    if rp.get('buffer_reuse'):
        buffer_reuse_block(ctx)         # deterministic: the recorded history [f(A), f(B)] is part of it
    elif 'dim' in rp:
        rho, dim = rebuild(rp)
        if payload.get('key', '').endswith(':index'):
            check_index_layer(ctx, rho, dim, 'replay', rp)
        elif 'kext' in rp and 'history' in rp:
            steps = [(h['call'], (h['kext'], h['use_boson'], h['use_ppt'])) for h in rp['history']]
            check_symext_history(ctx, dim, rp['kext'], rp['use_boson'], rp['use_ppt'], np.random.default_rng(0), steps, 'replay')
        elif 'kext' in rp:
            import numqi
            r = guarded(lambda: vbool(numqi.entangle.is_ABk_symmetric_ext(rho, dim, rp['kext'], use_ppt=rp['use_ppt'], use_boson=rp['use_boson'])))
            r1 = guarded(lambda: vbool(numqi.entangle.symext.is_ABk_symmetric_ext_naive(rho, dim, rp['kext'])[0])) if 'naive' in rp else r
            if 'naive' in rp and r1 != r:
                ctx.fail(payload.get('key'), f'naive SDP says {r1}, irrep-block SDP says {r}', rp)
            elif 'naive' not in rp and r is not True:
                ctx.fail(payload.get('key'), f'is_ABk_symmetric_ext returned {r}', rp)
        elif 'weights' in rp:
            check_bell_diag(ctx, np.array(rp['weights']))
        elif 'threshold' in rp:
            import numqi
            r = guarded(lambda: vbool(numqi.entangle.is_generalized_ppt(rho, dim, threshold=rp['threshold'])))
            if r is not True:
                ctx.fail(payload.get('key'), f'is_generalized_ppt(threshold={rp["threshold"]}) returned {r}', rp)
        else:
            check_state(ctx, rho, dim, 'replay', rp, meas)
    elif 'dimA' in rp and 'kext' in rp:
        safely(ctx, 'symext-formulation:raises', rp, lambda: check_sx_formulation(ctx, rp['dimA'], rp['dimB'], rp['kext'], dict()))
    elif 'op' in rp:
        search(ctx, [dict(op=rp['op'])])
    hit = [f for f in ctx.failures if f['key'] == payload.get('key')] or ctx.failures
    if hit:
        print(f"replay: {hit[0]['key']} still fails: {hit[0]['what']}")
        print(f'VIOLATION property={ctx.pid} replay={_replay_path()}')
        return 1
    print(f"replay: {payload.get('key')} no longer fails")
    return 0
