"""C05 — entanglement criteria never flag a separable state.

Model: lean/NumqiModel/Entangle.lean (index layer), lean/NumqiModel/Decision.lean (verdict layer, over the
constants in lean/NumqiModel/Generated/Thresholds.lean which `translate` regenerates from the sources on every run).
Theorems: lean/NumqiProps/C05.lean.  Correspondence: exact (Gaussian-integer rho; the matrices actually handed to
is_positive_semi_definite / np.linalg.norm / np.linalg.eigvals are captured in-process), verdicts on exactly
representable inputs.  Probe: separable states of many kinds through every criterion.
"""
import ast, os, itertools, contextlib, math
from fractions import Fraction
import numpy as np
from . import common

THEOREM_FILES = ['NumqiProps/C05.lean']
LEVEL = 'proof'
RULE = ('correspondence ops: Gaussian-integer Hermitian matrices (random, diagonal, unit, sparse) for every dimension list in '
        '(2,2),(2,3),(3,2),(3,3),(2,4),(2,2,2),(2,3,2),(3,2,2),(2,2,2,2) through is_ppt / is_generalized_ppt / check_reduction_witness / '
        'check_swap_witness / get_negativity / get_ppt_boundary with the tested matrices captured and compared entry by entry; verdict ops '
        'on diagonal / single-entry matrices with dyadic thresholds where Cholesky, the nuclear norm and the swap value are exact. '
        'An op is non-trivial when rho is not a multiple of the identity; distinct = distinct op lines. Probe: separable states '
        '(random product mixtures, computational-basis, repeated, nearly parallel, pure products, separable Werner/isotropic) through every criterion.')
TRUSTED = ['Lean 4.33 kernel', 'axioms: propext, Classical.choice, Quot.sound', 'Lean compiler for the driver executable',
           'harness/c05.py: canonicalisation, the in-process capture wrappers, and the ast-based thresholds translator (validated on every run by the verdict ops)',
           'contracts (parameters, not modelled): np.linalg.cholesky succeeds iff the matrix is numerically positive definite; '
           'np.linalg.norm(ord="nuc") is the sum of singular values; np.linalg.eigvals; cvxpy and its solvers (symmetric-extension SDPs)',
           'modelled, not verified: numqi/entangle/ppt.py, _misc.py, eof.py, measure.py, utils.is_positive_semi_definite']

GEN = os.path.join(common.LEAN, 'NumqiModel', 'Generated', 'Thresholds.lean')


# ---------------------------------------------------------------------------------------------------------------
# translator: comparison operators, default tolerances and guard structure  ->  Generated/Thresholds.lean
# ---------------------------------------------------------------------------------------------------------------
def _tree(rel):
    return ast.parse(open(os.path.join(common.REPO, 'python', 'numqi', rel)).read())


def _func(tree, name):
    for n in ast.walk(tree):
        if isinstance(n, ast.FunctionDef) and n.name == name:
            return n
    raise KeyError(name)


def _default(fn, arg):
    """default value of a keyword/positional parameter as an exact decimal fraction (None if absent / not a number)"""
    a = fn.args
    pos = a.posonlyargs + a.args
    defaults = [None] * (len(pos) - len(a.defaults)) + list(a.defaults)
    for p, d in list(zip(pos, defaults)) + list(zip(a.kwonlyargs, a.kw_defaults)):
        if p.arg == arg and d is not None:
            try:
                v = ast.literal_eval(d)
            except Exception:
                return None
            if isinstance(v, bool) or not isinstance(v, (int, float)):
                return None
            return Fraction(repr(v)) if isinstance(v, float) else Fraction(v)
    return None


def _coeff_of(expr, name):
    """expr == name -> 1 ; expr == -name -> -1 ; otherwise 0 (unrecognised)"""
    if isinstance(expr, ast.Name) and expr.id == name:
        return 1
    if isinstance(expr, ast.UnaryOp) and isinstance(expr.op, ast.USub) and isinstance(expr.operand, ast.Name) and expr.operand.id == name:
        return -1
    return 0


def _psd_call_shift(fn, name='eps'):
    """coefficient k in `is_positive_semi_definite(..., shift=k*eps)` (0 if not of that form or no such call)"""
    for n in ast.walk(fn):
        if isinstance(n, ast.Call) and ast.unparse(n.func).endswith('is_positive_semi_definite'):
            for kw in n.keywords:
                if kw.arg == 'shift':
                    return _coeff_of(kw.value, name)
            if len(n.args) >= 2:
                return _coeff_of(n.args[1], name)
            return 0
    return 0


CMP = {ast.Lt: 'lt', ast.LtE: 'le', ast.Gt: 'gt', ast.GtE: 'ge'}


def _cmp(node):
    if isinstance(node, ast.Compare) and len(node.ops) == 1:
        return CMP.get(type(node.ops[0]), 'other')
    return 'other'


def extract_thresholds():
    """read the decision layer of the working tree; every field has an `unrecognised` fallback that makes a Lean obligation fail"""
    T = {}
    ppt = _tree('entangle/ppt.py')
    misc = _tree('entangle/_misc.py')
    eof = _tree('entangle/eof.py')
    meas = _tree('entangle/measure.py')
    utils = _tree('utils.py')
    # --- is_ppt
    f = _func(ppt, 'is_ppt')
    T['isPptEpsDefault'] = _default(f, 'eps')
    T['isPptShiftCoeff'] = _psd_call_shift(f)
    # --- check_reduction_witness
    f = _func(misc, 'check_reduction_witness')
    T['reductionEpsDefault'] = _default(f, 'eps')
    T['reductionShiftCoeff'] = _psd_call_shift(f)
    # --- utils.is_positive_semi_definite:  np0 = np0 + shift*np.eye(..) ; try cholesky -> True / except -> False
    f = _func(utils, 'is_positive_semi_definite')
    coeff, chol = 0, False
    for n in ast.walk(f):
        if isinstance(n, ast.Assign) and isinstance(n.value, ast.BinOp) and isinstance(n.value.op, (ast.Add, ast.Sub)):
            l, r = n.value.left, n.value.right
            if isinstance(l, ast.Name) and l.id == 'np0' and ast.unparse(r).replace(' ', '') == 'shift*np.eye(np0.shape[0])':
                coeff = 1 if isinstance(n.value.op, ast.Add) else -1
        if isinstance(n, ast.Try):
            body = [ast.unparse(s).replace(' ', '') for s in n.body]
            hand = [ast.unparse(s).replace(' ', '') for h in n.handlers for s in h.body]
            if body == ['np.linalg.cholesky(np0)', 'ret=True'] and hand == ['ret=False']:
                chol = True
    T['psdShiftCoeff'] = coeff
    T['psdCholesky'] = chol
    # --- is_generalized_ppt:  tag = all(x[2] <= 1+threshold for x in ret) ; break when ret[-1][2] > 1+threshold
    f = _func(ppt, 'is_generalized_ppt')
    T['gpptThresholdDefault'] = _default(f, 'threshold')
    op, rhs, brk = 'other', False, 'other'
    for n in ast.walk(f):
        if isinstance(n, ast.Assign) and ast.unparse(n.targets[0]) == 'tag' and isinstance(n.value, ast.Call) and ast.unparse(n.value.func) == 'all':
            g = n.value.args[0]
            if isinstance(g, ast.GeneratorExp) and isinstance(g.elt, ast.Compare) and ast.unparse(g.elt.left) == 'x[2]':
                op = _cmp(g.elt)
                rhs = ast.unparse(g.elt.comparators[0]).replace(' ', '') == '1+threshold'
        if isinstance(n, ast.If) and any(isinstance(s, ast.Break) for s in n.body):
            for c in ast.walk(n.test):
                if isinstance(c, ast.Compare) and ast.unparse(c.left) == 'ret[-1][2]' and ast.unparse(c.comparators[0]).replace(' ', '') == '1+threshold':
                    brk = _cmp(c)
    T['gpptAcceptOp'] = op
    T['gpptRhsOnePlusThreshold'] = rhs
    T['gpptBreakOp'] = brk
    # --- check_swap_witness:  ret = tmp0 > eps
    f = _func(misc, 'check_swap_witness')
    T['swapEpsDefault'] = _default(f, 'eps')
    op = 'other'
    for n in ast.walk(f):
        if isinstance(n, ast.Assign) and ast.unparse(n.targets[0]) == 'ret' and isinstance(n.value, ast.Compare):
            if ast.unparse(n.value.left) == 'tmp0' and ast.unparse(n.value.comparators[0]) == 'eps':
                op = _cmp(n.value)
    T['swapOp'] = op
    # --- get_eof_2qubit guard structure
    f = _func(eof, 'get_eof_2qubit')
    zero, clamp, guard, ok = False, False, False, False
    for n in f.body:
        if isinstance(n, ast.If):
            zero = ast.unparse(n.test).replace(' ', '') == 'tmp0==0' and [ast.unparse(s).replace(' ', '') for s in n.body] == ['ret=0']
            els = [ast.unparse(s).replace(' ', '') for s in n.orelse]
            t_clamp = 'tmp1=(1+np.sqrt(max(0,1-tmp0*tmp0)))/2'
            t_raw = 'tmp1=(1+np.sqrt(1-tmp0*tmp0))/2'
            first = 'ret=-tmp1*np.log(tmp1)'
            second = 'ret=ret-(1-tmp1)*np.log(1-tmp1)'
            if len(els) >= 1 and els[0] in (t_clamp, t_raw):
                clamp = els[0] == t_clamp
                rest = els[1:]
                if rest == [first, 'iftmp1<1:\n' + '' + second] or (len(rest) == 2 and rest[0] == first and isinstance(n.orelse[2], ast.If)
                        and ast.unparse(n.orelse[2].test).replace(' ', '') == 'tmp1<1' and not n.orelse[2].orelse
                        and [ast.unparse(s).replace(' ', '') for s in n.orelse[2].body] == [second]):
                    guard, ok = True, True
                elif rest == [first, second] or rest == ['ret=-tmp1*np.log(tmp1)-(1-tmp1)*np.log(1-tmp1)']:
                    guard, ok = False, True
    T['eofZeroShortcut'] = zero
    T['eofClampSqrtArg'] = clamp
    T['eofSecondTermGuardLt1'] = guard
    T['eofRecognised'] = ok and zero is not None
    # --- get_gme_2qubit
    f = _func(meas, 'get_gme_2qubit')
    gclamp, gok = False, False
    for n in f.body:
        if isinstance(n, ast.Assign) and ast.unparse(n.targets[0]) == 'ret':
            s = ast.unparse(n.value).replace(' ', '')
            if s == '(1-np.sqrt(max(0,1-tmp0*tmp0)))/2':
                gclamp, gok = True, True
            elif s == '(1-np.sqrt(1-tmp0*tmp0))/2':
                gclamp, gok = False, True
    T['gmeClampSqrtArg'] = gclamp
    T['gmeRecognised'] = gok
    return T


def _lean_rat(fr):
    if fr is None:
        return '(0 : Rat)'   # absent default: slack obligations fail
    return f'(({fr.numerator} : Int) : Rat) / {fr.denominator}'


def render_thresholds(T):
    b = lambda v: 'true' if v else 'false'
    L = []
    L.append('/-')
    L.append('GENERATED on every run by harness/c05.py:translate (also called by harness/c13.py) from the working tree of numqi:')
    L.append('comparison operators, default tolerances and guard structure of the verdict functions. Do not edit.')
    L.append('-/')
    L.append('namespace Numqi.Ent.Thresholds')
    L.append('')
    L.append('/-- comparison operator found in the source (`other` = not recognised) -/')
    L.append('inductive Cmp where')
    L.append('  | lt | le | gt | ge | other')
    L.append('deriving DecidableEq, Repr')
    L.append('')
    L.append('/-- `is_ppt(rho, dim, eps=…)` (ppt.py) -/')
    L.append(f'def isPptEpsDefault : Rat := {_lean_rat(T["isPptEpsDefault"])}')
    L.append('/-- `k` in `is_positive_semi_definite(rhoT, shift=k*eps)` (0 = not recognised) -/')
    L.append(f'def isPptShiftCoeff : Int := {T["isPptShiftCoeff"]}')
    L.append('/-- `check_reduction_witness(rho, dim, eps=…)` (_misc.py) -/')
    L.append(f'def reductionEpsDefault : Rat := {_lean_rat(T["reductionEpsDefault"])}')
    L.append(f'def reductionShiftCoeff : Int := {T["reductionShiftCoeff"]}')
    L.append('/-- `utils.is_positive_semi_definite`: `np0 = np0 + k*shift*eye` then Cholesky succeeds ⇒ True, LinAlgError ⇒ False -/')
    L.append(f'def psdShiftCoeff : Int := {T["psdShiftCoeff"]}')
    L.append(f'def psdCholesky : Bool := {b(T["psdCholesky"])}')
    L.append('/-- `is_generalized_ppt(…, threshold=…)`: `tag = all(x[2] <op> 1+threshold)`, early exit when `ret[-1][2] <brk> 1+threshold` -/')
    L.append(f'def gpptThresholdDefault : Rat := {_lean_rat(T["gpptThresholdDefault"])}')
    L.append(f'def gpptAcceptOp : Cmp := .{T["gpptAcceptOp"]}')
    L.append(f'def gpptRhsOnePlusThreshold : Bool := {b(T["gpptRhsOnePlusThreshold"])}')
    L.append(f'def gpptBreakOp : Cmp := .{T["gpptBreakOp"]}')
    L.append('/-- `check_swap_witness(rho, eps=…)`: `ret = tmp0 <op> eps` -/')
    L.append(f'def swapEpsDefault : Rat := {_lean_rat(T["swapEpsDefault"])}')
    L.append(f'def swapOp : Cmp := .{T["swapOp"]}')
    L.append('/-- `get_eof_2qubit` (eof.py): `if tmp0==0: 0`, `max(0, 1-c²)` under the square root, `if tmp1<1` around the second entropy term -/')
    L.append(f'def eofZeroShortcut : Bool := {b(T["eofZeroShortcut"])}')
    L.append(f'def eofClampSqrtArg : Bool := {b(T["eofClampSqrtArg"])}')
    L.append(f'def eofSecondTermGuardLt1 : Bool := {b(T["eofSecondTermGuardLt1"])}')
    L.append(f'def eofRecognised : Bool := {b(T["eofRecognised"])}')
    L.append('/-- `get_gme_2qubit` (measure.py): `max(0, 1-c²)` under the square root -/')
    L.append(f'def gmeClampSqrtArg : Bool := {b(T["gmeClampSqrtArg"])}')
    L.append(f'def gmeRecognised : Bool := {b(T["gmeRecognised"])}')
    L.append('')
    L.append('end Numqi.Ent.Thresholds')
    return '\n'.join(L) + '\n'


def translate(ctx):
    T = extract_thresholds()
    txt = render_thresholds(T)
    os.makedirs(os.path.dirname(GEN), exist_ok=True)
    old = open(GEN).read() if os.path.exists(GEN) else None
    if old != txt:
        with common.build_lock():
            with open(GEN, 'w') as fh:
                fh.write(txt)
    if ctx is not None:
        ctx.extra['thresholds'] = {k: (str(v) if isinstance(v, Fraction) else v) for k, v in T.items()}
    return T
