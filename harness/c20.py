"""C20 — matrix-subspace decomposition is exact and rank certificates are sound.

Model: lean/NumqiModel/MatrixSpace.lean (+ Generated/Thresholds20.lean, regenerated from the source on every run).
Theorems: lean/NumqiProps/C20.lean.
Correspondence: exact on integer data for every index table / reshape / projector entry; 1e-12 for the two
operations whose implementation side multiplies by a non-dyadic float (1/r!, exp(i theta)/2, optimiser-chosen p).
Probe: direct evaluation of the property statement on the real code (orthogonality / span / complement / dimension
count for the seven structure classes, planted low-rank elements against both certificates, support function).
"""
import ast, os, io, contextlib, itertools, math, json
from fractions import Fraction
import numpy as np
from . import common

THEOREM_FILES = ['NumqiProps/C20.lean', 'NumqiProps/C20Decision.lean']
GREP_FILES = ['NumqiModel/Generated/Thresholds20.lean']
LEVEL = 'proof'
RULE = ('index tables: every tuple pattern of length <= 4 (<= 5 thorough) exhaustively, dims 1..6; polarised minors on random integer '
        'matrices for every sorted INDEX pattern, r <= 3 (4 thorough); structure-class shuffles on random integer inputs dims 1..5 for '
        'all seven classes; level-k vectors (symmetric factor, sub-tuple pieces, Gram matrix) on integer generators k <= 3 (4 thorough) incl. N = 1; '
        'tripartite matricisations and cut outputs for dimA != dimB != dimC, tripartite level-k vectors and Gram matrix on Gaussian-integer tensors k <= 3 (4 thorough) incl. N = 1; '
        'dense (anti)symmetric bases for every rank; rotation / kind=min / INDEX=None option bookkeeping; decision ops on both sides of each threshold. An op is non-trivial when its output is not all zeros/empty; '
        'distinct = distinct op lines.')
TRUSTED = ['Lean 4.33 kernel', 'axioms: propext, Classical.choice, Quot.sound', 'Lean compiler for the driver executable',
           'harness/c20.py: ast translator (symbolic execution + semantic normal form, unrecognised shapes emitted as unknown) for the three certificate comparisons and the routine behind the decision quantity (validated dynamically '
           'on both sides of each threshold, injected only through the routine the source uses), regression corpus corpus/C20, '
           'canonicalisation, in-process wrappers that capture the arrays handed to svd/eigh helpers',
           'modelled, not verified: numqi/matrix_space/{_misc,_hierarchy,_numerical_range}.py',
           'contracts (hypotheses of the theorems, probed only): np.linalg.svd / eigh / eigvalsh, scipy.linalg.lu, '
           'scipy.sparse.linalg.eigsh, scipy.optimize.minimize_scalar / root_scalar; Gell-Mann transform = C16']

GEN = os.path.join(common.LEAN, 'NumqiModel', 'Generated', 'Thresholds20.lean')

# ---------------------------------------------------------------------------
# translator: the three certificate comparisons and their default tolerances
# ---------------------------------------------------------------------------
class Untranslatable(Exception):
    """the verdict of a certificate could not be brought to the normal form `measured OP affine(zero_eps)`"""


# ---- semantic normalisation of a verdict -------------------------------------------------------------------------------------------
# boolean normal form:  ('cmp', op, aff)  meaning  aff OP 0  with  aff = {'m': a, 'e': b, '1': c}  (measured quantity, zero_eps, constant),
#                       ('const', bool)
_FLIP = {'<': '>=', '<=': '>', '>': '<=', '>=': '<'}           # negation of a comparison (over the reals; the model has no NaN)
_MIRROR = {'<': '>', '<=': '>=', '>': '<', '>=': '<='}         # multiplication of both sides by -1
_PYCMP = {ast.Lt: '<', ast.LtE: '<=', ast.Gt: '>', ast.GtE: '>='}
_LEANOP = {'<': '<', '<=': '≤', '>': '>', '>=': '≥'}


class _Norm:
    def __init__(self, eps_name='zero_eps'):
        self.eps_name = eps_name
        self.measured = {}          # ast.dump -> node of the opaque (non-arithmetic) sub-expressions met on the way

    # -- arithmetic: affine forms over {m, e, 1} with rational coefficients
    def const(self, node):
        a = self.aff(node)
        if a['m'] != 0 or a['e'] != 0:
            raise Untranslatable('non-constant factor')
        return a['1']

    def aff(self, node):
        Z = Fraction(0)
        if isinstance(node, ast.Constant) and isinstance(node.value, (int, float)) and not isinstance(node.value, bool):
            return {'m': Z, 'e': Z, '1': Fraction(repr(node.value)) if isinstance(node.value, float) else Fraction(node.value)}
        if isinstance(node, ast.Name) and node.id == self.eps_name:
            return {'m': Z, 'e': Fraction(1), '1': Z}
        if isinstance(node, ast.UnaryOp) and isinstance(node.op, (ast.USub, ast.UAdd)):
            a = self.aff(node.operand)
            return a if isinstance(node.op, ast.UAdd) else {k: -v for k, v in a.items()}
        if isinstance(node, ast.BinOp) and isinstance(node.op, (ast.Add, ast.Sub)):
            a, b = self.aff(node.left), self.aff(node.right)
            sg = 1 if isinstance(node.op, ast.Add) else -1
            return {k: a[k] + sg * b[k] for k in a}
        if isinstance(node, ast.BinOp) and isinstance(node.op, ast.Mult):
            for x, y in ((node.left, node.right), (node.right, node.left)):
                try:
                    c = self.const(x)
                except Untranslatable:
                    continue
                a = self.aff(y)
                return {k: c * v for k, v in a.items()}
            raise Untranslatable('product of two non-constants')
        if isinstance(node, ast.BinOp) and isinstance(node.op, ast.Div):
            c = self.const(node.right)
            if c == 0:
                raise Untranslatable('division by zero')
            return {k: v / c for k, v in self.aff(node.left).items()}
        if isinstance(node, ast.Call) and isinstance(node.func, ast.Name) and node.func.id == 'float' and len(node.args) == 1 and not node.keywords:
            return self.aff(node.args[0])
        if isinstance(node, (ast.Call, ast.Subscript, ast.Attribute, ast.Name)):
            # an opaque quantity: the measured one (np.linalg.eigvalsh(G)[0], the returned upper bound, …)
            self.measured[ast.dump(node)] = node
            if len(self.measured) > 1:
                raise Untranslatable('more than one measured quantity')
            return {'m': Fraction(1), 'e': Z, '1': Z}
        raise Untranslatable('arithmetic: ' + type(node).__name__)

    # -- booleans
    def neg(self, b):
        return ('const', not b[1]) if b[0] == 'const' else ('cmp', _FLIP[b[1]], b[2])

    def boolean(self, node):
        if isinstance(node, ast.Constant) and isinstance(node.value, bool):
            return ('const', node.value)
        if isinstance(node, ast.UnaryOp) and isinstance(node.op, ast.Not):
            return self.neg(self.boolean(node.operand))
        if isinstance(node, ast.Compare) and len(node.ops) == 1 and type(node.ops[0]) in _PYCMP:
            a, b = self.aff(node.left), self.aff(node.comparators[0])
            return ('cmp', _PYCMP[type(node.ops[0])], {k: a[k] - b[k] for k in a})
        if isinstance(node, ast.IfExp):
            t, a, b = self.boolean(node.test), self.boolean(node.body), self.boolean(node.orelse)
            if a[0] == 'const' and b[0] == 'const':
                return a if a[1] == b[1] else (t if a[1] else self.neg(t))
            if a == b:
                return a
            raise Untranslatable('conditional verdict')
        if isinstance(node, ast.Call) and not node.keywords and len(node.args) == 1 and \
                ((isinstance(node.func, ast.Name) and node.func.id == 'bool') or (isinstance(node.func, ast.Attribute) and node.func.attr in ('bool_', 'bool'))):
            return self.boolean(node.args[0])
        raise Untranslatable('boolean: ' + type(node).__name__)


class _Subst(ast.NodeTransformer):
    """replace names by what they were bound to — only at the positions the normaliser looks through (boolean / arithmetic operators,
    conditional expressions, tuples, `bool(.)` / `float(.)`); the inside of any other call / subscript / attribute stays as written, so
    that the measured quantity keeps the names of the source (`np.linalg.eigvalsh(matAAT)[0]`)"""
    def __init__(self, env, eps_name='zero_eps'):
        self.env = env
        self.eps_name = eps_name

    def visit_Name(self, node):
        if isinstance(node.ctx, ast.Load) and node.id in self.env:
            v = self.env[node.id]
            if v is None:
                if node.id == self.eps_name:
                    raise Untranslatable('`%s` is rebound in a branch / loop / augmented assignment' % node.id)
                return node                 # assigned in a loop / branch: stays an opaque quantity
            import copy
            return copy.deepcopy(v)
        return node

    def _opaque(self, node):
        # the tolerance must not hide inside an opaque expression either
        for x in ast.walk(node):
            if isinstance(x, ast.Name) and x.id == self.eps_name and self.env.get(x.id, 0) is None:
                raise Untranslatable('`%s` is rebound in a branch / loop / augmented assignment' % x.id)
        return node

    def visit_Call(self, node):
        if isinstance(node.func, ast.Name) and node.func.id in ('bool', 'float') and len(node.args) == 1 and not node.keywords:
            node.args = [self.visit(node.args[0])]
            return node
        if isinstance(node.func, ast.Attribute) and node.func.attr in ('bool_', 'bool') and len(node.args) == 1 and not node.keywords:
            node.args = [self.visit(node.args[0])]
            return node
        return self._opaque(node)

    def visit_Subscript(self, node):
        return self._opaque(node)

    def visit_Attribute(self, node):
        return self._opaque(node)

    def visit_Lambda(self, node):
        return self._opaque(node)


def _assigned_names(stmts):
    out = set()
    for st in stmts:
        for n in ast.walk(st):
            if isinstance(n, (ast.Assign, ast.AugAssign, ast.AnnAssign)):
                for t in (n.targets if isinstance(n, ast.Assign) else [n.target]):
                    for x in ast.walk(t):
                        if isinstance(x, ast.Name):
                            out.add(x.id)
            if isinstance(n, (ast.For, ast.comprehension)):
                for x in ast.walk(n.target):
                    if isinstance(x, ast.Name):
                        out.add(x.id)
    return out


def _walk_own(node):
    """ast.walk that does not descend into nested function / class definitions"""
    todo = list(ast.iter_child_nodes(node))
    while todo:
        n = todo.pop()
        yield n
        if not isinstance(n, (ast.FunctionDef, ast.AsyncFunctionDef, ast.ClassDef, ast.Lambda)):
            todo.extend(ast.iter_child_nodes(n))


def _binding_census(fn):
    """name -> (number of bindings anywhere in the function body, number of those that are plain top-level `name = value` statements)"""
    total, top = {}, {}

    def add(d, n):
        d[n] = d.get(n, 0) + 1
    for n in _walk_own(fn):
        tg = []
        if isinstance(n, ast.Assign):
            tg = n.targets
        elif isinstance(n, (ast.AugAssign, ast.AnnAssign)):
            tg = [n.target]
        elif isinstance(n, (ast.For, ast.AsyncFor, ast.comprehension)):
            tg = [n.target]
        elif isinstance(n, ast.NamedExpr):
            tg = [n.target]
        elif isinstance(n, (ast.With, ast.AsyncWith)):
            tg = [i.optional_vars for i in n.items if i.optional_vars is not None]
        elif isinstance(n, ast.ExceptHandler) and n.name:
            add(total, n.name)
        elif isinstance(n, (ast.Import, ast.ImportFrom)):
            for a in n.names:
                add(total, (a.asname or a.name).split('.')[0])
        for t in tg:
            for x in ast.walk(t):
                if isinstance(x, ast.Name):
                    add(total, x.id)
    for st in fn.body:
        if isinstance(st, ast.Assign) and len(st.targets) == 1 and isinstance(st.targets[0], ast.Name):
            add(top, st.targets[0].id)
    return total, top


def _verdict_expr(fn, eps_name='zero_eps'):
    """symbolic execution of the straight-line part of the function: the expression returned (names replaced by what they were bound to).
    `ret = ret, extra` (return_info) keeps the verdict.  Fail-safe rules: the function has exactly one `return`, the last top-level
    statement (a return anywhere else — branch, loop, try, with — makes the verdict unknown); the tolerance `zero_eps` is never rebound
    outside straight-line code."""
    body = list(fn.body)
    rets = [n for n in _walk_own(fn) if isinstance(n, ast.Return)]
    if len(rets) != 1 or not body or rets[0] is not body[-1]:
        raise Untranslatable('%d return statements / the return is not the last top-level statement' % len(rets))
    total, top = _binding_census(fn)
    if total.get(eps_name, 0) != top.get(eps_name, 0):
        raise Untranslatable('`%s` is rebound in a branch / loop / augmented assignment' % eps_name)
    env = {}

    def sub(node):
        return _Subst(env, eps_name).visit(__import__('copy').deepcopy(node))
    for st in body[:-1]:
        if isinstance(st, ast.Assign) and len(st.targets) == 1 and isinstance(st.targets[0], ast.Name):
            name = st.targets[0].id
            v = st.value
            if isinstance(v, ast.Tuple) and v.elts and isinstance(v.elts[0], ast.Name) and v.elts[0].id == name:
                continue                        # ret = ret, info
            env[name] = sub(v)
            continue
        if isinstance(st, ast.If):
            names = _assigned_names([st])
            b, o = st.body, st.orelse
            def single(blk):
                blk = [x for x in blk if not (isinstance(x, ast.Expr) and isinstance(x.value, ast.Constant))]
                if len(blk) == 1 and isinstance(blk[0], ast.Assign) and len(blk[0].targets) == 1 and isinstance(blk[0].targets[0], ast.Name):
                    return blk[0].targets[0].id, blk[0].value
                return None
            sb, so = single(b), single(o)
            if sb and so and sb[0] == so[0]:
                env[sb[0]] = ast.IfExp(test=sub(st.test), body=sub(sb[1]), orelse=sub(so[1]))
                continue
            if sb and not o and isinstance(sb[1], ast.Tuple) and sb[1].elts and isinstance(sb[1].elts[0], ast.Name) and sb[1].elts[0].id == sb[0]:
                continue                        # if return_info: ret = ret, info
            for n in names:
                env[n] = None
            continue
        for n in _assigned_names([st]):
            env[n] = None
    return sub(body[-1].value)


def _signature_default(module, fname, arg, fn_ast):
    """default value of a keyword: from the imported function (inspect.signature), falling back to folding the source text"""
    try:
        import importlib, inspect
        f = getattr(importlib.import_module(module), fname)
        prm = inspect.signature(f).parameters.get(arg)
        if prm is None or prm.default is inspect.Parameter.empty:
            return Fraction(0)              # no such keyword / no default: there is no slack
        if isinstance(prm.default, (int, float)) and not isinstance(prm.default, bool):
            return Fraction(repr(float(prm.default))) if isinstance(prm.default, float) else Fraction(prm.default)
        raise Untranslatable('default of ' + arg)
    except Untranslatable:
        raise
    except Exception:
        names = [a.arg for a in fn_ast.args.args]
        defaults = fn_ast.args.defaults
        off = len(names) - len(defaults)
        if arg not in names or names.index(arg) < off:
            return Fraction(0)
        return _Norm().const(defaults[names.index(arg) - off])


def _rhs_text(be, c, eps='zero_eps'):
    """`c + be*zero_eps` for small integer coefficients, written with 0, 1, +, - only (the model is generic over ordered rings)"""
    table = {(1, -1): f'(1 - {eps})', (0, 1): eps, (0, 0): '0', (1, 0): '1', (1, 1): f'(1 + {eps})', (0, -1): f'(0 - {eps})',
             (-1, 0): '(0 - 1)', (-1, 1): f'({eps} - 1)', (-1, -1): f'((0 - 1) - {eps})'}
    if (c, be) not in table:
        raise Untranslatable(f'threshold {c} + {be}*zero_eps is not of a recognised shape')
    return table[(c, be)]


def _normal_form(b, lhs_name, direction):
    """('cmp', op, a_m*m + a_e*e + a_0 OP 0)  ->  Lean text `lhs OP' rhs` with the measured quantity alone on the left.
    `direction`: after solving for the measured quantity the certificate must be a bound from `below` (rank-one:
    the bound is small) resp. `above` (Gram tests: the smallest eigenvalue is large) — `-eigvalsh(-G)[0] > eps` is not of the shape"""
    if b[0] == 'const':
        raise Untranslatable('verdict is the constant %s' % b[1])
    _, op, a = b
    if a['m'] == 0:
        raise Untranslatable('verdict does not depend on the measured quantity')
    if a['m'] < 0:
        op = _MIRROR[op]
    if op not in ({'below': ('<', '<='), 'above': ('>', '>=')}[direction]):
        raise Untranslatable('certificate is not a bound from %s on the measured quantity' % direction)
    be, c = -a['e'] / a['m'], -a['1'] / a['m']
    if be.denominator != 1 or c.denominator != 1:
        raise Untranslatable(f'threshold {c} + {be}*zero_eps is not of a recognised shape')
    return f'{lhs_name} {_LEANOP[op]} {_rhs_text(int(be), int(c))}'


def _func(tree, name):
    for n in ast.walk(tree):
        if isinstance(n, ast.FunctionDef) and n.name == name:
            return n
    raise Untranslatable('function ' + name + ' not found')


def _extract_rank_one(src):
    """certificate of detect_real_matrix_subspace_rank_one = "first returned value is False", as a condition on the returned bound"""
    fn = _func(ast.parse(src), 'detect_real_matrix_subspace_rank_one')
    ret = _verdict_expr(fn)
    if not (isinstance(ret, ast.Tuple) and len(ret.elts) == 2):
        raise Untranslatable('does not return (tag, upper_bound)')
    nm = _Norm()
    tag = nm.boolean(ret.elts[0])
    cert = nm.neg(tag)
    # the measured quantity of the verdict must be the bound that is returned
    if not nm.measured or ast.dump(ret.elts[1]) not in nm.measured:
        raise Untranslatable('the verdict is not taken on the returned bound')
    return _normal_form(cert, 'upper_bound', 'below'), _signature_default('numqi.matrix_space._numerical_range', 'detect_real_matrix_subspace_rank_one', 'zero_eps', fn)


def _module_aliases(tree):
    """local name -> dotted module it stands for (`import numpy as np` -> np: numpy; `import scipy.linalg` -> scipy: scipy)"""
    out = {}
    for n in tree.body:
        if isinstance(n, ast.Import):
            for a in n.names:
                out[a.asname or a.name.split('.')[0]] = a.name if a.asname else a.name.split('.')[0]
        elif isinstance(n, ast.ImportFrom) and n.module:
            for a in n.names:
                out[a.asname or a.name] = n.module + '.' + a.name
    return out


def _dotted(node, aliases):
    parts = []
    while isinstance(node, ast.Attribute):
        parts.append(node.attr); node = node.value
    if not isinstance(node, ast.Name):
        return None
    return '.'.join([aliases.get(node.id, '?' + node.id)] + parts[::-1])


_EIGVALSH = {'numpy.linalg.eigvalsh', 'scipy.linalg.eigvalsh'}
_EIGH = {'numpy.linalg.eigh', 'scipy.linalg.eigh'}
_MINF = {'numpy.min', 'numpy.amin'}


def _measure_kind(node, aliases, bound_once):
    """which quantity the Gram-matrix certificate measures.  `smallestEigenvalue` only for the smallest entry of
    `numpy/scipy.linalg.eigvalsh(G)` (spelled `[0]`, `.min()`, `np.min(.)`, `min(.)`) or of `eigh(G)[0]`, with `G` a plain name that is
    bound exactly once, by a top-level assignment (so `eigvalsh(G + I)`, `eigvalsh(-G)`, a `G` replaced in a branch, or another library's
    `eigvalsh` do not qualify); `minAbsLUPivot` if an `lu` factorisation is involved (the repaired defect 561406a); anything else `other`"""
    def smallest_of(n):
        # returns the array expression whose smallest entry `n` is, or None
        if isinstance(n, ast.Subscript) and isinstance(n.slice, ast.Constant) and n.slice.value == 0:
            return n.value
        if isinstance(n, ast.Call) and isinstance(n.func, ast.Attribute) and n.func.attr == 'min' and not n.args and not n.keywords:
            d = _dotted(n.func, aliases)
            return n.func.value if (d is None or d not in _MINF) else None
        if isinstance(n, ast.Call) and len(n.args) == 1 and not n.keywords and \
                ((isinstance(n.func, ast.Name) and n.func.id == 'min') or _dotted(n.func, aliases) in _MINF):
            return n.args[0]
        return None
    if any(isinstance(x, ast.Attribute) and x.attr in ('lu', 'lu_factor') for x in ast.walk(node)):
        return 'minAbsLUPivot'
    arr = smallest_of(node)
    if arr is None:
        return 'other'
    call = None
    if isinstance(arr, ast.Call) and _dotted(arr.func, aliases) in _EIGVALSH:
        call = arr
    elif isinstance(arr, ast.Subscript) and isinstance(arr.slice, ast.Constant) and arr.slice.value == 0 \
            and isinstance(arr.value, ast.Call) and _dotted(arr.value.func, aliases) in _EIGH:
        call = arr.value
    if call is None or len(call.args) != 1 or call.keywords:
        return 'other'
    g = call.args[0]
    if not (isinstance(g, ast.Name) and g.id in bound_once):
        return 'other'
    return 'smallestEigenvalue'


def _extract_lu(src, fname):
    """certificate of the Gram-matrix tests = "returned value is True", as a condition on the measured quantity"""
    tree = ast.parse(src)
    fn = _func(tree, fname)
    ret = _verdict_expr(fn)
    if isinstance(ret, ast.IfExp) and isinstance(ret.body, ast.Tuple):       # return (ret, info) if return_info else ret
        ret = ret.orelse
    if isinstance(ret, ast.Tuple):
        raise Untranslatable('returns a tuple')
    nm = _Norm()
    cert = nm.boolean(ret)
    total, top = _binding_census(fn)
    params = {a.arg for a in fn.args.args + fn.args.kwonlyargs}
    bound_once = {n for n, c in total.items() if c == 1 and top.get(n, 0) == 1 and n not in params}
    kind = _measure_kind(next(iter(nm.measured.values())), _module_aliases(tree), bound_once) if nm.measured else 'other'
    return _normal_form(cert, 'm', 'above'), _signature_default('numqi.matrix_space._hierarchy', fname, 'zero_eps', fn), kind


_HDR = '''/- GENERATED by harness/c20.py (translate) from
   {repo}/python/numqi/matrix_space/_numerical_range.py and _hierarchy.py — do not edit.
   The verdicts of the three rank certificates in normal form `measured OP threshold(zero_eps)` (negations pushed to the comparison,
   constants folded, names resolved) and their default tolerances (inspect.signature of the imported functions).
   `…Known = false`: the verdict could not be brought to the normal form — the certificate below is then never issued and the driver
   answers `unknown`. -/
namespace Numqi.Generated.Thresholds20

/-- the routine that produces the quantity a Gram-matrix certificate compares with `zero_eps` -/
inductive DecisionKind where
  | smallestEigenvalue | minAbsLUPivot | other
deriving DecidableEq, Repr

'''

_DEF = '''/-- `{pyname}`: certificate condition `{pyexpr}` -/
def {name} {{α : Type}} [Zero α] [One α] [Add α] [Sub α] [Mul α] [LT α] [LE α]
    [DecidableRel (α := α) (· < ·)] [DecidableRel (α := α) (· ≤ ·)] ({args} : α) : Bool :=
  {body}
/-- whether the translator recognised the verdict -/
def {name}Known : Bool := {known}
/-- default `zero_eps = {eps}` -/
def {name}EpsNum : Nat := {num}
def {name}EpsDen : Nat := {den}
def {name}EpsNeg : Bool := {neg}

'''


def translate(ctx=None):
    base = os.path.join(common.REPO, 'python', 'numqi', 'matrix_space')
    out = _HDR.format(repo='<repo>')
    items = []

    def clean(ex):
        return (type(ex).__name__ + ': ' + str(ex))[:120].replace('-/', '').replace('/-', '').replace('\n', ' ')
    try:
        t, e = _extract_rank_one(open(os.path.join(base, '_numerical_range.py')).read())
        items.append(('rankOneCert', 'detect_real_matrix_subspace_rank_one', 'upper_bound zero_eps', t, e, True))
    except Exception as ex:
        items.append(('rankOneCert', 'detect_real_matrix_subspace_rank_one (UNKNOWN SHAPE: %s)' % clean(ex), '_upper_bound _zero_eps', 'unknown', Fraction(0), False))
    measures = {}
    for name, fname in (('hierarchyCert', 'has_rank_hierarchical_method'), ('abcCert', 'is_ABC_completely_entangled_subspace')):
        try:
            t, e, mk = _extract_lu(open(os.path.join(base, '_hierarchy.py')).read(), fname)
            items.append((name, fname, 'm zero_eps', t, e, True)); measures[name] = mk
        except Exception as ex:
            items.append((name, fname + ' (UNKNOWN SHAPE: %s)' % clean(ex), '_m _zero_eps', 'unknown', Fraction(0), False))
            measures[name] = 'other'
    for name, pyname, args, expr, eps, known in items:
        out += _DEF.format(pyname=pyname, pyexpr=expr, name=name, args=args, body=f'decide ({expr})' if known else 'false',
                           known='true' if known else 'false', eps=str(eps),
                           num=abs(eps.numerator), den=eps.denominator, neg='true' if eps < 0 else 'false')
    for name, mk in measures.items():
        out += f'/-- the routine behind the measured quantity `m` of `{name}`, as it stands in the source -/\ndef {name}Kind : DecisionKind := .{mk}\n\n'
    out += 'end Numqi.Generated.Thresholds20\n'
    old = open(GEN).read() if os.path.exists(GEN) else None
    if old != out:
        with common.build_lock():
            tmp = GEN + f'.tmp{os.getpid()}'
            with open(tmp, 'w') as fh:
                fh.write(out)
            os.replace(tmp, GEN)   # atomic: a killed run must not leave a half-written generated file (Decision.lean is shared by C05 and C13)
    if ctx is not None:
        ctx.extra['translated'] = {name: dict(expr=expr, zero_eps=str(eps), recognised=known, decision_kind=measures.get(name)) for name, _, _, expr, eps, known in items}
    translate.measures = measures
    translate.known = {name: known for name, _, _, _, _, known in items}
    return items


# ---------------------------------------------------------------------------
# helpers
# ---------------------------------------------------------------------------
def ints(a):
    return ';'.join(str(int(x)) for x in np.asarray(a).reshape(-1))


def ints_g(a):
    return ';'.join(f'{int(round(z.real))},{int(round(z.imag))}' for z in np.asarray(a, dtype=np.complex128).reshape(-1))


def rints(a):
    """integer coding of a float array that must be integral up to rounding"""
    a = np.asarray(a, dtype=np.float64)
    return ints(np.round(a)) if np.abs(a - np.round(a)).max(initial=0) < 1e-8 else 'nonintegral'


def nat_lists(rows):
    return '|'.join(';'.join(str(int(x)) for x in r) for r in rows)


def fbits(x):
    return str(int(np.array(float(x), dtype=np.float64).view(np.uint64)))


def frac(s):
    p, q = s.split('/')
    return Fraction(int(p), int(q))


def guarded(f):
    try:
        return f()
    except AssertionError:
        return 'error:assert'
    except (ValueError, TypeError, IndexError, KeyError) as e:
        return 'error:' + type(e).__name__


class patched:
    """temporarily replace attributes (restored on exit)"""
    def __init__(self, *triples):
        self.triples = triples
        self.old = []

    def __enter__(self):
        for obj, name, new in self.triples:
            self.old.append((obj, name, getattr(obj, name)))
            setattr(obj, name, new)
        return self

    def __exit__(self, *a):
        for obj, name, old in reversed(self.old):
            setattr(obj, name, old)
        return False


class eig_spy:
    """records every matrix handed to the symmetric eigen-solver family of numpy and scipy (`eigvalsh`, `eigh`, and `scipy.linalg.lu`
    for the former LU decision) while the block runs; with `inject=(G, m)` a call whose argument equals `G` BY VALUE is answered with a
    spectrum whose smallest entry is `m` (LU: pivots whose smallest modulus is `m`) — the decision call is identified by what it is given,
    not by its position in the call sequence or by the spelling of the routine"""
    def __init__(self, inject=None, sign=1):
        self.inject = inject
        self.sign = sign
        self.calls = []
        self.hits = 0

    def _match(self, a):
        if self.inject is None:
            return False
        G = self.inject[0]
        a = np.asarray(a)
        return a.shape == G.shape and bool(np.abs(a - G).max(initial=0) <= 1e-9 * max(1.0, np.abs(G).max(initial=0)))

    def __enter__(self):
        import scipy.linalg
        self.saved = []
        spy = self

        def wrap(mod, name, kind):
            orig = getattr(mod, name)

            def f(a, *args, **kw):
                spy.calls.append((kind, np.array(a)))
                if spy._match(a):
                    spy.hits += 1
                    n = np.asarray(a).shape[0]
                    m = spy.inject[1]
                    vals = np.concatenate([[m], 3 + np.arange(n - 1)]).astype(np.float64)
                    if kind == 'lu':
                        return None, None, spy.sign * np.diag(vals)
                    sel = kw.get('subset_by_index', kw.get('eigvals'))
                    if sel is not None:
                        vals_ = vals[sel[0]:sel[1] + 1]
                    else:
                        vals_ = vals
                    if kind == 'eigvalsh' or kw.get('eigvals_only'):
                        return vals_
                    return vals_, np.eye(n)[:, :len(vals_)]
                return orig(a, *args, **kw)
            spy.saved.append((mod, name, orig)); setattr(mod, name, f)
        wrap(np.linalg, 'eigvalsh', 'eigvalsh'); wrap(np.linalg, 'eigh', 'eigh')
        wrap(scipy.linalg, 'eigvalsh', 'eigvalsh'); wrap(scipy.linalg, 'eigh', 'eigh'); wrap(scipy.linalg, 'lu', 'lu')
        return self

    def __exit__(self, *a):
        for mod, name, orig in reversed(self.saved):
            setattr(mod, name, orig)
        return False

    def matrices(self, n):
        """the distinct square matrices of size n that were handed to the family"""
        out = []
        for _, a in self.calls:
            if a.ndim == 2 and a.shape == (n, n) and not any(np.array_equal(a, b) for b in out):
                out.append(a)
        return out


def _gram_tie(ctx, opg, G, mats, key):
    """the decision matrix is tied BY VALUE: among the matrices handed to the eigen-solver family one must be the model's Gram matrix"""
    ctx.count(key)
    if any(m.shape == G.shape and np.abs(m - G).max(initial=0) <= 1e-9 * max(1.0, np.abs(G).max(initial=0)) for m in mats):
        ctx.agree(opg, opg)
    else:
        ctx.disagree(opg[:200], repr(G.tolist())[:300], (repr(mats[0].tolist())[:300] if mats else 'no matrix of that size was handed to eigvalsh / eigh / lu'))


def sorted_patterns(r):
    """all sorted tuples of length r over 0..m-1 using every value (compositions of r), plus shifted/gapped variants"""
    out = []
    for cuts in itertools.product([0, 1], repeat=r - 1):
        t = [0]
        for c in cuts:
            t.append(t[-1] + c)
        out.append(tuple(t))
    return out


def all_patterns(r):
    """all tuples of length r whose set of values is {0..m-1} (set partitions with labelled blocks in order of value)"""
    seen = []
    for t in itertools.product(range(r), repeat=r):
        if set(t) == set(range(len(set(t)))):
            seen.append(t)
    return seen


# ---------------------------------------------------------------------------
# correspondence
# ---------------------------------------------------------------------------
def _table_str(index, value):
    return '|'.join(';'.join(str(int(x)) for x in row) + ':' + str(int(v)) for row, v in zip(index, value))


def tie_tables(ctx):
    from numqi.matrix_space import _hierarchy as H
    ops, impl = [], []
    rmax = 4 if ctx.quick() else 5
    for r in range(1, rmax + 1):
        ops.append(f'C20 aftint {r}')
        impl.append(guarded(lambda: _table_str(*H.permutation_with_antisymmetric_factor(r))))
        for t in all_patterns(r):
            for shift in ((0, 1), (0, 1), (3, 2))[:1 if r == rmax else 3]:
                tt = tuple(shift[0] + shift[1] * x for x in t)
                ops.append('C20 aft ' + ';'.join(map(str, tt)))
                impl.append(guarded(lambda: _table_str(*H.permutation_with_antisymmetric_factor(tt))))
    for r in (6,) if ctx.quick() else (6, 7):
        for _ in range(6):
            tt = tuple(sorted(ctx.rng.randrange(3) for _ in range(r)))
            ops.append('C20 aft ' + ';'.join(map(str, tt)))
            impl.append(guarded(lambda: _table_str(*H.permutation_with_antisymmetric_factor(tt))))
    for d in range(0, 7):
        for r in range(1, 6):
            if d >= 1 or True:
                ops.append(f'C20 asidx {d} {r}')
                impl.append(guarded(lambda: nat_lists(np.asarray(H.get_antisymmetric_basis_index(d, r)[2]).T.reshape(-1, r))) if d >= 0 else '')
            if d >= 1 and r <= 4:
                ops.append(f'C20 symidx {d} {r}')
                impl.append(guarded(lambda: nat_lists(np.asarray(H.get_symmetric_basis_index(d, r)[2]).T.reshape(-1, r))))
    # get_antisymmetric_basis_index with a tuple argument: the index table only depends on the length
    for tt in [(0, 0), (0, 1, 1), (2, 2, 2), (0, 1, 1, 2)]:
        for d in (3, 5):
            ops.append(f'C20 asidx {d} {len(tt)}')
            impl.append(guarded(lambda: nat_lists(np.asarray(H.get_antisymmetric_basis_index(d, tt)[2]).T.reshape(-1, len(tt)))))
    # pvalue of the symmetric index: pvalue*len(pindex) = sqrt(r!/prod(count!))
    for d, r in [(2, 2), (3, 2), (3, 3), (2, 4), (4, 3)]:
        pindex, pvalue, index = H.get_symmetric_basis_index(d, r)
        for col, pv in zip(index.T, pvalue):
            ops.append('C20 symcnt ' + ';'.join(str(int(x)) for x in col))
            q = math.factorial(r) / (pv * len(pindex)) ** 2
            impl.append(str(int(round(q))) if abs(q - round(q)) < 1e-9 else 'nonintegral')
    for l in ([0], [0, 1], [2, 5, 7], [0, 1, 2, 3], [1, 3, 4, 6, 9]):
        ops.append('C20 perms ' + ';'.join(map(str, l)))
        impl.append(nat_lists(list(itertools.permutations(l))))
    model = common.run_model(ops)
    common.compare(ctx, ops, impl, model)
    ctx.extra['exhaustive'] = True
    ctx.extra['exhaustive_domain'] = f'permutation_with_antisymmetric_factor on every tuple pattern of length <= {rmax}; basis index tables dims 0..6, r 1..5'


def tie_projection(ctx):
    """tensor2d_project_to_antisym_basis on integer matrices, times r!, against the model's exact integers"""
    from numqi.matrix_space import _hierarchy as H
    rng = np.random.default_rng(ctx.np_seed)
    ops, impl = [], []
    rmax = 3 if ctx.quick() else 4
    for r in range(1, rmax + 1):
        for pat in sorted_patterns(r):
            for dA, dB in ([(r, r), (r + 1, r), (r + 1, r + 2)] if r < 4 else [(4, 4), (5, 4)]):
                N = max(pat) + 1 + int(rng.integers(0, 2))
                mats = rng.integers(-3, 4, size=(N, dA, dB))
                # relabel the pattern into a random increasing subset of range(N)
                lab = sorted(rng.choice(N, size=max(pat) + 1, replace=False).tolist())
                idx = [lab[p] for p in pat]
                ops.append(f'C20 proj {dA} {dB} {";".join(map(str, idx))} {ints(mats)}')

                def f():
                    out = H.tensor2d_project_to_antisym_basis([x.astype(np.float64) for x in mats], idx) * math.factorial(r)
                    out = np.asarray(out).reshape(-1)
                    rr = np.round(out)
                    if np.abs(out - rr).max(initial=0) > 1e-9 * max(1.0, np.abs(out).max(initial=0)):
                        return 'nonintegral:' + repr(out.tolist())
                    return ints(rr)
                impl.append(guarded(f))
    # INDEX=None (all distinct) and unsorted INDEX
    for r, dA, dB, idx in [(2, 3, 3, None), (3, 3, 4, None), (2, 2, 3, [1, 0]), (3, 3, 3, [2, 0, 1]), (3, 4, 3, [1, 0, 1])]:
        N = r if idx is None else max(idx) + 1
        mats = rng.integers(-3, 4, size=(N, dA, dB))
        jdx = list(range(r)) if idx is None else idx
        ops.append(f'C20 proj {dA} {dB} {";".join(map(str, jdx))} {ints(mats)}')
        impl.append(guarded(lambda: ints(np.round(H.tensor2d_project_to_antisym_basis([x.astype(np.float64) for x in mats], idx) * math.factorial(r)))))
    # the call sequence of has_rank_hierarchical_method: which sub-tuples are antisymmetrised, in order
    for N, rank, k, dA, dB in ([(2, 2, 1, 2, 2), (3, 2, 2, 2, 3), (2, 3, 1, 3, 3), (2, 2, 3, 2, 2), (3, 3, 2, 3, 3)] if ctx.quick()
                               else [(2, 2, 1, 2, 2), (3, 2, 2, 2, 3), (2, 3, 1, 3, 3), (2, 2, 3, 2, 2), (3, 3, 2, 3, 3), (4, 2, 2, 3, 3), (2, 4, 1, 4, 4), (3, 3, 3, 3, 3)]):
        calls = []
        orig = H.tensor2d_project_to_antisym_basis

        def rec(np_list, INDEX=None):
            calls.append([int(x) for x in INDEX])
            return orig(np_list, INDEX)
        q = np.linalg.qr(rng.normal(size=(dA * dB, N)))[0].T.reshape(N, dA, dB)
        with patched((H, 'tensor2d_project_to_antisym_basis', rec)):
            res = guarded(lambda: H.has_rank_hierarchical_method(q, rank, hierarchy_k=k, return_info=True))
        ops.append(f'C20 hidx {N} {rank} {k}')
        if isinstance(res, str):
            impl.append(res)
        else:
            impl.append(nat_lists(calls))
            # number of vectors = number of multi-indices
            n_vec = res[1].shape[0]
            if n_vec != math.comb(N + rank - 1 + k - 1, rank - 1 + k):
                ctx.disagree(f'C20 hidx-count {N} {rank} {k}', str(math.comb(N + rank - 1 + k - 1, rank - 1 + k)), str(n_vec))
    model = common.run_model(ops)
    common.compare(ctx, ops, impl, model)


def _struct_inputs(rng, cls, n1, n2, N0):
    """integer generators of a structure class (field, array)"""
    def sym(a):
        return a + a.transpose(0, 2, 1)
    if cls == 'R_T':
        return 'real', sym(rng.integers(-3, 4, size=(N0, n1, n1))).astype(np.float64)
    if cls == 'C_T(real)':
        return 'complex', sym(rng.integers(-3, 4, size=(N0, n1, n1))).astype(np.float64)
    if cls == 'R':
        return 'real', rng.integers(-3, 4, size=(N0, n1, n2)).astype(np.float64)
    if cls == 'C(real)':
        return 'complex', rng.integers(-3, 4, size=(N0, n1, n2)).astype(np.float64)
    z = rng.integers(-3, 4, size=(N0, n1, n2)) + 1j * rng.integers(-3, 4, size=(N0, n1, n2))
    zs = rng.integers(-3, 4, size=(N0, n1, n1)) + 1j * rng.integers(-3, 4, size=(N0, n1, n1))
    if cls == 'C_H':
        return 'real', zs + zs.transpose(0, 2, 1).conj()
    if cls == 'R_cT':
        return 'real', zs + zs.transpose(0, 2, 1)
    if cls == 'R_c':
        return 'real', z
    if cls == 'C_T':
        return 'complex', zs + zs.transpose(0, 2, 1)
    if cls == 'C':
        return 'complex', z
    raise KeyError(cls)


def _flags(np0, field):
    sq = np0.shape[1] == np0.shape[2]
    return [int(np.iscomplexobj(np0)), int(field == 'real'),
            int(sq and np.array_equal(np0, np0.transpose(0, 2, 1))),
            int(sq and np.array_equal(np0, -np0.transpose(0, 2, 1))),
            int(sq and np.array_equal(np0, np0.transpose(0, 2, 1).conj()))]


def tie_structure(ctx):
    """get_matrix_orthogonal_basis: branch selection and every index shuffle, with svd/eigh helpers replaced by
    integer-valued stand-ins so that the shuffles are compared exactly"""
    import numqi
    from numqi.matrix_space import _misc as M
    from numqi.gellmann import matrix_to_gellmann_basis as m2g, gellmann_basis_to_matrix as g2m
    rng = np.random.default_rng(ctx.np_seed + 1)
    dims = [1, 2, 3, 4] if ctx.quick() else [1, 2, 3, 4, 5, 6]
    classes = ['R_T', 'C_T(real)', 'R', 'C(real)', 'C_H', 'R_cT', 'R_c', 'C_T', 'C']
    for cls in classes:
        for n1 in dims:
            for n2 in (dims if cls in ('R', 'C(real)', 'R_c', 'C') else [n1]):
                if n1 == 1 and (n2 == 1 or cls in ('R_T', 'C_T(real)', 'C_H', 'R_cT', 'C_T')):
                    continue  # 1x1 input is symmetric and `np.abs(aA).max()` raises on the empty block: outside the property's range (dims 2..5)
                N0 = int(rng.integers(1, 4))
                field, np0 = _struct_inputs(rng, cls, n1, n2, N0)
                cap = []
                state = {}

                def fake_reduce(x, zero_eps=1e-10):
                    cap.append(np.array(x))
                    L = x.shape[1]
                    kb = int(rng.integers(1, 3))
                    dt = x.dtype
                    fb = rng.integers(-3, 4, size=(kb, L)).astype(np.float64)
                    if np.iscomplexobj(x):
                        fb = fb + 1j * rng.integers(-3, 4, size=(kb, L))
                    state['fb'] = fb
                    return fb

                def fake_orth(x, tag_reduce=True, zero_eps=1e-10):
                    L = x.shape[1]
                    ko = int(rng.integers(0, 3))
                    fo = rng.integers(-3, 4, size=(ko, L)).astype(np.float64)
                    if np.iscomplexobj(x):
                        fo = fo + 1j * rng.integers(-3, 4, size=(ko, L))
                    state['fo'] = fo
                    return fo
                with patched((M, 'reduce_vector_space', fake_reduce), (M, 'get_vector_orthogonal_basis', fake_orth)):
                    res = guarded(lambda: M.get_matrix_orthogonal_basis(np0, field))
                fl = _flags(np0, field)
                op = 'C20 classify ' + ' '.join(map(str, fl))
                mo = common.run_model([op])[0]
                ctx.count('classify')
                if isinstance(res, str):
                    (ctx.agree if mo == res else (lambda *_: ctx.disagree(op, mo, res)))(op, op)
                    continue
                b, bo, ch = res
                if mo != ch:
                    ctx.disagree(op, mo, ch); continue
                ctx.agree(op, (op, n1, n2))
                ctx.count('class-' + ch)
                X = cap[0]
                mcl = common.run_model([f'C20 coordlen {ch} {n1} {n2}'])[0]
                if mcl != str(X.shape[1]):
                    ctx.disagree(f'C20 coordlen {ch} {n1} {n2}', mcl, str(X.shape[1]))
                else:
                    ctx.agree('coordlen', ('coordlen', ch, n1, n2))
                _tie_shuffles(ctx, ch, n1, n2, np0, X, state['fb'], state['fo'], b, bo, m2g, g2m)
    # the real anti-symmetric branch raises
    for n in (2, 3):
        a = rng.integers(-3, 4, size=(2, n, n)); a = (a - a.transpose(0, 2, 1)).astype(np.float64)
        if not a.any():
            continue
        res = guarded(lambda: M.get_matrix_orthogonal_basis(a, 'real'))
        op = 'C20 classify ' + ' '.join(map(str, _flags(a, 'real')))
        mo = common.run_model([op])[0]
        ctx.count('classify')
        if (res if isinstance(res, str) else res[2]) == mo:
            ctx.agree(op, op)
        else:
            ctx.disagree(op, mo, res if isinstance(res, str) else res[2])
    # complement size for a rank-k reduced basis: EVC[:, N0:]
    ops, impl = [], []
    for L in range(1, 7):
        for k in range(1, L + 1):   # k = 0 (empty basis) is rejected by the orthonormality assert
            q = np.linalg.qr(rng.normal(size=(L, L)))[0][:k]
            ops.append(f'C20 compl {L} {k}')
            impl.append(guarded(lambda: str(M.get_vector_orthogonal_basis(q, tag_reduce=False).shape[0])))
    model = common.run_model(ops)
    common.compare(ctx, ops, impl, model)


def _model_ints(op):
    return [int(x) for x in common.run_model([op])[0].split(';')] if True else None


def _tie_shuffles(ctx, ch, n1, n2, np0, X, fb, fo, b, bo, m2g, g2m):
    """compare the captured coordinate matrix X and the returned arrays with the model's shuffles.
    Position probing: the model is run on index codes, the resulting positions are applied to the float arrays,
    so that the comparison is bit-for-bit although Gell-Mann coefficients are irrational."""
    key = ('shuffle', ch, n1, n2)

    def check(tag, ok, what_model, what_impl):
        ctx.count('shuffle-' + tag)
        if ok:
            ctx.agree(tag, key + (tag,))
        else:
            ctx.disagree(f'C20 shuffle {tag} {ch} {n1} {n2}', what_model, what_impl)
    if ch in ('R', 'C'):
        check('reshape-in', np.array_equal(X, np0.reshape(np0.shape[0], -1)), 'row-major reshape', 'differs')
        check('reshape-out', np.array_equal(b, fb.reshape(-1, n1, n2)) and np.array_equal(bo, fo.reshape(-1, n1, n2)), 'row-major reshape', 'differs')
        return
    if ch == 'C_H':
        check('ch-in', np.array_equal(X, m2g(np0).real), 'gellmann coords (real part)', 'differs')
        check('ch-out', np.array_equal(b, g2m(fb)) and np.array_equal(bo, g2m(fo)), 'gellmann synthesis', 'differs')
        return
    n = n1
    if ch in ('R_T', 'C_T'):
        pos = _model_ints('C20 symsel %d %s' % (n, ';'.join(map(str, range(n * n)))))
        g = m2g(np0)
        if ch == 'R_T' or not np.iscomplexobj(np0):
            g = g.real
        check('symsel', X.shape[1] == len(pos) and np.array_equal(X, g[:, pos]), str(pos), 'captured coordinate matrix differs')
        for fx, out in ((fb, b), (fo, bo)):
            L = fx.shape[1]
            emb = _model_ints('C20 symemb %d %s' % (n, ';'.join(map(str, range(1, L + 1)))))   # 0 = zero block, c>0 = x[c-1]
            tmp3 = np.zeros((fx.shape[0], len(emb)), dtype=fx.dtype)
            for j, c in enumerate(emb):
                if c > 0:
                    tmp3[:, j] = fx[:, c - 1]
            want = g2m(tmp3) if fx.shape[0] else np.zeros((0, n, n))
            if not np.iscomplexobj(np0):
                want = want.real
            check('symemb', out.shape == want.shape and np.array_equal(out, want), str(emb), 'returned basis differs')
        return
    if ch == 'R_cT':
        pos = _model_ints('C20 rctstack %d %s %s' % (n, ';'.join(map(str, range(n * n))), ';'.join(map(str, range(n * n, 2 * n * n)))))
        g = m2g(np0)
        gg = np.concatenate([g.real, g.imag], axis=1)
        check('rctstack', X.shape[1] == len(pos) and np.array_equal(X, gg[:, pos]), str(pos), 'captured coordinate matrix differs')
        for fx, out in ((fb, b), (fo, bo)):
            L = fx.shape[1]
            mo = common.run_model(['C20 rctunstack %d %s' % (n, ';'.join(map(str, range(1, L + 1))))])[0]
            er, ei = [[int(x) for x in part.split(';')] for part in mo.split('|')]
            tr = np.zeros((fx.shape[0], len(er))); ti = np.zeros((fx.shape[0], len(ei)))
            for j, c in enumerate(er):
                if c > 0: tr[:, j] = fx[:, c - 1]
            for j, c in enumerate(ei):
                if c > 0: ti[:, j] = fx[:, c - 1]
            mat = g2m(tr + 1j * ti) if fx.shape[0] else np.zeros((0, n, n), dtype=np.complex128)
            codes_r = np.arange(1, n * n + 1); codes_i = np.arange(n * n + 1, 2 * n * n + 1)
            blk = np.array(_model_ints('C20 block %d %d %s %s' % (n, n, ints(codes_r), ints(codes_i)))).reshape(2 * n, 2 * n)
            want = np.zeros((mat.shape[0], 2 * n, 2 * n))
            for k in range(mat.shape[0]):
                src = np.concatenate([mat[k].real.reshape(-1), mat[k].imag.reshape(-1)])
                want[k] = np.sign(blk) * src[np.abs(blk) - 1]
            # -0.0 vs 0.0: array_equal treats them as equal
            check('rctunstack+block', out.shape == want.shape and np.array_equal(out, want), mo, 'returned basis differs')
        return
    if ch == 'R_c':
        ops, impl = [], []
        for k in range(np0.shape[0]):
            ops.append(f'C20 rcflat {n1} {n2} {ints(np0[k].real)} {ints(np0[k].imag)}')
            impl.append(ints(X[k]) if X.shape[1] == 2 * n1 * n2 else 'shape')
        for fx, out in ((fb, b), (fo, bo)):
            for k in range(fx.shape[0]):
                ops.append(f'C20 rcblock {n1} {n2} {ints(fx[k])}')
                impl.append(ints(out[k]) if out.shape[1:] == (2 * n1, 2 * n2) else 'shape')
        model = common.run_model(ops)
        common.compare(ctx, ops, impl, model)
        return
    check('unknown-class', False, 'one of the seven classes', ch)


def tie_bipartite(ctx):
    """projector, partial transpose and p-mixture of detect_real_matrix_subspace_rank_one / get_real_bipartite_numerical_range"""
    import scipy.optimize, scipy.sparse.linalg
    from numqi.matrix_space import _numerical_range as NR
    rng = np.random.default_rng(ctx.np_seed + 2)
    ops, impl = [], []
    for dA, dB in [(1, 2), (2, 2), (2, 3), (3, 2), (3, 3)] + ([] if ctx.quick() else [(2, 4), (4, 3)]):
        K = int(rng.integers(1, 4))
        basis = rng.integers(-3, 4, size=(K, dA, dB)).astype(np.float64)
        cap = {}

        def fake_range(mat, kind='min', method='eigen'):
            cap['proj'] = np.array(mat); cap['kind'] = kind
            return 0.5
        with patched((NR, 'get_matrix_orthogonal_basis', lambda ms, field, zero_eps=1e-10: (basis, None, 'R')),
                     (NR, 'get_real_bipartite_numerical_range', fake_range)):
            res = guarded(lambda: NR.detect_real_matrix_subspace_rank_one(rng.normal(size=(K, dA, dB))))
        ops.append(f'C20 projector {K} {dA} {dB} {ints(basis)}')
        impl.append(res if isinstance(res, str) else (ints(cap['proj']) if cap['proj'].shape == (dA, dB, dA, dB) and cap['kind'] == 'max' else 'shape/kind'))
        # p-mixture handed to the eigen-solver, for chosen p (optimiser replaced by a fixed list of evaluation points)
        mat = rng.integers(-3, 4, size=(dA * dB, dA * dB)); mat = (mat + mat.T).astype(np.float64).reshape(dA, dB, dA, dB)
        ps = [0.0, 1.0, 0.25, -1.5, 0.3, 0.7310585786300049]
        seen = []

        def fake_min(hf0, *a, **kw):
            vals = [hf0(p) for p in ps]
            class R: pass
            r = R(); r.fun = min(vals); r.x = ps[int(np.argmin(vals))]
            return r
        ev0, es0 = np.linalg.eigvalsh, scipy.sparse.linalg.eigsh

        def cap_eigvalsh(m, *a, **kw):
            seen.append(np.array(m)); return ev0(m, *a, **kw)

        def cap_eigsh(m, *a, **kw):
            seen.append(np.array(m)); return es0(m, *a, **kw)
        for kind in ('max', 'min'):
            seen.clear()
            with patched((scipy.optimize, 'minimize_scalar', fake_min), (np.linalg, 'eigvalsh', cap_eigvalsh), (scipy.sparse.linalg, 'eigsh', cap_eigsh)):
                res = guarded(lambda: NR.get_real_bipartite_numerical_range(mat, kind=kind))
            if isinstance(res, str) or len(seen) != len(ps):
                ctx.disagree(f'C20 mixpt-call {dA} {dB} {kind}', f'{len(ps)} eigen-solver calls', str(res) if isinstance(res, str) else f'{len(seen)} calls')
                continue
            # p = 0: the partial transpose itself, exactly
            ops.append(f'C20 ptb {dA} {dB} {ints(mat)}'); impl.append(ints(seen[0]))
            mo = common.run_model([f'C20 mixpt {dA} {dB} {fbits(p)} {ints(mat)}' for p in ps])
            for p, got, line in zip(ps, seen, mo):
                want = np.array([float(frac(x)) for x in line.split(';')]).reshape(got.shape)
                ctx.count('mixpt')
                if np.abs(got - want).max() <= 1e-12:
                    ctx.agree('mixpt', ('mixpt', dA, dB, p, kind))
                else:
                    ctx.disagree(f'C20 mixpt {dA} {dB} {fbits(p)} {ints(mat)}', line, ints(got) if p in (0.0, 1.0) else repr(got.tolist()))
    model = common.run_model(ops)
    common.compare(ctx, ops, impl, model)


def tie_numrange(ctx):
    """the Hermitian part handed to the eigen-solver by get_matrix_numerical_range(_along_direction)"""
    import scipy.linalg, scipy.sparse.linalg, scipy.optimize
    from numqi.matrix_space import _numerical_range as NR
    rng = np.random.default_rng(ctx.np_seed + 3)
    eh0, es0 = scipy.linalg.eigh, scipy.sparse.linalg.eigsh
    for n in ([2, 3, 4, 5, 6] if ctx.quick() else [2, 3, 4, 5, 6, 7, 8]):
        A = rng.integers(-3, 4, size=(n, n)) + 1j * rng.integers(-3, 4, size=(n, n))
        seen = []

        def cap_eigh(m, *a, **kw):
            seen.append(np.array(m)); return eh0(m, *a, **kw)

        def cap_eigsh(m, *a, **kw):
            seen.append(np.array(m)); return es0(m, *a, **kw)
        num = 7
        with patched((scipy.linalg, 'eigh', cap_eigh), (scipy.sparse.linalg, 'eigsh', cap_eigsh)):
            res = guarded(lambda: NR.get_matrix_numerical_range(A, num_point=num))
        thetas = list(np.linspace(0, 2 * np.pi, num))
        if isinstance(res, str) or len(seen) != num:
            ctx.disagree(f'C20 herm-call {n}', f'{num} eigen-solver calls', str(res) if isinstance(res, str) else f'{len(seen)} calls')
            continue
        # along a direction: three bracket evaluations at known angles, then the root
        alpha = float(rng.uniform(0, 2 * np.pi))
        seen2 = []

        def cap2(m, *a, **kw):
            seen2.append(np.array(m)); return es0(m, *a, **kw)
        root = {}
        rs0 = scipy.optimize.root_scalar

        def cap_root(f, *a, **kw):
            r = rs0(f, *a, **kw); root['n'] = len(seen2); root['x'] = r.root; return r
        if n >= 3:  # eigsh(k=1) needs n >= 3
            with patched((scipy.sparse.linalg, 'eigsh', cap2), (scipy.optimize, 'root_scalar', cap_root)):
                res2 = guarded(lambda: NR.get_matrix_numerical_range_along_direction(A, alpha, kind='max'))
            if not isinstance(res2, str):
                am = np.mod(alpha, 2 * np.pi)
                thetas2 = [(-am) + x for x in (-np.pi / 2, 0, np.pi / 2)] + [root['x']]
                mats2 = seen2[:3] + [seen2[-1]]
                thetas += thetas2; seen += mats2
        ws = [np.exp(1j * t) / 2 for t in thetas]
        ops = [f'C20 herm {n} {fbits(w.real)} {fbits(w.imag)} ' + ';'.join(f'{int(z.real)},{int(z.imag)}' for z in A.reshape(-1)) for w in ws]
        mo = common.run_model(ops)
        for op, line, got in zip(ops, mo, seen):
            want = np.array([float(frac(x.split(',')[0])) + 1j * float(frac(x.split(',')[1])) for x in line.split(';')]).reshape(n, n)
            ctx.count('herm')
            if got.shape == want.shape and np.abs(got - want).max() <= 1e-12:
                ctx.agree(op, op)
            else:
                ctx.disagree(op, line[:300], repr(np.asarray(got).tolist())[:300])


def tie_decisions(ctx):
    """both sides of every certificate threshold, with the measured quantity injected"""
    import inspect
    import scipy.linalg
    from numqi.matrix_space import _numerical_range as NR, _hierarchy as H, _misc as M
    rng = np.random.default_rng(ctx.np_seed + 4)
    ops, impl = [], []
    sub = np.stack([np.eye(2), np.array([[0, 1.0], [1, 0]])])
    # --- detect_real_matrix_subspace_rank_one: upper_bound vs 1 - zero_eps
    prm = inspect.signature(NR.detect_real_matrix_subspace_rank_one).parameters.get('zero_eps')
    d = prm.default if (prm is not None and isinstance(prm.default, (int, float))) else 0.0      # keyword absent: no slack
    ops.append('C20 certdefault rankone'); impl.append(f'{Fraction(repr(d)).numerator}/{Fraction(repr(d)).denominator}')
    for eps in ([d, 1e-3, 0.25, 1e-12] if prm is not None else [d]):
        th = 1 - eps
        for ub in [th * (1 - 1e-9), th * (1 + 1e-9), th - 1e-3, th + 1e-3, 1.0, 1 - 1e-16, 1 + 1e-9, 0.5, 0.0, 1.5, float(rng.uniform(0, 2))]:
            with patched((NR, 'get_real_bipartite_numerical_range', lambda mat, kind='min', method='eigen': ub)):
                res = guarded(lambda: NR.detect_real_matrix_subspace_rank_one(sub, zero_eps=eps) if eps != d else NR.detect_real_matrix_subspace_rank_one(sub))
            ops.append(f'C20 cert rankone {fbits(ub)} {fbits(eps)}')
            impl.append(res if isinstance(res, str) else str(int(not res[0])))
    # --- Gram-matrix certificates: measured quantity vs zero_eps (no arithmetic on either side: exact, boundary included).
    # Integer generators, so that the model knows the Gram matrix the decision is taken on; the measured quantity is injected into
    # whichever routine of the eigvalsh / eigh / lu family (numpy or scipy) is handed THAT matrix — independent of the number and order of
    # other eigen-solver calls (independence assert, …) and of the spelling `[0]` / `.min()` / scipy.  No matching call: reported.
    g2 = np.array([[[1, 0], [0, 1]], [[0, 1], [1, 1]]])
    g3 = rng.integers(-2, 3, size=(2, 2, 2, 2))
    while np.linalg.matrix_rank(g3.reshape(2, -1)) < 2:
        g3 = rng.integers(-2, 3, size=(2, 2, 2, 2))
    al2 = list(itertools.combinations_with_replacement(range(2), 2))
    mo = common.run_model([f'C20 hvec 2 2 2 2 {";".join(map(str, al))} {ints(g2)}' for al in al2]
                          + [f'C20 abcvec 2 2 2 {ints_g(g3[i])} {ints_g(g3[j])}' for i, j in al2])
    try:
        V2 = np.stack([_code_vector_from_model([int(x) for x in line.split(';')], 2, 2, 2, 2, 2) for line in mo[:3]])
        V3 = np.stack([np.array([complex(int(e.split(',')[0]), int(e.split(',')[1])) for e in line.split(';')]) / 4 for line in mo[3:]])
        grams = {'hierarchy': V2 @ V2.T, 'abc': V3 @ V3.conj().T}
    except Exception:
        grams = {}
    q2f = g2.astype(np.float64)
    grams['lu'] = q2f.reshape(2, -1) @ q2f.reshape(2, -1).T
    for which, fn, call in (('hierarchy', H.has_rank_hierarchical_method, lambda e: H.has_rank_hierarchical_method(q2f, 2, **e)),
                            ('abc', H.is_ABC_completely_entangled_subspace, lambda e: H.is_ABC_completely_entangled_subspace([x.astype(np.complex128) for x in g3], **e)),
                            ('lu', M.is_vector_linear_independent, lambda e: M.is_vector_linear_independent(q2f, 'real', **e))):
        prm = inspect.signature(fn).parameters.get('zero_eps')
        d = prm.default if (prm is not None and isinstance(prm.default, (int, float))) else 0.0
        if which != 'lu':
            ops.append(f'C20 certdefault {which}'); impl.append(f'{Fraction(repr(d)).numerator}/{Fraction(repr(d)).denominator}')
        for eps in [d, 1e-3, 0.0, 1e-12]:
            for m in [eps, eps * (1 + 1e-9), eps * (1 - 1e-9), np.nextafter(eps, 1), 0.0, 1e-16, 1.0, 2.5, float(rng.uniform(0, 2 * eps + 1e-8))]:
                ops.append(f'C20 cert {which} {fbits(m)} {fbits(eps)}')
                if which not in grams:
                    impl.append('model-gram-unavailable'); continue
                with eig_spy(inject=(grams[which], m), sign=-1 if rng.integers(0, 2) else 1) as spy:
                    res = guarded(lambda: call({} if eps == d else dict(zero_eps=eps)))
                if spy.hits == 0 and not isinstance(res, str):
                    impl.append('decision-routine-not-recognised')      # nothing of the eigvalsh / eigh / lu family was given the Gram matrix
                else:
                    impl.append(res if isinstance(res, str) else str(int(bool(res))))
    # --- reduce_vector_space: number of singular values kept
    for L in (1, 2, 4):
        for eps in (1e-10, 1e-3):
            S = np.sort(np.concatenate([rng.uniform(0, 2, size=L), [eps, eps * (1 + 1e-9), 0.0]]))[::-1].copy()
            with patched((np.linalg, 'svd', lambda a, full_matrices=False: (None, S, np.eye(len(S))))):
                res = guarded(lambda: M.reduce_vector_space(np.zeros((len(S), len(S))), eps))
            ops.append(f'C20 kept {fbits(eps)} ' + ';'.join(fbits(s) for s in S))
            impl.append(res if isinstance(res, str) else str(res.shape[0]))
    model = common.run_model(ops)
    common.compare(ctx, ops, impl, model, key=lambda op: ' '.join(op.split(' ')[1:3]) if op.split(' ')[1] in ('cert', 'certdefault') else op.split(' ')[1])


def _cnt_fact(K):
    import collections
    return math.prod(math.factorial(v) for v in collections.Counter(K).values())


def _code_vector_from_model(hv, N, dA, dB, q, n):
    """the vector has_rank_hierarchical_method builds for one multi-index, from the model's scaled integer vector:
    factor/q! uniformly, and sqrt(s!/prod count(K)!)/s! on the symmetric index K (no weight for k=1 and for the N=1 shortcut)"""
    s_ = n - q
    nx = math.comb(dA, q) * math.comb(dB, q)
    if s_ == 0:
        keys = [()]
    elif N == 1:
        keys = [(j,) for j in range(dA * dB)]
    else:
        keys = list(itertools.combinations_with_replacement(range(dA * dB), s_))
    w = np.array([1.0 if (s_ == 0 or N == 1) else math.sqrt(math.factorial(s_) / _cnt_fact(K)) / math.factorial(s_) for K in keys])
    factor = 1 / math.comb(n, q)
    return (np.asarray(hv, dtype=np.float64).reshape(nx, len(keys)) * w * (factor / math.factorial(q))).reshape(-1)


def tie_level_k(ctx):
    """hierarchy levels k >= 1: the symmetric factor, the per-sub-tuple pieces and the Gram matrix of has_rank_hierarchical_method
    on integer generators against the model's exact integer vectors"""
    from numqi.matrix_space import _hierarchy as H
    rng = np.random.default_rng(ctx.np_seed + 5)
    # (dA, dB, N, rank, k)
    cfg = [(2, 2, 2, 2, 2), (2, 3, 3, 2, 2), (2, 2, 2, 2, 3), (3, 3, 2, 3, 2), (2, 2, 1, 2, 3), (2, 2, 3, 2, 1), (3, 3, 1, 3, 2), (2, 2, 2, 2, 4), (2, 2, 2, 2, 5)]
    if not ctx.quick():
        cfg += [(3, 3, 3, 2, 3), (3, 4, 3, 3, 2), (3, 3, 2, 3, 3), (2, 3, 2, 2, 4), (4, 4, 2, 4, 2), (3, 3, 3, 3, 2)]
    for dA, dB, N, rank, k in cfg:
        q, n = rank, rank - 1 + k
        for attempt in range(5):
            mats = rng.integers(-2, 3, size=(N, dA, dB))
            g = mats.reshape(N, -1) @ mats.reshape(N, -1).T
            if np.linalg.eigvalsh(g.astype(float))[0] > 0.5:
                break
        else:
            continue
        np_list = [x.astype(np.float64) for x in mats]
        alphas = list(itertools.combinations_with_replacement(range(N), n))
        # --- the pieces: tensor2d_project_to_sym_antisym_basis (antisymmetric part per sub-tuple, symmetric part of the rest)
        for al in alphas[:6] + alphas[-3:]:
            res = guarded(lambda: H.tensor2d_project_to_sym_antisym_basis(np_list, rank - 1, list(al)))
            subs = list(itertools.combinations(range(n), q))
            ops, want = [], []
            for j, sub in enumerate(subs):
                rest = [x for x in range(n) if x not in sub]
                ia = [al[x] for x in sub]
                ops.append(f'C20 proj {dA} {dB} {";".join(map(str, ia))} {ints(mats)}')
                fac = 1.0 if k == 1 else 1 / math.comb(n, q)
                want.append(None if isinstance(res, str) else np.asarray(res[0])[:, :, j].reshape(-1) * math.factorial(q) / fac)
                if rest:
                    isym = [al[x] for x in rest]
                    ops.append(f'C20 sympart {dA} {dB} {N} {";".join(map(str, isym))} {ints(mats)}')
                    if isinstance(res, str):
                        want.append(None)
                    else:
                        col = np.asarray(res[1])[:, j]
                        if N == 1:
                            want.append(col)
                        else:
                            keys = list(itertools.combinations_with_replacement(range(dA * dB), len(rest)))
                            want.append(col * np.array([math.sqrt(math.factorial(len(rest)) * _cnt_fact(K)) for K in keys]) if len(col) == len(keys) else None)
            mo = common.run_model(ops)
            for op, line, w in zip(ops, mo, want):
                ctx.count('level-k-' + op.split(' ')[1])
                if w is None:
                    ctx.disagree(op, line[:200], res if isinstance(res, str) else 'shape'); continue
                mv = np.array([int(x) for x in line.split(';')]) if line and line != 'bad-op' else np.zeros(0)
                if mv.shape == w.shape and np.abs(mv - w).max(initial=0) <= 1e-9 * max(1.0, np.abs(mv).max(initial=0)):
                    ctx.agree(op, op)
                else:
                    ctx.disagree(op, line[:200], repr(np.asarray(w).tolist())[:200])
        # --- the Gram matrix of the whole family: the matrix the decision routine is handed (captured by value from the eigvalsh / eigh / lu
        #     family, numpy or scipy), and — as an extra — the one returned with return_info=True
        with eig_spy() as spy:
            res0 = guarded(lambda: H.has_rank_hierarchical_method(np.stack(np_list), rank, hierarchy_k=k))
        res = guarded(lambda: H.has_rank_hierarchical_method(np.stack(np_list), rank, hierarchy_k=k, return_info=True))
        ops = [f'C20 hvec {dA} {dB} {N} {q} {";".join(map(str, al))} {ints(mats)}' for al in alphas]
        mo = common.run_model(ops)
        opg = f'C20 hvec-gram {dA} {dB} {N} {rank} {k} {ints(mats)}'
        if isinstance(res0, str) or any(x == 'bad-op' for x in mo):
            ctx.count('level-k-gram'); ctx.disagree(opg, mo[0][:100], str(res0)[:100]); continue
        V = np.stack([_code_vector_from_model([int(x) for x in line.split(';')], N, dA, dB, q, n) for line in mo])
        G = V @ V.T
        _gram_tie(ctx, opg, G, spy.matrices(len(alphas)), 'level-k-gram')
        ctx.count('level-k-gram-info')
        got = None if isinstance(res, str) or not isinstance(res, tuple) else np.asarray(res[1])
        if got is not None and got.shape == G.shape and np.abs(got - G).max() <= 1e-9 * max(1.0, np.abs(G).max()):
            ctx.agree(opg + ' [return_info]', opg + ' [return_info]')
        else:
            ctx.disagree(opg[:200] + ' [return_info]', repr(G.tolist())[:300], repr(res)[:300])


def _spy_contractions(H, calls):
    """optional structural capture: wrap opt_einsum.contract_expression (the two cuts) and project_to_symmetric_basis (symmetric factor)"""
    oe = getattr(H, 'opt_einsum', None)
    orig_ce, orig_ps = getattr(oe, 'contract_expression', None), getattr(H, 'project_to_symmetric_basis', None)

    def fake_ce(*a, **kw):
        expr = orig_ce(*a, **kw)

        def run(x, y, *rest, **kw2):
            out = expr(x, y, *rest, **kw2)
            calls.append(('cut', np.array(out).reshape(-1), np.array(x), np.array(y)))
            return out
        return run

    def fake_ps(vecs, idx=None, *a, **kw):
        out = orig_ps(vecs, idx, *a, **kw)
        calls.append(('sym', np.array(out).reshape(-1), None if idx is None else list(idx)))
        return out
    return patched(*([(oe, 'contract_expression', fake_ce)] if orig_ce is not None else []), *([(H, 'project_to_symmetric_basis', fake_ps)] if orig_ps is not None else []))


def tie_tripartite(ctx):
    """is_ABC_completely_entangled_subspace at level 1 on Gaussian-integer tensors, dimA != dimB != dimC.  Primary tie (by value): the
    matrix handed to the eigen-solver family is the Gram matrix of the model's vectors (op abcvec).  Extra, only when the call structure is
    the one of the current source (two contraction expressions per pair): the matricisations handed to the contractions and the sum of the
    two cut outputs — skipped with a count, not failed, otherwise."""
    from numqi.matrix_space import _hierarchy as H
    rng = np.random.default_rng(ctx.np_seed + 6)
    for dA, dB, dC in ([(2, 3, 2), (3, 2, 2), (2, 3, 4), (2, 2, 2)] if ctx.quick() else [(2, 3, 2), (3, 2, 2), (2, 3, 4), (2, 2, 2), (3, 2, 4), (4, 3, 2), (2, 2, 3)]):
        N = 2
        ts = rng.integers(-2, 3, size=(N, dA, dB, dC)) + 1j * rng.integers(-2, 3, size=(N, dA, dB, dC))
        calls = []
        with _spy_contractions(H, calls), eig_spy() as spy:
            res = guarded(lambda: H.is_ABC_completely_entangled_subspace(list(ts), hierarchy_k=1))
        pairs = list(itertools.combinations_with_replacement(range(N), 2))
        gl = lambda t: ';'.join(f'{int(z.real)},{int(z.imag)}' for z in np.asarray(t).reshape(-1))
        vops = [f'C20 abcvec {dA} {dB} {dC} {gl(ts[i])} {gl(ts[j])}' for i, j in pairs]
        vm = common.run_model(vops)
        opg = f'C20 abcvec-gram {dA} {dB} {dC} ' + '|'.join(gl(t) for t in ts)
        if isinstance(res, str) or any(x == 'bad-op' for x in vm):
            ctx.count('abc-gram'); ctx.disagree(opg[:200], 'a verdict', str(res)[:100]); continue
        V = np.stack([np.array([complex(int(e.split(',')[0]), int(e.split(',')[1])) for e in line.split(';')]) / 4 for line in vm])
        _gram_tie(ctx, opg, V @ V.conj().T, spy.matrices(len(pairs)), 'abc-gram')
        cl = [c for c in calls if c[0] == 'cut']
        if len(cl) != 2 * len(pairs):
            ctx.count('abc-structure-skipped'); continue
        ops, impl = [], []
        skip = False
        for pi, (i, j) in enumerate(pairs):
            two = [cl[2 * pi], cl[2 * pi + 1]]
            c1 = [c for c in two if c[2].shape == (dA, dB * dC)]
            c2 = [c for c in two if c[2].shape == (dA * dB, dC)]
            if len(c1) != 1 or len(c2) != 1:
                skip = True; break
            c1, c2 = c1[0], c2[0]
            for cut, c in (('A_BC', c1), ('AB_C', c2)):
                for which, t in ((2, ts[i]), (3, ts[j])):
                    ops.append(f'C20 matabc {cut} {dA} {dB} {dC} {ints(t.real)}'); impl.append(ints(c[which].real))
                    ops.append(f'C20 matabc {cut} {dA} {dB} {dC} {ints(t.imag)}'); impl.append(ints(c[which].imag))
            tot = 4 * (c1[1] + c2[1]) if c1[1].size == c2[1].size else np.zeros(0)
            ops.append(vops[pi])
            impl.append(';'.join(f'{int(round(z.real))},{int(round(z.imag))}' for z in tot) if np.abs(tot - np.round(tot)).max(initial=0) < 1e-9 else 'nonintegral')
        if skip:
            ctx.count('abc-structure-skipped'); continue
        model = common.run_model(ops)
        common.compare(ctx, ops, impl, model, key=lambda op: 'abc-' + op.split(' ')[1])


def tie_tripartite_level_k(ctx):
    """is_ABC_completely_entangled_subspace at hierarchy_k >= 2 on Gaussian-integer tensors.  Primary tie (by value): the matrix handed to
    the eigen-solver family is the Gram matrix of the model's exact vectors (op abcveck), at every level incl. k = 4 in the quick tier.
    Extra, only when the call structure is recognisable (per pair of positions two cut contractions and one symmetric factor, in any
    order): the vector assembled from the captured pieces equals the model vector — skipped with a count otherwise."""
    from numqi.matrix_space import _hierarchy as H
    rng = np.random.default_rng(ctx.np_seed + 16)
    cfg = [(2, 2, 2, 2, 2), (2, 3, 2, 2, 2), (2, 2, 2, 1, 2), (2, 2, 2, 2, 3), (2, 2, 2, 2, 4), (2, 2, 2, 1, 4)] + \
        ([] if ctx.quick() else [(3, 2, 2, 3, 2), (2, 2, 3, 2, 3), (2, 3, 2, 1, 3), (2, 2, 2, 3, 3), (3, 2, 3, 2, 2), (2, 3, 2, 2, 4)])
    gl = lambda t: ';'.join(f'{int(z.real)},{int(z.imag)}' for z in np.asarray(t).reshape(-1))
    for dA, dB, dC, N, k in cfg:
        D = dA * dB * dC
        ts = rng.integers(-2, 3, size=(N, dA, dB, dC)) + 1j * rng.integers(-2, 3, size=(N, dA, dB, dC))
        calls = []
        with _spy_contractions(H, calls), eig_spy() as spy:
            res = guarded(lambda: H.is_ABC_completely_entangled_subspace(list(ts), hierarchy_k=k))
        alphas = list(itertools.combinations_with_replacement(range(N), 1 + k))
        npair = math.comb(1 + k, 2)
        s_ = k - 1
        keys = [(j,) for j in range(D)] if N == 1 else list(itertools.combinations_with_replacement(range(D), s_))
        w = np.array([1.0 if N == 1 else math.sqrt(math.factorial(s_) * _cnt_fact(K)) for K in keys])
        tline = '|'.join(gl(t) for t in ts)
        ops = [f'C20 abcveck {dA} {dB} {dC} {N} {";".join(map(str, al))} {tline}' for al in alphas]
        mo = common.run_model(ops)
        opg = f'C20 abcveck-gram {dA} {dB} {dC} {N} {k} {tline}'
        if isinstance(res, str) or any(x == 'bad-op' for x in mo):
            ctx.count('abc-level-k-gram'); ctx.disagree(opg[:200], 'Gram matrix of the model vectors', str(res)[:100] if isinstance(res, str) else 'bad-op'); continue
        V = []
        for line in mo:
            m = np.array([complex(int(e.split(',')[0]), int(e.split(',')[1])) for e in line.split(';')]).reshape(D * D, len(keys))
            V.append((m / (4 * w)).reshape(-1))
        V = np.stack(V)
        _gram_tie(ctx, opg, V @ V.conj().T, spy.matrices(len(alphas)), 'abc-level-k-gram')
        # ---- extra: the pieces, when the structure is recognisable
        groups = [calls[3 * i:3 * i + 3] for i in range(len(calls) // 3)]
        ok_struct = len(calls) == 3 * npair * len(alphas) and all(sorted(c[0] for c in g) == ['cut', 'cut', 'sym'] for g in groups)
        if not ok_struct:
            ctx.count('abc-level-k-structure-skipped', len(alphas)); continue
        for ai, (al, op, line) in enumerate(zip(alphas, ops, mo)):
            v = np.zeros((D * D, len(keys)), dtype=np.complex128)
            bad = None
            pairs = list(itertools.combinations(range(1 + k), 2))
            for pi, (i0, i1) in enumerate(pairs):
                g = groups[ai * npair + pi]
                cuts = [c for c in g if c[0] == 'cut']; sy = [c for c in g if c[0] == 'sym'][0]
                rest = [al[x] for x in sorted(set(range(1 + k)) - {i0, i1})]
                if cuts[0][1].size != D * D or cuts[1][1].size != D * D or sy[1].size != len(keys) or (sy[2] is not None and sy[2] != rest):
                    bad = True; break
                v += np.outer(cuts[0][1] + cuts[1][1], sy[1])
            if bad:
                ctx.count('abc-level-k-structure-skipped'); continue
            ctx.count('abc-level-k')
            sc = (4 * v * w).reshape(-1)
            got = ';'.join(f'{int(round(z.real))},{int(round(z.imag))}' for z in sc) if np.abs(sc - (np.round(sc.real) + 1j * np.round(sc.imag))).max() < 1e-8 else 'nonintegral'
            if got == line:
                ctx.agree(op, op)
            else:
                ctx.disagree(op[:200], line[:200], got[:200])


def tie_dense_bases(ctx):
    """get_antisymmetric_basis / get_symmetric_basis (dense, every rank) against the signed-square model tables (ops asbasis, symbasis);
    rank 2 is what is_ABC_completely_entangled_subspace builds its projectors from"""
    from numqi.matrix_space import _hierarchy as H
    ops, impl = [], []

    def coded(arr, r, signed):
        a = np.asarray(arr, dtype=np.float64)
        x = a * np.abs(a) * math.factorial(r) if signed else a * a * math.factorial(r)
        if a.ndim != 2 or np.abs(x - np.round(x)).max(initial=0) > 1e-9 or (not signed and (a < 0).any()):
            return 'error:not of the form sign*sqrt(integer/r!)'
        return '|'.join(';'.join(str(int(v)) for v in row) for row in np.round(x))
    for d, r in [(2, 1), (3, 1), (2, 2), (3, 2), (4, 2), (6, 2), (3, 3), (4, 3)] + ([] if ctx.quick() else [(5, 2), (8, 2), (9, 2), (12, 2), (4, 4), (5, 3), (5, 4), (5, 5), (6, 3)]):
        ops.append(f'C20 asbasis {d} {r}'); impl.append(guarded(lambda: coded(H.get_antisymmetric_basis(d, r), r, True)))
    for d, r in [(2, 1), (2, 2), (3, 2), (2, 3), (3, 3), (4, 2)] + ([] if ctx.quick() else [(2, 4), (3, 4), (5, 2), (4, 3), (6, 2), (2, 5), (8, 2)]):
        ops.append(f'C20 symbasis {d} {r}'); impl.append(guarded(lambda: coded(H.get_symmetric_basis(d, r), r, False)))
    for d, r in [(2, 3), (3, 0)]:      # rank > dim, rank 0: the implementation asserts
        ops.append(f'C20 asbasis {d} {r}'); r_ = guarded(lambda: coded(H.get_antisymmetric_basis(d, r), r, True)); impl.append('bad-op' if r_.startswith('error:') else r_)      # any rejection counts (AssertionError today)
    model = common.run_model(ops)
    common.compare(ctx, ops, impl, model)


def tie_options(ctx):
    """non-default options whose effect is bookkeeping: get_real_bipartite_numerical_range(method='rotation') (the matrix, direction and
    kind handed to get_matrix_numerical_range_along_direction; the 1/sqrt2), get_matrix_numerical_range_along_direction(kind='min')
    (the Hermitian parts at the three bracket angles and at the root), INDEX=None defaults"""
    import scipy.sparse.linalg, scipy.optimize
    from numqi.matrix_space import _numerical_range as NR, _hierarchy as H
    rng = np.random.default_rng(ctx.np_seed + 17)
    ops, impl = [], []
    # --- method='rotation'
    for dA, dB in ([(2, 2), (2, 3), (3, 2)] if ctx.quick() else [(2, 2), (2, 3), (3, 2), (3, 3), (2, 4)]):
        n = dA * dB
        a = rng.integers(-3, 4, size=(n, n)); a = a + a.T
        mat = a.reshape(dA, dB, dA, dB).astype(np.float64)
        for kind in ('min', 'max'):
            seen = []

            def fake_along(m, alpha, k='max'):
                seen.append((np.array(m), alpha, k)); return (float(rng.integers(-5, 6)) * math.sqrt(2) + 0.25, None)
            with patched((NR, 'get_matrix_numerical_range_along_direction', fake_along)):
                res = guarded(lambda: NR.get_real_bipartite_numerical_range(mat, kind=kind, method='rotation'))
            ctx.count('rotation-call')
            op0 = f'C20 rotation-call {dA} {dB} {kind}'
            if isinstance(res, str) or len(seen) != 1:
                ctx.disagree(op0, 'one call of get_matrix_numerical_range_along_direction', str(res) if isinstance(res, str) else f'{len(seen)} calls'); continue
            m, alpha, k = seen[0]
            want_val = None
            if alpha != np.pi / 4 or k != kind or m.shape != (n, n):
                ctx.disagree(op0, f'direction pi/4, kind {kind}, shape {(n, n)}', f'direction {alpha!r}, kind {k!r}, shape {m.shape}'); continue
            ctx.agree(op0, op0)
            # real part: the matrix itself; imaginary part: its partial transpose (model ptB)
            ops.append(f'C20 ptb {dA} {dB} {ints(mat)}'); impl.append(ints(m.imag))
            ops.append(f'C20 ptb {dA} {dB} {ints(np.asarray(m.imag).reshape(dA, dB, dA, dB))}'); impl.append(ints(m.real))   # ptB is an involution: back to mat
    # --- kind='min' (and 'max' again) along a direction: the Hermitian parts handed to eigsh
    es0, rs0 = scipy.sparse.linalg.eigsh, scipy.optimize.root_scalar
    herm_ops, herm_seen = [], []
    for n in ([3, 4, 5] if ctx.quick() else [3, 4, 5, 6, 7]):
        A = rng.integers(-3, 4, size=(n, n)) + 1j * rng.integers(-3, 4, size=(n, n))
        for kind in ('min', 'max'):
            alpha = float(rng.uniform(-1, 7))
            seen2, root = [], {}

            def cap2(m, *a, **kw):
                seen2.append(np.array(m)); return es0(m, *a, **kw)

            def cap_root(f, *a, **kw):
                r = rs0(f, *a, **kw); root['x'] = r.root; root['bracket'] = kw.get('bracket'); return r
            with patched((scipy.sparse.linalg, 'eigsh', cap2), (scipy.optimize, 'root_scalar', cap_root)):
                res = guarded(lambda: NR.get_matrix_numerical_range_along_direction(A, alpha, kind=kind))
            if isinstance(res, str) or 'x' not in root or len(seen2) < 4:
                ctx.count('herm'); ctx.disagree(f'C20 herm-call {n} {kind}', 'three bracket evaluations, a root', str(res)[:100]); continue
            am = np.mod(alpha, 2 * np.pi)
            base = (-am) if kind == 'max' else (np.pi - am)
            thetas = [base + x for x in (-np.pi / 2, 0, np.pi / 2)] + [root['x']]
            for t, got in zip(thetas, seen2[:3] + [seen2[-1]]):
                w = np.exp(1j * t) / 2
                herm_ops.append(f'C20 herm {n} {fbits(w.real)} {fbits(w.imag)} ' + ';'.join(f'{int(z.real)},{int(z.imag)}' for z in A.reshape(-1)))
                herm_seen.append(got)
            # the returned number is the Rayleigh quotient of A at the returned vector, rotated back (value.real)
            val, evc = res
            ray = np.vdot(evc, A @ evc) / np.exp(1j * am)
            ctx.count('along-value')
            if abs(val - ray.real) <= 1e-9 * max(1.0, abs(ray)):
                ctx.agree(f'C20 along-value {n} {kind}', ('along-value', n, kind))
            else:
                ctx.disagree(f'C20 along-value {n} {kind} alpha={alpha!r}', repr(ray.real), repr(val))
    mo = common.run_model(herm_ops)
    for op, line, got in zip(herm_ops, mo, herm_seen):
        n = int(op.split(' ')[2])
        want = np.array([float(frac(x.split(',')[0])) + 1j * float(frac(x.split(',')[1])) for x in line.split(';')]).reshape(n, n)
        ctx.count('herm')
        if got.shape == want.shape and np.abs(got - want).max() <= 1e-12:
            ctx.agree(op, op)
        else:
            ctx.disagree(op, line[:300], repr(np.asarray(got).tolist())[:300])
    # --- INDEX=None: the default is range(len(np_list)); exact equality with the explicit list, and with the model
    for dA, dB, N in [(2, 2, 2), (2, 3, 2), (3, 3, 3)]:
        mats = rng.integers(-2, 3, size=(N, dA, dB))
        np_list = [x.astype(np.float64) for x in mats]
        r0 = guarded(lambda: H.tensor2d_project_to_antisym_basis(np_list))
        ops.append(f'C20 proj {dA} {dB} {";".join(map(str, range(N)))} {ints(mats)}')
        impl.append(r0 if isinstance(r0, str) else rints(np.asarray(r0).reshape(-1) * math.factorial(N)) if dA >= N and dB >= N else 'shape')
        flat = [x.reshape(-1) for x in np_list]
        s0 = guarded(lambda: H.project_to_symmetric_basis(flat))
        keys = list(itertools.combinations_with_replacement(range(dA * dB), N))
        ops.append(f'C20 sympart {dA} {dB} {N} {";".join(map(str, range(N)))} {ints(mats)}')
        impl.append(s0 if isinstance(s0, str) else rints(np.asarray(s0) * np.array([math.sqrt(math.factorial(N) * _cnt_fact(K)) for K in keys])) if len(s0) == len(keys) else 'shape')
    model = common.run_model(ops)
    common.compare(ctx, ops, impl, model, key=lambda op: 'opt-' + op.split(' ')[1])


def _guarded_part(ctx, part, tie):
    """robustness of the check: an exception escaping a tie / probe part (signature change, missing attribute, shape error in the
    implementation …) is reported as a broken correspondence resp. as a failure with the traceback — the check never aborts (exit 2)"""
    import traceback
    try:
        part(ctx)
    except Exception as e:
        tb = traceback.format_exc()[-1500:]
        if tie:
            ctx.disagree(f'%s %s (whole part)' % (ctx.pid, part.__name__), 'completes', f'raised {type(e).__name__}: {e}')
            ctx.note(f'{part.__name__} raised: ' + tb)
        else:
            ctx.fail('probe-exception', f'{part.__name__} raised {type(e).__name__}: {e}', dict(op=part.__name__, traceback=tb))


def correspondence(ctx):
    for part in (tie_tables, tie_projection, tie_structure, tie_bipartite, tie_numrange, tie_decisions, tie_level_k, tie_tripartite, tie_tripartite_level_k, tie_dense_bases, tie_options):
        _guarded_part(ctx, part, tie=True)


# ---------------------------------------------------------------------------
# probe: direct evaluation of the property on the real code
# ---------------------------------------------------------------------------
def _realify(x):
    return np.block([[x.real, -x.imag], [x.imag, x.real]])


def _class_generators(rng, cls, n1, n2, k_indep, n_dep, near=None, scale=1.0):
    """generators of a structure class: `k_indep` well-conditioned independent ones (coordinate rows orthonormal, scaled in [1,2]),
    `n_dep` exact combinations of them and, if `near` is given, one more generator that is a small combination (|c| <= 0.3) of them plus
    10^-near times a new unit direction of the class (smallest singular value of the generator list ~ 10^-near: to be *kept*, the
    library drops singular values <= 1e-10 only); everything multiplied by `scale`.  Returns (field, array, ambient dimension, rank)."""
    def sym_basis(n):
        out = []
        for i in range(n):
            for j in range(i, n):
                e = np.zeros((n, n)); e[i, j] = 1; e[j, i] = 1
                out.append(e / np.linalg.norm(e))
        return out
    if cls in ('R', 'C(real)', 'C', 'R_c'):
        unit = [np.eye(n1 * n2)[i].reshape(n1, n2) for i in range(n1 * n2)]
    else:
        unit = sym_basis(n1)
    if cls == 'C_H':
        n = n1
        unit = []
        for i in range(n):
            for j in range(i, n):
                e = np.zeros((n, n), dtype=complex); e[i, j] = 1; e[j, i] = 1; unit.append(e / np.linalg.norm(e))
                if i != j:
                    e = np.zeros((n, n), dtype=complex); e[i, j] = 1j; e[j, i] = -1j; unit.append(e / np.linalg.norm(e))
    unit = np.stack(unit)
    over_c = cls in ('C(real)', 'C', 'C_T', 'C_T(real)')
    cplx_entries = cls in ('C', 'C_T', 'R_c', 'R_cT')
    if cls in ('R_c', 'R_cT'):
        unit = np.concatenate([unit, 1j * unit])       # real basis of the complex matrices / complex symmetric matrices
    amb = unit.shape[0]
    k = min(k_indep, amb - (1 if near is not None else 0))
    cplx = over_c and cplx_entries
    qf = np.linalg.qr(rng.normal(size=(amb, amb)) + (1j * rng.normal(size=(amb, amb)) if cplx else 0))[0]
    q = qf[:k] * rng.uniform(1, 2, size=(k, 1))
    gens = np.tensordot(q, unit, axes=(1, 0))
    extra = []
    if n_dep:
        c = rng.normal(size=(n_dep, k)) + (1j * rng.normal(size=(n_dep, k)) if cplx else 0)
        extra.append(np.tensordot(c, gens, axes=(1, 0)))
    rank = k
    if near is not None:
        c = rng.uniform(-0.3, 0.3, size=(1, k)) / max(1, np.sqrt(k))
        u = np.tensordot(qf[k:k + 1], unit, axes=(1, 0))
        extra.append(np.tensordot(c, gens, axes=(1, 0)) + 10.0 ** -near * u)
        rank = k + 1
    if extra:
        gens = np.concatenate([gens] + extra)
        gens = gens[rng.permutation(len(gens))]
    gens = gens * scale
    if cls in ('R_T', 'C_T(real)', 'R', 'C(real)'):
        gens = np.ascontiguousarray(gens.real)
    field = 'complex' if over_c else 'real'
    return field, gens, amb, rank


def _rank(a, tol=1e-8):
    if a.shape[0] == 0:
        return 0
    s = np.linalg.svd(a, compute_uv=False)
    return int((s > tol).sum())


_AMBIENT = {'R_T': lambda a, b: a * (a + 1) // 2, 'C_T(real)': lambda a, b: a * (a + 1) // 2, 'C_T': lambda a, b: a * (a + 1) // 2,
            'R': lambda a, b: a * b, 'C(real)': lambda a, b: a * b, 'C': lambda a, b: a * b, 'C_H': lambda a, b: a * a,
            'R_cT': lambda a, b: a * (a + 1), 'R_c': lambda a, b: 2 * a * b}
_EXPECT = {'R_T': 'R_T', 'C_T(real)': 'C_T', 'R': 'R', 'C(real)': 'C', 'C_H': 'C_H', 'R_cT': 'R_cT', 'R_c': 'R_c', 'C_T': 'C_T', 'C': 'C'}


def _check_decomposition(ctx, cls, n1, n2, field, gens, amb, k, tag, extra_replay):
    """the property on one call of get_matrix_orthogonal_basis; all comparisons are relative to the norms of the generators, so that
    small generators and nearly dependent ones (above the library's singular-value threshold 1e-10) are judged like O(1) ones"""
    from numqi.matrix_space import get_matrix_orthogonal_basis
    replay = dict(op='get_matrix_orthogonal_basis', cls=cls, field=field, shape=list(gens.shape), rank=k, case=tag,
                  generators_re=gens.real.tolist(), generators_im=(gens.imag.tolist() if np.iscomplexobj(gens) else None), **extra_replay)
    try:
        b, bo, ch = get_matrix_orthogonal_basis(gens, field)
    except Exception as e:
        ctx.fail('decomp-exception', f'get_matrix_orthogonal_basis raised {type(e).__name__}: {e} on a {cls} subspace {gens.shape} ({tag})', replay)
        return
    if ch != _EXPECT[cls]:
        ctx.fail('decomp-class', f'space_char {ch} for a {cls} input ({tag})', replay); return
    blk = ch in ('R_c', 'R_cT')       # the representation in which the returned matrices live
    inp = np.stack([_realify(x) for x in gens]) if blk else gens
    sz = int(np.prod(inp.shape[1:]))
    vb = b.reshape(b.shape[0], sz); vo = bo.reshape(bo.shape[0], sz); vi = inp.reshape(inp.shape[0], sz)
    real_field = field == 'real'

    def inner(x, y):
        g = x.conj() @ y.T
        return g.real if real_field else g

    def as_real(v):
        return np.concatenate([v.real, v.imag], axis=1) if (real_field and np.iscomplexobj(v)) else v
    where = f'({cls}, {n1}x{n2}, {tag})'
    ok = True
    if b.shape[0] != k:
        ctx.fail('decomp-rank', f'{b.shape[0]} basis elements for a subspace of dimension {k} {where}', replay); ok = False
    g = inner(vb, vb)
    c = g[0, 0].real if g.size else 1.0
    if g.size and (np.abs(g - c * np.eye(len(g))).max() > 1e-9 or c < 1e-3):
        ctx.fail('decomp-orthogonal', f'basis not mutually orthogonal with one common norm: max deviation {np.abs(g - c * np.eye(len(g))).max():.3g} {where}', replay); ok = False
    # the normalisation consumers rely on: detect_real_matrix_subspace_rank_one builds `projector = B^T B` from these rows and is sound only
    # if that dominates the orthogonal projector, i.e. common squared norm >= 1 (unchanged tree: 1 for R, C; 2 for R_T, C_T, C_H, R_c; 4 for R_cT)
    if g.size:
        ctx.extra.setdefault('basis_squared_norm_by_class', {})[_EXPECT[cls]] = round(float(c), 9)
        if c < 1 - 1e-9:
            ctx.fail('decomp-norm-below-one', f'returned basis has common squared norm {c:.6g} < 1: the projector B^T B that detect_real_matrix_subspace_rank_one '
                     f'builds from it is smaller than the orthogonal projector and its bound is no certificate {where}', replay); ok = False
    # span: every generator is reproduced by its projection on the returned basis, relative to its own norm
    nrm = np.linalg.norm(vi, axis=1)
    if vb.shape[0]:
        coef = inner(vb, vi) / c                      # (basis, generators)
        res = np.linalg.norm(vi - coef.T @ vb, axis=1)
    else:
        res = nrm.copy()
    relres = float((res / nrm).max())
    if relres > 1e-9:
        j = int(np.argmax(res / nrm))
        ctx.fail('decomp-span', f'generator {j} (norm {nrm[j]:.3g}) is not in the span of the returned basis: relative residual {relres:.3g} {where}', replay); ok = False
    if vo.shape[0]:
        no = np.linalg.norm(vo, axis=1)
        if np.abs(inner(vo, vb)).max(initial=0) > 1e-9 * max(1.0, c):
            ctx.fail('decomp-complement', f'complement not orthogonal to the basis: {np.abs(inner(vo, vb)).max():.3g} {where}', replay); ok = False
        ov = np.abs(inner(vo, vi)) / (no[:, None] * nrm[None, :])
        if ov.max(initial=0) > 1e-9:
            ctx.fail('decomp-complement', f'complement not orthogonal to the input: overlap {ov.max():.3g} relative to the norms {where}', replay); ok = False
    if b.shape[0] + bo.shape[0] != amb:
        ctx.fail('decomp-dimension', f'{b.shape[0]} + {bo.shape[0]} != ambient dimension {amb} {where}', replay); ok = False
    if _rank(as_real(np.concatenate([vb, vo]))) != amb:
        ctx.fail('decomp-dimension', f'basis and complement together do not span the {amb}-dimensional structured space {where}', replay); ok = False
    if ok:
        ctx.probe_ok(('decomp', cls, n1, n2, tag))


def probe_decomposition(ctx):
    rng = np.random.default_rng(ctx.np_seed + 10)
    dims = [2, 3, 4, 5]
    reps = 1 if ctx.quick() else 4
    for cls in _EXPECT:
        for n1 in dims:
            for n2 in ([n1] if cls not in ('R', 'C(real)', 'C', 'R_c') else ([n1, (n1 % 4) + 2])):
                for _ in range(reps):
                    amb0 = _AMBIENT[cls](n1, n2)
                    k_indep = int(rng.integers(1, amb0 + 1))
                    n_dep = int(rng.integers(0, 4))
                    field, gens, amb, k = _class_generators(rng, cls, n1, n2, k_indep, n_dep)
                    assert amb == amb0
                    _check_decomposition(ctx, cls, n1, n2, field, gens, amb, k, 'exactly dependent', dict(k_indep=k, n_dep=n_dep))


def probe_decomposition_graded(ctx):
    """directions that the library must keep (singular value of the generator list well above its own threshold zero_eps = 1e-10):
    one generator that is a combination of the others up to 10^-k (k = 3..9), and generators of overall norm 10^-k (k = 3..8;
    k = 9 for rectangular shapes only, where the symmetric / non-symmetric branch decision, itself an absolute 1e-10 test, is not involved).
    Smallest singular value >= 6e-10 in every case."""
    rng = np.random.default_rng(ctx.np_seed + 16)
    for cls in _EXPECT:
        shapes = [(2, 2), (3, 3), (2, 3), (4, 3)] if cls in ('R', 'C(real)', 'C', 'R_c') else [(2, 2), (3, 3), (4, 4)]
        if ctx.quick():
            shapes = shapes[:3] if cls in ('R', 'C(real)', 'C', 'R_c') else shapes[:2]
        for n1, n2 in shapes:
            amb0 = _AMBIENT[cls](n1, n2)
            for near in range(3, 10):
                k_indep = int(rng.integers(1, amb0))
                field, gens, amb, k = _class_generators(rng, cls, n1, n2, k_indep, int(rng.integers(0, 3)), near=near)
                _check_decomposition(ctx, cls, n1, n2, field, gens, amb, k, f'one generator dependent up to 1e-{near}', dict(near=near))
            for sc in range(3, 10):
                if sc == 9 and n1 == n2:
                    continue
                k_indep = int(rng.integers(1, amb0 + 1))
                field, gens, amb, k = _class_generators(rng, cls, n1, n2, k_indep, int(rng.integers(0, 3)), scale=10.0 ** -sc)
                _check_decomposition(ctx, cls, n1, n2, field, gens, amb, k, f'generators of norm 1e-{sc}', dict(scale_exponent=sc))


def _planted_bipartite(rng, dA, dB, N, low_rank, cplx):
    """orthonormal basis of an N-dimensional subspace of dA x dB matrices containing an element of rank `low_rank`"""
    def rnd(*s):
        return rng.normal(size=s) + (1j * rng.normal(size=s) if cplx else 0)
    planted = rnd(dA, low_rank) @ rnd(low_rank, dB)
    planted /= np.linalg.norm(planted)
    gens = np.concatenate([planted[None], rnd(N - 1, dA, dB)])
    T = rnd(N, N) + 2 * np.eye(N)
    mixed = np.tensordot(T, gens, axes=(1, 0)).reshape(N, -1)
    q = np.linalg.qr(mixed.T)[0].T            # rows: orthonormal basis of the same span
    return q.reshape(N, dA, dB), planted


def _abc_gram(np_list, k):
    """the Gram matrix on which is_ABC_completely_entangled_subspace decides (the last square matrix of the expected size handed to the
    eigvalsh / eigh / lu family of numpy or scipy)"""
    from numqi.matrix_space import is_ABC_completely_entangled_subspace
    n = math.comb(len(np_list) + k, k + 1)
    with eig_spy() as spy:
        try:
            is_ABC_completely_entangled_subspace(np_list, hierarchy_k=k)
        except Exception:
            return None
    mats = spy.matrices(n)
    return mats[-1] if mats else None


def probe_planted(ctx):
    from numqi.matrix_space import has_rank_hierarchical_method, detect_real_matrix_subspace_rank_one, is_ABC_completely_entangled_subspace, get_matrix_subspace_example
    rng = np.random.default_rng(ctx.np_seed + 11)
    # (dA, dB, N, rank, k)
    cases = [(2, 2, 2, 2, 1), (2, 2, 2, 2, 2), (2, 2, 2, 2, 3), (2, 3, 3, 2, 1), (3, 3, 3, 2, 2), (3, 3, 2, 3, 1), (3, 3, 2, 3, 2), (3, 4, 3, 3, 1), (3, 3, 2, 2, 3), (4, 4, 2, 3, 1),
             (3, 4, 2, 3, 2), (4, 4, 2, 3, 2)]     # minors of size 3 inside larger matrices at level 2: repeated generators with multiplicity 3
    if not ctx.quick():
        cases += [(3, 3, 4, 2, 2), (3, 3, 3, 2, 3), (4, 4, 3, 3, 2), (4, 4, 2, 4, 1), (3, 3, 3, 3, 2), (4, 4, 4, 2, 2), (3, 4, 2, 3, 3), (5, 5, 2, 4, 1), (2, 5, 4, 2, 2)]
    reps = 2 if ctx.quick() else 5
    for dA, dB, N, rank, k in cases:
        for cplx in (False, True):
            for _ in range(reps):
                basis, planted = _planted_bipartite(rng, dA, dB, N, rank - 1, cplx)
                replay = dict(op='has_rank_hierarchical_method', dA=dA, dB=dB, N=N, rank=rank, hierarchy_k=k, complex=cplx,
                              basis_re=basis.real.tolist(), basis_im=basis.imag.tolist() if cplx else None, planted_rank=rank - 1)
                try:
                    res = has_rank_hierarchical_method(basis, rank, hierarchy_k=k)
                except Exception as e:
                    ctx.fail('hierarchy-exception', f'has_rank_hierarchical_method raised {type(e).__name__}: {e}', replay); continue
                if res:
                    # is the linear system itself wrong, or only the decision on a (numerically) singular Gram matrix?
                    sv = np.linalg.svd(has_rank_hierarchical_method(basis, rank, hierarchy_k=k, return_info=True)[1], compute_uv=False)
                    lu_only = sv[-1] <= 1e-9 * sv[0]
                    replay['gram_singular_values_min_max'] = [float(sv[-1]), float(sv[0])]
                    ctx.fail('hierarchy-lu-not-rank-revealing' if lu_only else 'hierarchy-unsound',
                             f'has_rank_hierarchical_method(rank={rank}, k={k}) certifies a {dA}x{dB} subspace (dim {N}, {"complex" if cplx else "real"}) containing an element of rank {rank - 1}'
                             + (f'; the Gram matrix is singular (sigma_min/sigma_max={sv[-1] / sv[0]:.1e}) but the decision on it is positive' if lu_only else '; the Gram matrix of the linear system is not singular'), replay)
                else:
                    ctx.probe_ok(('hier', dA, dB, N, rank, k, cplx))
    # non-vacuity: the certificate is issued on the literature examples
    for key, rank, k in ((('hierarchy-ex1', 2, 1),) if ctx.quick() else (('hierarchy-ex1', 2, 1), ('hierarchy-ex3', 2, 3))):
        ms, field = get_matrix_subspace_example(key)
        q = np.linalg.qr(ms.reshape(ms.shape[0], -1).T)[0].T.reshape(ms.shape)
        ctx.count('hierarchy-positive-control-' + str(bool(has_rank_hierarchical_method(q, rank, hierarchy_k=k))))
    # real rank-one detector
    for dA, dB, N in [(2, 2, 2), (2, 2, 3), (2, 3, 2), (3, 3, 2), (3, 3, 4), (2, 4, 3)] + ([] if ctx.quick() else [(4, 4, 3), (3, 4, 5), (3, 5, 2), (5, 5, 3)]):
        for _ in range(8 if ctx.quick() else 30):
            basis, planted = _planted_bipartite(rng, dA, dB, N, 1, False)
            replay = dict(op='detect_real_matrix_subspace_rank_one', dA=dA, dB=dB, N=N, basis=basis.tolist())
            try:
                tag, ub = detect_real_matrix_subspace_rank_one(basis)
            except Exception as e:
                ctx.fail('rankone-exception', f'detect_real_matrix_subspace_rank_one raised {type(e).__name__}: {e}', replay); continue
            if not tag:
                ctx.fail('rankone-unsound', f'detect_real_matrix_subspace_rank_one certifies "no rank-one element" (upper_bound={ub!r}) for a {dA}x{dB} real subspace of dimension {N} that contains one', replay)
            else:
                ctx.probe_ok(('rank1', dA, dB, N))
            ctx.extra.setdefault('rankone_min_ub_minus_1', 0.0)
            ctx.extra['rankone_min_ub_minus_1'] = min(ctx.extra['rankone_min_ub_minus_1'], float(ub) - 1.0)
    ms = np.stack([np.eye(2), np.array([[0, -1.0], [1, 0]])])       # span_R(1, iY): arXiv 2212.12811 example 3, upper bound 1/2
    ctx.count('rankone-positive-control-' + str(not detect_real_matrix_subspace_rank_one(ms)[0]))
    # per structure class: all generators real *symmetric* (branch R_T of get_matrix_orthogonal_basis) containing v v^T, and mixes of
    # symmetric generators with general ones (branch R); 1..3 generators, dims 2..5
    for n in (2, 3, 4, 5):
        for N in (1, 2, 3):
            for kind in ('symmetric', 'mixed'):
                for _ in range(2 if ctx.quick() else 6):
                    v = rng.normal(size=n)
                    gens = [np.outer(v, v)]
                    for j in range(N - 1):
                        a = rng.normal(size=(n, n))
                        gens.append(a + a.T if (kind == 'symmetric' or j % 2 == 0) else a)
                    gens = np.stack(gens)
                    if kind == 'mixed' and N == 1:
                        continue
                    T = rng.normal(size=(N, N)) + 2 * np.eye(N)
                    mixed = np.tensordot(T, gens, axes=(1, 0))
                    if kind == 'symmetric' and rng.integers(0, 2):
                        mixed = np.linalg.qr(mixed.reshape(N, -1).T)[0].T.reshape(N, n, n)      # orthonormal, still symmetric
                    replay = dict(op='detect_real_matrix_subspace_rank_one', kind=kind + ' generators with a planted v v^T', n=n, N=N, basis=mixed.tolist())
                    try:
                        tag, ub = detect_real_matrix_subspace_rank_one(mixed)
                    except Exception as e:
                        ctx.fail('rankone-exception', f'detect_real_matrix_subspace_rank_one raised {type(e).__name__}: {e}', replay); continue
                    if not tag:
                        ctx.fail('rankone-unsound', f'detect_real_matrix_subspace_rank_one certifies "no rank-one element" (upper_bound={ub!r}) for a real subspace of '
                                 f'{kind} {n}x{n} generators (dim {N}) that contains v v^T', replay)
                    else:
                        ctx.probe_ok(('rank1-' + kind, n, N))
    # tripartite: planted product vector
    for dA, dB, dC, N, k in [(2, 2, 2, 2, 1), (2, 2, 2, 3, 1), (2, 2, 2, 2, 2), (2, 2, 3, 3, 1), (2, 3, 3, 2, 2)] + ([] if ctx.quick() else [(3, 3, 3, 3, 1), (2, 2, 2, 2, 3), (2, 2, 3, 4, 2), (3, 3, 3, 2, 2)]):
        for cplx in (False, True):
            for _ in range(reps):
                def rnd(*s):
                    return rng.normal(size=s) + (1j * rng.normal(size=s) if cplx else 0)
                prod = np.einsum('a,b,c->abc', rnd(dA), rnd(dB), rnd(dC)); prod /= np.linalg.norm(prod)
                gens = np.concatenate([prod[None], rnd(N - 1, dA, dB, dC)])
                T = rnd(N, N) + 2 * np.eye(N)
                q = np.linalg.qr(np.tensordot(T, gens, axes=(1, 0)).reshape(N, -1).T)[0].T.reshape(N, dA, dB, dC)
                replay = dict(op='is_ABC_completely_entangled_subspace', dims=[dA, dB, dC], N=N, hierarchy_k=k, complex=cplx,
                              basis_re=q.real.tolist(), basis_im=q.imag.tolist() if cplx else None)
                try:
                    res = is_ABC_completely_entangled_subspace(list(q), hierarchy_k=k)
                except Exception as e:
                    ctx.fail('abc-exception', f'is_ABC_completely_entangled_subspace raised {type(e).__name__}: {e}', replay); continue
                if res:
                    G = _abc_gram(list(q), k)
                    sv = np.linalg.svd(G, compute_uv=False) if G is not None else None
                    lu_only = sv is not None and sv[-1] <= 1e-9 * sv[0]
                    ctx.fail('abc-lu-not-rank-revealing' if lu_only else 'abc-unsound',
                             f'is_ABC_completely_entangled_subspace(k={k}) certifies a {dA}x{dB}x{dC} subspace (dim {N}) containing a product vector'
                             + ('; the Gram matrix is singular but the decision on it is positive' if lu_only else ''), replay)
                else:
                    ctx.probe_ok(('abc', dA, dB, dC, N, k, cplx))

    # tripartite positive control (non-vacuity of the certificate at every level): a generic subspace of dimension 2 resp. 3 of a
    # 2x2x2 / 2x2x3 system contains no product vector (the Segre variety has codimension 4 resp. 7); the certificate must be issued for
    # at least one of the generic instances at each level, otherwise "sound" would hold vacuously
    for dA, dB, dC, N in [(2, 2, 2, 2), (2, 2, 3, 3)]:
        for k in ((1, 2) if ctx.quick() else (1, 2, 3)):
            outs, last = [], None
            for _ in range(4):
                g = rng.normal(size=(N, dA, dB, dC)) + 1j * rng.normal(size=(N, dA, dB, dC))
                q = np.linalg.qr(g.reshape(N, -1).T)[0].T.reshape(N, dA, dB, dC)
                last = q
                try:
                    outs.append(bool(is_ABC_completely_entangled_subspace(list(q), hierarchy_k=k)))
                except Exception as e:
                    outs.append(f'{type(e).__name__}: {e}')
            ctx.count('abc-positive-control', sum(1 for o in outs if o is True))
            if not any(o is True for o in outs):
                ctx.fail('abc-never-certifies', f'is_ABC_completely_entangled_subspace(hierarchy_k={k}) issues no certificate for 4 generic {N}-dimensional subspaces of a '
                         f'{dA}x{dB}x{dC} system ({outs})', dict(op='is_ABC_completely_entangled_subspace', dims=[dA, dB, dC], N=N, hierarchy_k=k, complex=True,
                                                                    basis_re=last.real.tolist(), basis_im=last.imag.tolist()))
            else:
                ctx.probe_ok(('abc-positive', dA, dB, dC, N, k))


def probe_numrange(ctx):
    from numqi.matrix_space import get_matrix_numerical_range, get_matrix_numerical_range_along_direction
    rng = np.random.default_rng(ctx.np_seed + 12)
    for n in range(2, 9):
        for _ in range(2 if ctx.quick() else 8):
            A = rng.normal(size=(n, n)) + 1j * rng.normal(size=(n, n))
            num = 13
            replay = dict(op='get_matrix_numerical_range', n=n, A_re=A.real.tolist(), A_im=A.imag.tolist(), num_point=num)
            try:
                pts = get_matrix_numerical_range(A, num_point=num)
            except Exception as e:
                ctx.fail('numrange-exception', f'get_matrix_numerical_range raised {type(e).__name__}: {e}', replay); continue
            thetas = np.linspace(0, 2 * np.pi, num)
            ys = rng.normal(size=(400, n)) + 1j * rng.normal(size=(400, n)); ys /= np.linalg.norm(ys, axis=1, keepdims=True)
            samples = np.einsum('ki,ij,kj->k', ys.conj(), A, ys)
            bad = None
            for t, z in zip(thetas, pts):
                H = (np.exp(1j * t) * A + np.exp(-1j * t) * A.conj().T) / 2
                h = np.linalg.eigvalsh(H)[-1]
                val = (np.exp(1j * t) * z).real
                if abs(val - h) > 1e-8 * max(1.0, abs(h)) or (np.exp(1j * t) * samples).real.max() > val + 1e-8:
                    bad = (t, z, h, val); break
            if bad:
                ctx.fail('numrange-support', f'numerical-range point for theta={bad[0]:.6f} has Re(e^(i theta) z)={bad[3]!r} but the support function is {bad[2]!r} (n={n})', replay)
            else:
                ctx.probe_ok(('nr', n))
            if n >= 3:
                alpha = float(rng.uniform(0, 2 * np.pi))
                replay2 = dict(op='get_matrix_numerical_range_along_direction', n=n, A_re=A.real.tolist(), A_im=A.imag.tolist(), alpha=alpha)
                import io, contextlib
                buf = io.StringIO()
                try:
                    with contextlib.redirect_stdout(buf):
                        val, x = get_matrix_numerical_range_along_direction(A, alpha)
                except Exception as e:
                    ctx.count('along-direction-raised-' + type(e).__name__)   # documented limitation (bracket assertion), not part of the claim
                    continue
                if 'WARNING' in buf.getvalue():
                    ctx.count('along-direction-warned'); continue
                z = np.vdot(x, A @ x)
                # membership in W(A): every support inequality; the point lies on the ray; the reported value is its modulus along the ray
                tt = np.linspace(0, 2 * np.pi, 721)
                hs = np.array([np.linalg.eigvalsh((np.exp(1j * t) * A + np.exp(-1j * t) * A.conj().T) / 2)[-1] for t in tt])
                inside = ((np.exp(1j * tt) * z).real <= hs + 1e-8).all()
                on_ray = abs(z - val * np.exp(1j * alpha)) <= 1e-7 * max(1.0, abs(z))
                if not (inside and on_ray and abs(np.linalg.norm(x) - 1) < 1e-9):
                    ctx.fail('numrange-direction', f'point returned along alpha={alpha:.6f} is not x^dagger A x on that ray inside W(A): z={z!r}, value={val!r}', replay2)
                else:
                    ctx.probe_ok(('nrdir', n))




# ---------------------------------------------------------------------------
# hardening: aliasing / repeatability / dtype / layout / boundary inputs
# ---------------------------------------------------------------------------
def _snap(x):
    if isinstance(x, np.ndarray):
        return ('a', x.shape, str(x.dtype), x.tobytes())
    if isinstance(x, (list, tuple)):
        return ('l', tuple(_snap(y) for y in x))
    return ('o', repr(x))


def _same(a, b, tol=0.0):
    if isinstance(a, (tuple, list)) and isinstance(b, (tuple, list)):
        return len(a) == len(b) and all(_same(x, y, tol) for x, y in zip(a, b))
    if isinstance(a, (str, bool, np.bool_)) or a is None:
        return a == b
    a, b = np.asarray(a), np.asarray(b)
    if a.shape != b.shape:
        return False
    if a.size == 0:
        return True
    if tol == 0.0:
        return bool(np.array_equal(a, b, equal_nan=True))
    return bool(np.abs(a.astype(np.complex128) - b.astype(np.complex128)).max() <= tol * max(1.0, float(np.abs(b).max())))


def hard_call(ctx, name, f, args, replay, kwargs=None, same=None):
    """call `f(*args)` twice on the very same argument objects: arguments must be bit-identical afterwards (no in-place edit of the
    caller's data), both results identical (`same`: comparison for routines built on ARPACK, whose start vector is random: equal up to 1e-9 /
    equal support values); an exception becomes a failure with the input, never an abort"""
    kwargs = kwargs or {}
    before = [_snap(a) for a in args]
    try:
        r1 = f(*args, **kwargs)
        mid = [_snap(a) for a in args]
        r2 = f(*args, **kwargs)
    except Exception as e:
        ctx.fail('hardening-exception', f'{name} raised {type(e).__name__}: {e}', replay); return None
    if mid != before or [_snap(a) for a in args] != before:
        ctx.fail('aliasing', f'{name} modified an argument of the caller in place', replay); return None
    if not (same or _same)(r1, r2):
        ctx.fail('repeat-call', f'{name}: two calls on the same arguments give different results', replay); return None
    ctx.probe_ok()
    return r1


def layouts(x):
    """the same values as C-contiguous, Fortran-ordered and as a non-contiguous strided view"""
    x = np.ascontiguousarray(x)
    big = np.zeros(tuple(2 * n for n in x.shape), dtype=x.dtype)
    big[tuple(slice(None, None, 2) for _ in x.shape)] = x
    return [('C', x), ('F', np.asfortranarray(x)), ('strided-view', big[tuple(slice(None, None, 2) for _ in x.shape)])]


def probe_hardening(ctx):
    from numqi.matrix_space import (get_matrix_orthogonal_basis, has_rank_hierarchical_method, detect_real_matrix_subspace_rank_one,
                                    is_ABC_completely_entangled_subspace, get_matrix_numerical_range, get_matrix_subspace_example,
                                    tensor2d_project_to_antisym_basis)
    from numqi.matrix_space import _hierarchy as H
    rng = np.random.default_rng(ctx.np_seed + 18)
    # --- get_matrix_orthogonal_basis: layouts, integer dtype, a zero generator in the list, float32 (independent generators only: the
    #     library's absolute threshold 1e-10 is below float32 resolution, so float32 with dependent generators is outside the claim)
    for cls in _EXPECT:
        n1, n2 = (3, 3) if cls not in ('R', 'C(real)', 'C', 'R_c') else (2, 3)
        field, gens, amb, k = _class_generators(rng, cls, n1, n2, 2, 1)
        gi = np.round(gens * 4)           # integer-valued generators of the same class
        base = hard_call(ctx, f'get_matrix_orthogonal_basis[{cls}]', get_matrix_orthogonal_basis, (gi, field), dict(op='gmob', cls=cls, generators_re=gi.real.tolist(), generators_im=np.asarray(gi.imag).tolist()))
        if base is None:
            continue
        variants = [(nm, a) for nm, a in layouts(gi)[1:]]
        if not np.iscomplexobj(gi):
            variants.append(('int64', gi.astype(np.int64)))
        variants.append(('with a zero generator', np.concatenate([gi, np.zeros_like(gi[:1])])))
        for nm, a in variants:
            replay = dict(op='get_matrix_orthogonal_basis', cls=cls, variant=nm, generators_re=np.asarray(a).real.tolist(), generators_im=np.asarray(np.asarray(a).imag).tolist())
            r = hard_call(ctx, f'get_matrix_orthogonal_basis[{cls}, {nm}]', get_matrix_orthogonal_basis, (a, field), replay)
            if r is None:
                continue
            if r[2] != base[2] or r[0].shape != base[0].shape or r[1].shape != base[1].shape:
                ctx.fail('hardening-variant', f'get_matrix_orthogonal_basis[{cls}]: input as {nm} gives class {r[2]}, shapes {r[0].shape},{r[1].shape} instead of {base[2]}, {base[0].shape},{base[1].shape}', replay)
            else:
                # same subspace: projector on the returned basis
                pj = lambda b: (lambda v: v.T @ v.conj())(b.reshape(b.shape[0], -1))
                if np.abs(pj(r[0]) - pj(base[0])).max() > 1e-9:
                    ctx.fail('hardening-variant', f'get_matrix_orthogonal_basis[{cls}]: input as {nm} spans a different subspace (projector deviation {np.abs(pj(r[0]) - pj(base[0])).max():.3g})', replay)
                else:
                    ctx.probe_ok(('hard-gmob', cls, nm))
        f32 = gens[:2].astype(np.complex64 if np.iscomplexobj(gens) else np.float32)
        r = hard_call(ctx, f'get_matrix_orthogonal_basis[{cls}, float32]', get_matrix_orthogonal_basis, (f32, field), dict(op='gmob', cls=cls, variant='float32'))
        if r is not None and (r[0].shape[0] != 2 or r[2] != _EXPECT[cls]):
            ctx.fail('hardening-variant', f'get_matrix_orthogonal_basis[{cls}]: two independent float32 generators give {r[0].shape[0]} basis elements, class {r[2]}', dict(op='gmob', cls=cls, variant='float32', generators_re=f32.real.tolist()))
    # --- rank certificates: decision must not depend on container / layout / dtype
    ex1 = get_matrix_subspace_example('hierarchy-ex1')[0]
    ex1 = np.linalg.qr(ex1.reshape(ex1.shape[0], -1).T)[0].T.reshape(ex1.shape)
    planted = _planted_bipartite(rng, 3, 3, 2, 1, False)[0]
    for nm0, basis, want in (('hierarchy-ex1', ex1, True), ('planted rank-1', planted, False)):
        for nm, a in layouts(basis) + [('list', list(basis)), ('float32', basis.astype(np.float32)), ('complex128 zero imag', basis.astype(np.complex128))]:
            replay = dict(op='has_rank_hierarchical_method', input=nm0, variant=nm, basis=np.asarray(basis).tolist())
            r = hard_call(ctx, f'has_rank_hierarchical_method[{nm0}, {nm}]', lambda x: bool(has_rank_hierarchical_method(x, 2, hierarchy_k=1)), (a,), replay)
            if r is not None and r != want:
                ctx.fail('hardening-variant', f'has_rank_hierarchical_method on {nm0} given as {nm} answers {r}, as a float64 array {want}', replay)
    ival = np.stack([np.eye(3, dtype=np.int64), np.diag([1, -1, 0]).astype(np.int64)])
    r = hard_call(ctx, 'has_rank_hierarchical_method[int64]', lambda x: bool(has_rank_hierarchical_method(x, 2)), (ival,), dict(op='hier', variant='int64', basis=ival.tolist()))
    r2 = hard_call(ctx, 'has_rank_hierarchical_method[float of int64]', lambda x: bool(has_rank_hierarchical_method(x, 2)), (ival.astype(np.float64),), dict(op='hier', basis=ival.tolist()))
    if r is not None and r2 is not None and r != r2:
        ctx.fail('hardening-variant', f'has_rank_hierarchical_method: int64 input {r}, float64 input {r2}', dict(op='hier', basis=ival.tolist()))
    det_same = lambda a, b: bool(a[0]) == bool(b[0]) and abs(a[1] - b[1]) <= 1e-9          # eigsh (ARPACK) inside for dimA*dimB >= 5
    for nm0, ms in (('span(1, iY)', np.stack([np.eye(2), np.array([[0, -1.0], [1, 0]])])), ('planted rank-1', planted)):
        base = hard_call(ctx, f'detect_real_matrix_subspace_rank_one[{nm0}]', detect_real_matrix_subspace_rank_one, (ms,), dict(op='detect', input=nm0, basis=ms.tolist()), same=det_same)
        for nm, a in layouts(ms)[1:] + [('float32', ms.astype(np.float32))] + ([('int64', ms.astype(np.int64))] if nm0.startswith('span') else []):
            replay = dict(op='detect_real_matrix_subspace_rank_one', input=nm0, variant=nm, basis=ms.tolist())
            r = hard_call(ctx, f'detect_real_matrix_subspace_rank_one[{nm0}, {nm}]', detect_real_matrix_subspace_rank_one, (a,), replay, same=det_same)
            if base is not None and r is not None and (bool(r[0]) != bool(base[0]) or abs(r[1] - base[1]) > (1e-5 if nm == 'float32' else 1e-9)):
                ctx.fail('hardening-variant', f'detect_real_matrix_subspace_rank_one on {nm0} given as {nm}: {r}, as float64 {base}', replay)
    q3 = np.linalg.qr(rng.normal(size=(12, 2)))[0].T.reshape(2, 2, 3, 2)
    hard_call(ctx, 'is_ABC_completely_entangled_subspace[list]', lambda x: bool(is_ABC_completely_entangled_subspace(x)), (list(q3),), dict(op='abc', basis=q3.tolist()))
    hard_call(ctx, 'tensor2d_project_to_antisym_basis', tensor2d_project_to_antisym_basis, (list(planted), [0, 1]), dict(op='proj', basis=planted.tolist()))
    # --- numerical range: dtype / layout; degenerate and boundary matrices (support function attained whatever eigenvector is returned)
    A = rng.integers(-3, 4, size=(4, 4)) + 1j * rng.integers(-3, 4, size=(4, 4))
    base = hard_call(ctx, 'get_matrix_numerical_range', get_matrix_numerical_range, (A.astype(np.complex128), 7), dict(op='nr', A_re=A.real.tolist(), A_im=A.imag.tolist()))   # n = 4: dense eigh, deterministic
    for nm, a, tol in [(n_, x, 1e-9) for n_, x in layouts(A.astype(np.complex128))[1:]] + [('complex64', A.astype(np.complex64), 1e-4), ('int64 real part', A.real.astype(np.int64), None)]:
        r = hard_call(ctx, f'get_matrix_numerical_range[{nm}]', get_matrix_numerical_range, (a, 7), dict(op='nr', variant=nm, A_re=np.asarray(a).real.tolist(), A_im=np.asarray(np.asarray(a).imag).tolist()))
        ref = base if tol is not None else hard_call(ctx, 'get_matrix_numerical_range[float of int]', get_matrix_numerical_range, (a.astype(np.float64), 7), dict(op='nr'))
        if r is not None and ref is not None:
            th = np.linspace(0, 2 * np.pi, 7)
            d = np.abs((np.exp(1j * th) * (r - ref)).real).max()         # support values agree (the points themselves may differ on flat parts)
            if d > (tol or 1e-9) * max(1.0, np.abs(ref).max()):
                ctx.fail('hardening-variant', f'get_matrix_numerical_range given as {nm}: support values differ by {d:.3g}', dict(op='nr', variant=nm, A_re=np.asarray(a).real.tolist()))
    for nm, M in [('zero', np.zeros((3, 3), dtype=complex)), ('identity', np.eye(4, dtype=complex)), ('Hermitian', (lambda z: z + z.conj().T)(rng.normal(size=(4, 4)) + 1j * rng.normal(size=(4, 4)))),
                  ('normal, repeated eigenvalue', np.diag([1 + 1j, 1 + 1j, -1, 0.5j]).astype(complex)), ('gap 1e-12', np.diag([1, 1 - 1e-12, 0.3, -1]).astype(complex)),
                  ('gap 1e-8', np.diag([1j, 1j * (1 - 1e-8), 0.2, -0.5]).astype(complex)), ('size 6 repeated', np.diag([2, 2, 2, 1j, 1j, -1]).astype(complex))]:
        replay = dict(op='get_matrix_numerical_range', matrix=nm, A_re=M.real.tolist(), A_im=M.imag.tolist(), num_point=9)
        th9 = np.linspace(0, 2 * np.pi, 9)
        pts = hard_call(ctx, f'get_matrix_numerical_range[{nm}]', get_matrix_numerical_range, (M, 9), replay,
                        same=lambda a, b: np.abs((np.exp(1j * th9) * (a - b)).real).max() <= 1e-9)      # degenerate top eigenvalue: any eigenvector, same support value
        if pts is None:
            continue
        worst = 0.0
        for t, z in zip(np.linspace(0, 2 * np.pi, 9), pts):
            Hm = (np.exp(1j * t) * M + np.exp(-1j * t) * M.conj().T) / 2
            worst = max(worst, abs((np.exp(1j * t) * z).real - np.linalg.eigvalsh(Hm)[-1]))
        if worst > 1e-8:
            ctx.fail('numrange-support', f'numerical range of a {nm} matrix: a returned point misses the support function by {worst:.3g}', replay)
        else:
            ctx.probe_ok(('nr-degenerate', nm))
    # --- histories: memoised tables are shared objects; after interleaved calls of different sizes they must still equal a fresh computation
    snap0 = [(_snap(list(H.get_antisymmetric_basis_index(4, t))), t) for t in (2, 3, (0, 0, 1), (0, 1, 1))]
    for rank, k, dims in [(2, 1, (3, 3)), (3, 2, (3, 4)), (2, 3, (2, 2)), (2, 1, (3, 3)), (3, 1, (4, 4))]:
        B = _planted_bipartite(rng, dims[0], dims[1], 2, rank - 1, False)[0]
        hard_call(ctx, f'has_rank_hierarchical_method[history rank={rank} k={k}]', lambda x: bool(has_rank_hierarchical_method(x, rank, hierarchy_k=k)), (B,), dict(op='hier-history', rank=rank, k=k, basis=B.tolist()))
    for s0, t in snap0:
        fresh = H.get_antisymmetric_basis_index.__wrapped__(4, t) if hasattr(H.get_antisymmetric_basis_index, '__wrapped__') else H.get_antisymmetric_basis_index(4, t)
        if _snap(list(H.get_antisymmetric_basis_index(4, t))) != s0 or _snap(list(fresh)) != s0:
            ctx.fail('stale-cache', f'get_antisymmetric_basis_index(4, {t}): the memoised table changed during the run (or differs from a fresh computation)', dict(op='cache', arg=str(t)))
        else:
            ctx.probe_ok(('cache', str(t)))



CORPUS = os.path.join(common.VERIF, 'corpus', 'C20')


def replay_corpus(ctx):
    """regression corpus (committed): orthonormal bases with a planted low-rank element whose Gram matrix is numerically singular while
    min|diag U| of its partial-pivot LU exceeds 1e-7 (the repaired defect 561406a).  The unpatched function must answer False on each."""
    from numqi.matrix_space import has_rank_hierarchical_method, detect_real_matrix_subspace_rank_one
    if not os.path.isdir(CORPUS):
        return
    for fn in sorted(os.listdir(CORPUS)):
        if not fn.endswith('.json'):
            continue
        d = json.load(open(os.path.join(CORPUS, fn)))
        if d['op'] == 'detect_real_matrix_subspace_rank_one':
            # repaired defect a1c714f: real subspaces containing a rank-one element whose computed bound is 1 minus rounding
            B = np.array([float.fromhex(x) for x in d['basis_re_hex']]).reshape(d['N'], d['dA'], d['dB'])
            replay = dict(op=d['op'], corpus_file=os.path.join('corpus', 'C20', fn), dA=d['dA'], dB=d['dB'], N=d['N'], basis=B.tolist())
            try:
                tag, ub = detect_real_matrix_subspace_rank_one(B)
            except Exception as e:
                ctx.fail('rankone-exception', f'detect_real_matrix_subspace_rank_one raised {type(e).__name__}: {e} on corpus instance {fn}', replay); continue
            ctx.count('corpus-replayed')
            if not tag:
                ctx.fail('rankone-unsound', f'corpus instance {fn}: detect_real_matrix_subspace_rank_one certifies "no rank-one element" (upper_bound={ub!r}, '
                         f'upper_bound-1={float(ub) - 1:.2e}) for a {d["dA"]}x{d["dB"]} real subspace of dimension {d["N"]} that contains one', replay)
            else:
                ctx.probe_ok(('corpus', fn))
            continue
        shape = (d['N'], d['dA'], d['dB'])
        B = np.array([float.fromhex(x) for x in d['basis_re_hex']]).reshape(shape)
        if d.get('basis_im_hex'):
            B = B + 1j * np.array([float.fromhex(x) for x in d['basis_im_hex']]).reshape(shape)
        replay = dict(op='has_rank_hierarchical_method', corpus_file=os.path.join('corpus', 'C20', fn), rank=d['rank'], hierarchy_k=d['hierarchy_k'],
                      planted_rank=d['planted_rank'], basis_re=B.real.tolist(), basis_im=(B.imag.tolist() if d.get('basis_im_hex') else None))
        try:
            res = has_rank_hierarchical_method(B, d['rank'], hierarchy_k=d['hierarchy_k'])
        except Exception as e:
            ctx.fail('hierarchy-exception', f'has_rank_hierarchical_method raised {type(e).__name__}: {e} on corpus instance {fn}', replay); continue
        ctx.count('corpus-replayed')
        if bool(res) != bool(d['expected']):
            ctx.fail('hierarchy-lu-not-rank-revealing', f'corpus instance {fn}: has_rank_hierarchical_method(rank={d["rank"]}, k={d["hierarchy_k"]}) certifies a '
                     f'{d["dA"]}x{d["dB"]} subspace (dim {d["N"]}) containing an element of rank {d["planted_rank"]} (Gram matrix singular, '
                     f'sigma_min/sigma_max={d["gram_sigma_min_over_max"]:.1e}; min|diag U| of its LU factor {d["lu_min_abs_pivot"]:.2e})', replay)
        else:
            ctx.probe_ok(('corpus', fn))


def probe_options(ctx):
    """non-default options and in-library oracles: get_vector_orthogonal_basis(tag_reduce=True) on dependent input; the naive dense
    projector (`naive_tensor2d_project_to_sym_antisym_basis`, built from the dense bases tied by asbasis/symbasis) against the fast
    routine; pre-processing of is_vector_linear_independent; method='rotation' against method='eigen' (measured, documented as 'usually'
    equal)"""
    import numqi, scipy.linalg
    from numqi.matrix_space import _misc as M, _hierarchy as H, _numerical_range as NR
    rng = np.random.default_rng(ctx.np_seed + 18)
    # --- tag_reduce=True (default) on dependent, unnormalised rows
    for rep in range(6 if ctx.quick() else 30):
        n1 = int(rng.integers(2, 8)); rk = int(rng.integers(1, n1 + 1)); extra = int(rng.integers(0, 3))
        cplx = rep % 2 == 1
        base = rng.normal(size=(rk, n1)) + (1j * rng.normal(size=(rk, n1)) if cplx else 0)
        mix = rng.normal(size=(rk + extra, rk)) + (1j * rng.normal(size=(rk + extra, rk)) if cplx else 0)
        np0 = mix @ base * float(rng.choice([1.0, 1e-3, 50.0]))
        replay = dict(op='get_vector_orthogonal_basis', tag_reduce=True, np0_re=np0.real.tolist(), np0_im=(np0.imag.tolist() if cplx else None))
        keep = np0.copy()
        try:
            ret = M.get_vector_orthogonal_basis(np0)
            ret2 = M.get_vector_orthogonal_basis(np0, tag_reduce=True)
        except Exception as e:
            ctx.fail('orth-basis-reduce', f'get_vector_orthogonal_basis(tag_reduce=True) raised {type(e).__name__}: {e}', replay); continue
        true_rank = int(np.linalg.matrix_rank(np0, tol=1e-8 * np.abs(np0).max()))
        bad = []
        if not np.array_equal(np0, keep):
            bad.append('input modified')
        if ret.shape != (n1 - true_rank, n1) or ret2.shape != ret.shape:
            bad.append(f'{ret.shape[0]} complement vectors for rank {true_rank} in dimension {n1}')
        else:
            if ret.shape[0] and np.abs(ret.conj() @ ret.T - np.eye(ret.shape[0])).max() > 1e-10:
                bad.append('complement not orthonormal')
            if ret.shape[0] and np.abs(np0.conj() @ ret.T).max() > 1e-10 * max(1.0, np.abs(np0).max()):
                bad.append(f'complement not orthogonal to the input rows ({np.abs(np0.conj() @ ret.T).max():.2e})')
        if bad:
            ctx.fail('orth-basis-reduce', '; '.join(bad[:2]), replay)
        else:
            ctx.probe_ok(('orth-reduce', n1, true_rank, cplx))
    # --- naive dense projector = fast routine (the relation of the library's own unit test), r = 1, 2; k = 2, 3
    cfg = [(2, 2, 1, 2, 2), (2, 3, 1, 2, 2), (2, 2, 1, 3, 2), (3, 3, 2, 2, 3)] + ([] if ctx.quick() else [(3, 3, 1, 3, 3), (2, 3, 1, 3, 2), (3, 3, 2, 2, 2), (3, 2, 1, 2, 3)])
    for dA, dB, r, k, N in cfg:
        np_list = [rng.normal(size=(dA, dB)) for _ in range(N)]
        replay = dict(op='naive-vs-fast', dimA=dA, dimB=dB, r=r, k=k, np_list=[x.tolist() for x in np_list])
        try:
            alphas = list(itertools.combinations_with_replacement(range(N), r + k))
            naive = np.stack([H.naive_tensor2d_project_to_sym_antisym_basis([np_list[y] for y in al], r) for al in alphas])
            hf0 = lambda x: np.einsum(x[0], [0, 1, 2], x[1], [3, 2], [0, 1, 3], optimize=True)
            fast = np.stack([hf0(H.tensor2d_project_to_sym_antisym_basis(np_list, r, al)) for al in alphas])
            t0 = [-1] + [x for _ in range(k - 1) for x in (dA, dB)]
            t1 = [0] + [2 * x + 1 for x in range(k - 1)] + [2 * x + 2 for x in range(k - 1)]
            basis = H.get_symmetric_basis(dA * dB, k - 1).reshape(t0).transpose(t1).reshape(-1, (dA * dB) ** (k - 1))
            fast1 = (fast @ basis).reshape(fast.shape[:3] + (dA ** (k - 1), dB ** (k - 1))).transpose(0, 1, 3, 2, 4).reshape(fast.shape[0], -1)
        except Exception as e:
            ctx.fail('naive-vs-fast', f'raised {type(e).__name__}: {e}', replay); continue
        d = np.abs(naive - fast1).max() if naive.shape == fast1.shape else float('inf')
        ctx.extra['naive_vs_fast_max'] = max(ctx.extra.get('naive_vs_fast_max', 0.0), float(d))
        if d > 1e-10 * max(1.0, np.abs(naive).max()):
            ctx.fail('naive-vs-fast', f'({dA},{dB}) r={r} k={k}: the dense projector and tensor2d_project_to_sym_antisym_basis differ by {d:.3e}', replay)
        else:
            ctx.probe_ok(('naive-vs-fast', dA, dB, r, k))
    # --- is_vector_linear_independent: reshape, [Re, Im] for field='real' on complex input, more vectors than coordinates
    for rep in range(6 if ctx.quick() else 24):
        n0 = int(rng.integers(1, 5)); shp = (int(rng.integers(1, 4)), int(rng.integers(1, 4)))
        cplx = rep % 3 != 0; field = 'real' if rep % 2 == 0 else 'complex'
        a = rng.integers(-3, 4, size=(n0,) + shp) + (1j * rng.integers(-3, 4, size=(n0,) + shp) if cplx else 0)
        replay = dict(op='is_vector_linear_independent', field=field, np0_re=np.real(a).tolist(), np0_im=np.imag(a).tolist())
        try:
            with eig_spy() as spy:
                res = M.is_vector_linear_independent(a, field)
        except Exception as e:
            ctx.fail('li-preprocessing', f'raised {type(e).__name__}: {e}', replay); continue
        flat = a.reshape(n0, -1)
        if field == 'real' and cplx:
            flat = np.concatenate([flat.real, flat.imag], axis=1)
        exact_rank = np.linalg.matrix_rank(flat)      # small integers: exact
        bad = []
        if flat.shape[0] > flat.shape[1]:
            if res is not False:
                bad.append('more vectors than coordinates: expected False')
        else:
            gram = flat.conj() @ flat.T
            if not any(np.array_equal(m_, gram) for m_ in spy.matrices(gram.shape[0])):
                ctx.count('li-gram-not-observed')      # a decision that does not go through the eigvalsh / eigh / lu family of the Gram matrix: noted
        if bool(res) and exact_rank < n0:
            bad.append(f'answers independent for integer vectors of rank {exact_rank} < {n0}')
        if (not res) and exact_rank == n0 and flat.shape[0] <= flat.shape[1]:
            bad.append(f'answers dependent for independent small-integer vectors')
        if bad:
            ctx.fail('li-preprocessing', f'field={field}, complex input={cplx}, shape {a.shape}: ' + '; '.join(bad[:2]), replay)
        else:
            ctx.probe_ok(('li', field, cplx, flat.shape[0] > flat.shape[1]))
    # --- rotation vs eigen (both documented; 'usually' equal): measured, a gross difference without the library's warning is reported
    ran_rot = False
    for rep in range(3 if ctx.quick() else 12):
        dA, dB = [(2, 2), (2, 3), (3, 3)][rep % 3]
        n = dA * dB
        a = rng.normal(size=(n, n)); a = a + a.T
        mat = a.reshape(dA, dB, dA, dB)
        for kind in ('min', 'max'):
            try:
                buf = io.StringIO()
                with contextlib.redirect_stdout(buf):
                    v_rot = NR.get_real_bipartite_numerical_range(mat, kind=kind, method='rotation')
                v_eig = NR.get_real_bipartite_numerical_range(mat, kind=kind, method='eigen')
            except Exception as e:
                ctx.count('rotation-raised-' + type(e).__name__); continue
            d = abs(v_rot - v_eig)
            ctx.extra['rotation_vs_eigen_max'] = max(ctx.extra.get('rotation_vs_eigen_max', 0.0), float(d))
            warned = 'WARNING' in buf.getvalue()
            ctx.count('rotation-vs-eigen' + ('-warned' if warned else ''))
            ran_rot = True
            if d > 1e-5 * max(1.0, abs(v_eig)) and not warned:
                ctx.fail('rotation-vs-eigen', f'({dA},{dB}) kind={kind}: method=rotation gives {v_rot!r}, method=eigen {v_eig!r}, no warning printed',
                         dict(op='get_real_bipartite_numerical_range', kind=kind, mat=mat.tolist()))
            else:
                ctx.probe_ok(('rotation-vs-eigen', dA, dB, kind))
    if not ran_rot:
        ctx.fail('rotation-never-ran', "get_real_bipartite_numerical_range(method='rotation' / 'eigen') raised on every symmetric input tried", dict(op='get_real_bipartite_numerical_range', method='rotation'))


def _arrays_of(x):
    """all numpy arrays (torch tensors as their numpy view) inside a result"""
    try:
        import torch
        if isinstance(x, torch.Tensor):
            return [x.detach().numpy()]
    except Exception:
        pass
    if isinstance(x, np.ndarray):
        return [x]
    if isinstance(x, (list, tuple)):
        return [a for y in x for a in _arrays_of(y)]
    if isinstance(x, dict):
        return [a for y in x.values() for a in _arrays_of(y)]
    return []


def _buffer_reuse(ctx, name, f, A, B, same=None):
    """hardening class "buffer reuse across calls": r1 = f(A); r2 = f(B) with B != A of the same size; r1 must be unchanged bit for bit, must
    not share memory with r2, and f(A) again must reproduce it (also after the caller overwrote the earlier results in place)"""
    import copy
    key = name + ':result-overwritten-by-next-call'
    replay = dict(op=name, history=['f(A)', 'f(B)', 'overwrite results', 'f(A)'], A=repr(A)[:400], B=repr(B)[:400])
    try:
        r1 = f(A); a1 = _arrays_of(r1); c1 = [a.copy() for a in a1]
        r2 = f(B); a2 = _arrays_of(r2)
    except Exception as e:
        ctx.fail(key, f'{name} raised {type(e).__name__}: {e}', replay); return
    bad = []
    if any(not np.array_equal(a, c, equal_nan=True) for a, c in zip(a1, c1)):
        bad.append('the first result changed when the function was called with a different input of the same size')
    if any(np.shares_memory(a, b) for a in a1 for b in a2 if a.size and b.size):
        bad.append('the results of two calls with different inputs share memory')
    try:
        for a in a1 + a2:
            if a.flags.writeable:
                a[...] = 7
        a3 = _arrays_of(f(A))
        ok = len(a3) == len(c1) and all((same or (lambda x, y: x.shape == y.shape and np.array_equal(x, y, equal_nan=True)))(x, y) for x, y in zip(a3, c1))
        if not ok:
            bad.append('after the caller overwrote earlier results, f(A) no longer reproduces its first answer')
    except Exception as e:
        bad.append(f'repeat call raised {type(e).__name__}: {e}')
    if bad:
        ctx.fail(key, f'{name}: ' + '; '.join(bad), replay)
    else:
        ctx.probe_ok(('buffer-reuse', name))


def probe_buffer_reuse(ctx):
    """array-returning functions of C20's scope, two different inputs of the same size (deterministic, quick tier)"""
    import numqi
    MS = numqi.matrix_space
    from numqi.matrix_space import _hierarchy as H, _misc as M
    rng = np.random.default_rng(4321)
    close = lambda x, y: x.shape == y.shape and np.abs(np.abs(x) - np.abs(y)).max(initial=0) <= 1e-8      # eigenvectors: up to sign / ARPACK noise
    for shape, field in [((2, 3, 3), 'real'), ((2, 2, 3), 'complex')]:
        A = rng.normal(size=shape) + (1j * rng.normal(size=shape) if field == 'complex' else 0)
        B = rng.normal(size=shape) + (1j * rng.normal(size=shape) if field == 'complex' else 0)
        _buffer_reuse(ctx, f'get_matrix_orthogonal_basis[{shape},{field}]', lambda x: MS.get_matrix_orthogonal_basis(x, field), A, B, same=close)
        fa, fb = A.reshape(shape[0], -1), B.reshape(shape[0], -1)
        _buffer_reuse(ctx, f'reduce_vector_space[{shape}]', lambda x: M.reduce_vector_space(x), fa, fb, same=close)
        _buffer_reuse(ctx, f'get_vector_orthogonal_basis[{shape}]', lambda x: M.get_vector_orthogonal_basis(x), fa, fb, same=close)
    A, B = [rng.normal(size=(3, 3)) for _ in range(3)], [rng.normal(size=(3, 3)) for _ in range(3)]
    _buffer_reuse(ctx, 'tensor2d_project_to_antisym_basis', lambda x: H.tensor2d_project_to_antisym_basis(x, [0, 1]), A, B)
    _buffer_reuse(ctx, 'project_to_symmetric_basis', lambda x: H.project_to_symmetric_basis([y.reshape(-1) for y in x], [0, 1]), A, B)
    _buffer_reuse(ctx, 'tensor2d_project_to_sym_antisym_basis', lambda x: H.tensor2d_project_to_sym_antisym_basis(x, 1, [0, 1, 2]), A, B)
    _buffer_reuse(ctx, 'has_rank_hierarchical_method[return_info]', lambda x: H.has_rank_hierarchical_method(np.stack(x), 2, hierarchy_k=2, return_info=True)[1], A, B)
    Z, W = rng.normal(size=(4, 4)) + 1j * rng.normal(size=(4, 4)), rng.normal(size=(4, 4)) + 1j * rng.normal(size=(4, 4))
    _buffer_reuse(ctx, 'get_matrix_numerical_range', lambda x: MS.get_matrix_numerical_range(x, num_point=9), Z, W, same=lambda x, y: x.shape == y.shape and np.abs(x - y).max(initial=0) <= 1e-9)
    _buffer_reuse(ctx, 'get_matrix_numerical_range_along_direction', lambda x: MS.get_matrix_numerical_range_along_direction(x, 0.7)[1], Z, W, same=close)


def probe(ctx):
    for part in (replay_corpus, probe_decomposition, probe_decomposition_graded, probe_planted, probe_numrange, probe_hardening, probe_options, probe_buffer_reuse):
        _guarded_part(ctx, part, tie=False)


def search(ctx, hints):
    """a proof obligation or the correspondence broke and the probe found nothing: widen the probe (thorough sizes, more repetitions)"""
    tier = ctx.tier
    ctx.tier = 'thorough'
    try:
        for s in range(3):
            ctx.np_seed += 101
            probe_planted(ctx)
            if ctx.failures:
                break
            probe_decomposition(ctx)
            if ctx.failures:
                break
            probe_decomposition_graded(ctx)
            if ctx.failures:
                break
        if not ctx.failures:
            probe_numrange(ctx)
    finally:
        ctx.tier = tier
