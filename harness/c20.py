"""C20 — matrix-subspace decomposition is exact and rank certificates are sound.

Model: lean/NumqiModel/MatrixSpace.lean (+ Generated/Thresholds20.lean, regenerated from the source on every run).
Theorems: lean/NumqiProps/C20.lean.
Correspondence: exact on integer data for every index table / reshape / projector entry; 1e-12 for the two
operations whose implementation side multiplies by a non-dyadic float (1/r!, exp(i theta)/2, optimiser-chosen p).
Probe: direct evaluation of the property statement on the real code (orthogonality / span / complement / dimension
count for the seven structure classes, planted low-rank elements against both certificates, support function).
"""
import ast, os, itertools, math, json
from fractions import Fraction
import numpy as np
from . import common

THEOREM_FILES = ['NumqiProps/C20.lean']
GREP_FILES = ['NumqiModel/Generated/Thresholds20.lean']
LEVEL = 'proof'
RULE = ('index tables: every tuple pattern of length <= 4 (<= 5 thorough) exhaustively, dims 1..6; polarised minors on random integer '
        'matrices for every sorted INDEX pattern, r <= 3 (4 thorough); structure-class shuffles on random integer inputs dims 1..5 for '
        'all seven classes; decision ops on both sides of each threshold. An op is non-trivial when its output is not all zeros/empty; '
        'distinct = distinct op lines.')
TRUSTED = ['Lean 4.33 kernel', 'axioms: propext, Classical.choice, Quot.sound', 'Lean compiler for the driver executable',
           'harness/c20.py: ast translator for the three certificate comparisons (validated dynamically on both sides of each threshold), '
           'canonicalisation, in-process wrappers that capture the arrays handed to svd/eigh helpers',
           'modelled, not verified: numqi/matrix_space/{_misc,_hierarchy,_numerical_range}.py',
           'contracts (hypotheses of the theorems, probed only): np.linalg.svd / eigh / eigvalsh, scipy.linalg.lu, '
           'scipy.sparse.linalg.eigsh, scipy.optimize.minimize_scalar / root_scalar; Gell-Mann transform = C16']

GEN = os.path.join(common.LEAN, 'NumqiModel', 'Generated', 'Thresholds20.lean')

# ---------------------------------------------------------------------------
# translator: the three certificate comparisons and their default tolerances
# ---------------------------------------------------------------------------
_CMP = {ast.Lt: '<', ast.LtE: '≤', ast.Gt: '>', ast.GtE: '≥'}
_BIN = {ast.Sub: '-', ast.Add: '+', ast.Mult: '*'}


class Untranslatable(Exception):
    pass


def _lean_expr(node, rename):
    if isinstance(node, ast.Name):
        return rename.get(node.id, node.id)
    if isinstance(node, ast.Constant) and isinstance(node.value, int) and node.value in (0, 1):
        return str(node.value)
    if isinstance(node, ast.BinOp) and type(node.op) in _BIN:
        return f'({_lean_expr(node.left, rename)} {_BIN[type(node.op)]} {_lean_expr(node.right, rename)})'
    if isinstance(node, ast.Call):
        # the measured quantity (np.abs(np.diag(lu(..)[2])).min()) is the model's input `m`
        return rename['<call>']
    raise Untranslatable(ast.dump(node))


def _lean_cmp(node, rename):
    if not (isinstance(node, ast.Compare) and len(node.ops) == 1 and type(node.ops[0]) in _CMP):
        raise Untranslatable(ast.dump(node))
    return f'{_lean_expr(node.left, rename)} {_CMP[type(node.ops[0])]} {_lean_expr(node.comparators[0], rename)}'


def _func(tree, name):
    for n in ast.walk(tree):
        if isinstance(n, ast.FunctionDef) and n.name == name:
            return n
    raise Untranslatable('function ' + name + ' not found')


def _default(fn, arg):
    names = [a.arg for a in fn.args.args]
    defaults = fn.args.defaults
    off = len(names) - len(defaults)
    i = names.index(arg)
    d = defaults[i - off]
    if not isinstance(d, ast.Constant) or not isinstance(d.value, (int, float)):
        raise Untranslatable('default of ' + arg)
    return Fraction(repr(d.value))


def _extract_rank_one(src):
    fn = _func(ast.parse(src), 'detect_real_matrix_subspace_rank_one')
    for n in ast.walk(fn):
        if isinstance(n, ast.If) and any(isinstance(x, ast.Name) and x.id == 'upper_bound' for x in ast.walk(n.test)):
            test = _lean_cmp(n.test, {})
            b = n.body[0]
            if not (isinstance(b, ast.Assign) and isinstance(b.value, ast.Constant) and isinstance(b.value.value, bool)):
                raise Untranslatable('if body')
            if b.value.value is True:      # the branch sets tag_rank_one=True: the certificate is the else branch
                test = f'¬ ({test})'
            return test, _default(fn, 'zero_eps')
    raise Untranslatable('no comparison on upper_bound')


def _extract_lu(src, fname):
    fn = _func(ast.parse(src), fname)
    for n in ast.walk(fn):
        if isinstance(n, ast.Assign) and len(n.targets) == 1 and isinstance(n.targets[0], ast.Name) and n.targets[0].id == 'ret' \
                and isinstance(n.value, ast.Compare):
            return _lean_cmp(n.value, {'<call>': 'm'}), _default(fn, 'zero_eps')
    raise Untranslatable('no `ret = … > zero_eps` in ' + fname)


_HDR = '''/- GENERATED by harness/c20.py (translate) from
   {repo}/python/numqi/matrix_space/_numerical_range.py and _hierarchy.py — do not edit.
   The comparison operators and default tolerances of the three rank certificates, as they stand in the source. -/
namespace Numqi.Generated.Thresholds20

'''

_DEF = '''/-- `{pyname}`: certificate condition `{pyexpr}` -/
def {name} {{α : Type}} [Zero α] [One α] [Add α] [Sub α] [Mul α] [LT α] [LE α]
    [DecidableRel (α := α) (· < ·)] [DecidableRel (α := α) (· ≤ ·)] ({args} : α) : Bool :=
  decide ({expr})
/-- default `zero_eps = {eps}` -/
def {name}EpsNum : Nat := {num}
def {name}EpsDen : Nat := {den}
def {name}EpsNeg : Bool := {neg}

'''


def translate(ctx=None):
    base = os.path.join(common.REPO, 'python', 'numqi', 'matrix_space')
    out = _HDR.format(repo='<repo>')
    items = []
    try:
        t, e = _extract_rank_one(open(os.path.join(base, '_numerical_range.py')).read())
        items.append(('rankOneCert', 'detect_real_matrix_subspace_rank_one', 'upper_bound zero_eps', t, e))
    except Untranslatable as ex:
        items.append(('rankOneCert', 'detect_real_matrix_subspace_rank_one (UNTRANSLATABLE: %s)' % str(ex)[:80].replace('-/', ''), 'upper_bound zero_eps', 'True', Fraction(0)))
    for name, fname in (('hierarchyCert', 'has_rank_hierarchical_method'), ('abcCert', 'is_ABC_completely_entangled_subspace')):
        try:
            t, e = _extract_lu(open(os.path.join(base, '_hierarchy.py')).read(), fname)
            items.append((name, fname, 'm zero_eps', t, e))
        except Untranslatable as ex:
            items.append((name, fname + ' (UNTRANSLATABLE: %s)' % str(ex)[:80].replace('-/', ''), 'm zero_eps', 'True', Fraction(0)))
    for name, pyname, args, expr, eps in items:
        out += _DEF.format(pyname=pyname, pyexpr=expr, name=name, args=args, expr=expr, eps=str(eps),
                           num=abs(eps.numerator), den=eps.denominator, neg='true' if eps < 0 else 'false')
    out += 'end Numqi.Generated.Thresholds20\n'
    old = open(GEN).read() if os.path.exists(GEN) else None
    if old != out:
        with common.build_lock():
            with open(GEN, 'w') as fh:
                fh.write(out)
    if ctx is not None:
        ctx.extra['translated'] = {name: dict(expr=expr, zero_eps=str(eps)) for name, _, _, expr, eps in items}
    return items
