"""Regenerate every translator-written Lean file (lean/NumqiModel/Generated/*) from the sources under common.REPO.
Used by bin/setup (so that the first `lake build` sees data generated from the tree it runs on) and before committing."""
import sys, importlib, traceback
from . import common


def main():
    rc = 0
    with common.build_lock():
        for i in range(1, 21):
            pid = f'C{i:02d}'
            try:
                mod = importlib.import_module(f'harness.{pid.lower()}')
            except Exception:
                continue
            if hasattr(mod, 'translate'):
                try:
                    mod.translate(common.Ctx(pid, 'quick', 0))
                    print(f'[translate] {pid} ok')
                except Exception:
                    traceback.print_exc()
                    print(f'[translate] {pid} FAILED', file=sys.stderr)
                    rc = 1
    return rc


if __name__ == '__main__':
    sys.exit(main())
