"""hardening class "buffer reuse across calls" (helper shared by harness/c15.py and harness/c18.py; owner: lie)

For a returning function f and two DIFFERENT inputs A, B of the same size/shape/order:
    r1 = f(A); c1 = deep copy of r1; r2 = f(B)
    (i)   r1 still equals c1 bit for bit,
    (ii)  r1 is not r2 and shares no memory with r2,
    (iii) r1 still satisfies the property for A (and r2 for B);
then f(A) -> overwrite the result in place -> f(B), f(A): both correct and f(A) bit-identical to the first answer.
A failure is reported under `<fn>:result-overwritten-by-next-call` with the history [f(A), f(B)] as the failing input.
A function that hands out the same (cached) object for the SAME input is a recorded observation, not a failure: the overwrite step is
skipped for it (and nothing is poisoned)."""
import copy
import numpy as np

try:
    import torch
except Exception:       # pragma: no cover
    torch = None

SUFFIX = ':result-overwritten-by-next-call'


def _is_tensor(x):
    return torch is not None and isinstance(x, torch.Tensor)


def leaves(x):
    if isinstance(x, np.ndarray) or _is_tensor(x):
        yield x
    elif isinstance(x, dict):
        for v in x.values():
            yield from leaves(v)
    elif isinstance(x, (list, tuple)):
        for v in x:
            yield from leaves(v)
    elif hasattr(x, 'toarray') and hasattr(x, 'data') and isinstance(getattr(x, 'data'), np.ndarray):   # scipy sparse
        yield x.data


def snapshot(x):
    if isinstance(x, np.ndarray):
        return np.array(x, copy=True)
    if _is_tensor(x):
        return x.detach().clone()
    if isinstance(x, dict):
        return {k: snapshot(v) for k, v in x.items()}
    if isinstance(x, (list, tuple)):
        return type(x)(snapshot(v) for v in x) if not hasattr(x, '_fields') else type(x)(*[snapshot(v) for v in x])
    return copy.deepcopy(x)


def _bits(a):
    if _is_tensor(a):
        a = a.detach().cpu().resolve_conj().numpy()
    return (a.shape, str(a.dtype), np.ascontiguousarray(a).tobytes())


def same_bits(x, c):
    if isinstance(x, np.ndarray) or _is_tensor(x):
        return (isinstance(c, np.ndarray) or _is_tensor(c)) and _bits(x) == _bits(c)
    if isinstance(x, dict):
        return isinstance(c, dict) and list(x.keys()) == list(c.keys()) and all(same_bits(x[k], c[k]) for k in x)
    if isinstance(x, (list, tuple)):
        return isinstance(c, (list, tuple)) and len(x) == len(c) and all(same_bits(a, b) for a, b in zip(x, c))
    try:
        return bool(x == c) or (x != x and c != c)
    except Exception:
        return x is c


def _shares(a, b):
    if a is b:
        return True
    if isinstance(a, np.ndarray) and isinstance(b, np.ndarray):
        return a.size > 0 and b.size > 0 and bool(np.shares_memory(a, b))
    if _is_tensor(a) and _is_tensor(b):
        return a.numel() > 0 and b.numel() > 0 and a.untyped_storage().data_ptr() == b.untyped_storage().data_ptr()
    if _is_tensor(a) and isinstance(b, np.ndarray):
        a, b = b, a
    if isinstance(a, np.ndarray) and _is_tensor(b):
        try:
            return a.size > 0 and b.numel() > 0 and bool(np.shares_memory(a, b.detach().numpy()))
        except Exception:
            return False
    return False


def shares(x, y):
    return any(_shares(a, b) for a in leaves(x) for b in leaves(y))


def poison(x):
    """overwrite every writable leaf in place; returns the number of leaves written"""
    n = 0
    for a in leaves(x):
        try:
            if isinstance(a, np.ndarray):
                if a.flags.writeable and a.size:
                    a[...] = 7 if a.dtype.kind in 'iufcb' else a
                    n += 1
            elif a.numel() and not a.requires_grad:
                a.fill_(7)
                n += 1
        except Exception:
            pass
    return n


def _call(f, args):
    try:
        return f(*args), None
    except Exception as e:      # noqa
        return None, f'{type(e).__name__}: {e}'


def run_pair(ctx, fname, f, A, B, check=None, label=None, jsonable=None):
    """one (A, B) pair of one function.  `check(result, args)` -> None | str (the property for these arguments);
    `label(args)` -> short text; `jsonable(args)` -> JSON-able description stored in the replay file"""
    key = fname + SUFFIX
    lab = label or (lambda a: repr(a)[:80])
    js = jsonable or (lambda a: repr(a)[:400])
    hist = [f'{fname}({lab(A)})', f'{fname}({lab(B)})']
    replay = dict(op='buffer-reuse', function=fname, history=hist, A=js(A), B=js(B))
    def chk(r, a):
        if check is None:
            return None
        try:
            return check(r, a)
        except Exception as ex:       # a result of the wrong type / shape is a failed property, not a crash of the check
            return f'oracle raised {type(ex).__name__}: {ex}'
    bad = []
    r1, e = _call(f, A)
    if e:
        ctx.fail(key, f'{hist[0]} raised {e}', replay); return False
    c1 = snapshot(r1)
    r2, e = _call(f, B)
    if e:
        ctx.fail(key, f'{hist[1]} raised {e}', replay); return False
    if not same_bits(r1, c1):
        bad.append('the first result changed when the function was called with the second input')
    if r1 is r2 or shares(r1, r2):
        bad.append('the two results are the same object / share memory')
    m = chk(r1, A)
    if m:
        bad.append(f'after the second call the first result no longer satisfies the property for its input: {m}')
    m = chk(r2, B)
    if m:
        bad.append(f'the second result does not satisfy the property for its input: {m}')
    # overwrite step: f(A) -> poison -> f(B), f(A).  Skipped when f(A) hands out one object for the same input (recorded observation).
    if not bad:
        ra, e1 = _call(f, A)
        ra_again, e2 = _call(f, A)
        if e1 or e2:
            bad.append(f'repeated call raised {e1 or e2}')
        elif list(leaves(ra)) and (ra is ra_again or shares(ra, ra_again)):
            ctx.extra.setdefault('same_object_for_same_input', [])
            if fname not in ctx.extra['same_object_for_same_input']:
                ctx.extra['same_object_for_same_input'].append(fname)
        else:
            poison(ra); poison(ra_again)
            rb, e1 = _call(f, B)
            ra2, e2 = _call(f, A)
            if e1 or e2:
                bad.append(f'call after the caller overwrote an earlier result raised {e1 or e2}')
            else:
                if not same_bits(ra2, c1):
                    bad.append('f(A) after the caller overwrote an earlier result (and f(B) was called) differs from the first answer')
                if not same_bits(rb, snapshot(r2)):
                    bad.append('f(B) after the caller overwrote an earlier result of f(A) differs from its first answer')
                m = chk(ra2, A) or chk(rb, B)
                if m:
                    bad.append(f'after the caller overwrote an earlier result: {m}')
    if bad:
        ctx.fail(key, f'history {hist}: ' + '; '.join(bad[:3]), replay)
        return False
    ctx.probe_ok(('bufreuse', fname, lab(A), lab(B)))
    return True


def run_objects(ctx, fname, make, method, A, B, check=None, label=None, jsonable=None):
    """stateful objects: two objects of the same size, interleaved calls  o1.m(A), o2.m(B), o1.m(B), o2.m(A)"""
    key = fname + SUFFIX
    lab = label or (lambda a: repr(a)[:80])
    js = jsonable or (lambda a: repr(a)[:400])
    hist = [f'obj1.{fname}({lab(A)})', f'obj2.{fname}({lab(B)})', f'obj1.{fname}({lab(B)})', f'obj2.{fname}({lab(A)})']
    replay = dict(op='buffer-reuse', function=fname, history=hist, A=js(A), B=js(B))
    chk = check or (lambda r, a: None)
    try:
        o1, o2 = make(), make()
        r1 = method(o1, *A); c1 = snapshot(r1)
        r2 = method(o2, *B); c2 = snapshot(r2)
        r3 = method(o1, *B); r4 = method(o2, *A)
    except Exception as e:
        ctx.fail(key, f'history {hist} raised {type(e).__name__}: {e}', replay); return False
    bad = []
    if not same_bits(r1, c1) or not same_bits(r2, c2):
        bad.append('an earlier result changed through a later call')
    if any(shares(x, y) for i, x in enumerate((r1, r2, r3, r4)) for y in (r1, r2, r3, r4)[i + 1:]):
        bad.append('two results share memory')
    for r, a in ((r1, A), (r2, B), (r3, B), (r4, A)):
        m = chk(r, a)
        if m:
            bad.append(m); break
    if bad:
        ctx.fail(key, f'history {hist}: ' + '; '.join(bad[:3]), replay); return False
    ctx.probe_ok(('bufreuse-obj', fname, lab(A), lab(B)))
    return True
