"""C08 — Pauli encodings are faithful: conversions bijective, algebra exact.

Model: lean/NumqiModel/Pauli.lean.  Theorems: lean/NumqiProps/C08.lean.
Correspondence: exact (bit strings / integers / exponents of i), no floats compared.
"""
import itertools
import numpy as np
from . import common

THEOREM_FILES = ['NumqiProps/C08.lean', 'NumqiProps/C08Batch.lean', 'NumqiProps/C08Wrap.lean', 'NumqiProps/C10F2.lean']
LEVEL = 'proof'
RULE = ('ops are generated exhaustively for n=1,2 (n=3 in thorough): every phased Pauli through every conversion, every ordered pair through '
        'mul/comm; plus random operators up to n=12 and indices up to 4^31, single and batched code paths. An op is non-trivial when the '
        'operator is not the identity with phase +1; distinct = distinct op lines.')
TRUSTED = ['Lean 4.33 kernel', 'axioms: propext, Classical.choice, Quot.sound', 'Lean compiler for the driver executable',
           'harness/c08.py canonicalisation (complex entries in {0,1,i,-1,-i} mapped to exponent characters)',
           'modelled, not verified: numqi/gate/_pauli.py; the eigen-decomposition inside from_full_matrix (n>=2) is a contract, probed']

PH = {0: 1, 1: 1j, 2: -1, 3: -1j}


def bits(a):
    return ''.join(str(int(x)) for x in a)


def f2arr(s):
    return np.array([int(c) for c in s], dtype=np.uint8)


def all_f2(n):
    for t in itertools.product('01', repeat=2 * n + 2):
        yield ''.join(t)


def mat_to_chars(M):
    out = []
    for v in np.asarray(M).reshape(-1):
        r, i = round(v.real), round(v.imag)
        if abs(v.real - r) > 1e-12 or abs(v.imag - i) > 1e-12:
            return 'nonintegral'
        out.append({(0, 0): '.', (1, 0): '0', (0, 1): '1', (-1, 0): '2', (0, -1): '3'}.get((r, i), '?'))
    return ''.join(out)


def sign_to_exp(s):
    s = complex(s)
    return {(1, 0): 0, (0, 1): 1, (-1, 0): 2, (0, -1): 3}[(int(round(s.real)), int(round(s.imag)))]


from .c09 import guarded, canon, REJECTION, buffer_reuse   # rejections are one token `rejected` whatever the exception class; nothing propagates


def safe_impl_op(op):
    try:
        return impl_op(op)
    except Exception as e:  # noqa: BLE001
        return 'raised:' + type(e).__name__


def impl_op(op):
    import numqi
    P = numqi.gate.PauliOperator
    G = numqi.gate
    t = op.split(' ')
    k = t[1]
    if k == 'mul':
        return guarded(lambda: bits((P(f2arr(t[3])) @ P(f2arr(t[4]))).F2))
    if k == 'inv':
        return guarded(lambda: bits(P(f2arr(t[3])).inverse().F2))
    if k == 'comm':
        return guarded(lambda: str(int(bool(P(f2arr(t[3])).commutate_with(P(f2arr(t[4])))))))
    if k == 'tostr':
        def f():
            s, sg = G.pauli_F2_to_str(f2arr(t[3]))
            return f'{s} {sign_to_exp(sg)}'
        return guarded(f)
    if k == 'ofstr':
        return guarded(lambda: bits(G.pauli_str_to_F2(t[3], PH[int(t[4])])))
    if k == 'toindex':
        return guarded(lambda: str(int(G.pauli_F2_to_index(f2arr(t[3]), with_sign=True))))
    if k == 'ofindex':
        return guarded(lambda: bits(G.pauli_index_to_F2(int(t[3]), int(t[2]), with_sign=True)))
    if k == 'idx2str':
        return guarded(lambda: G.pauli_index_to_str(int(t[3]), int(t[2])))
    if k == 'str2idx':
        return guarded(lambda: str(G.pauli_str_to_index(t[2])))
    if k in ('mat', 'full'):
        return guarded(lambda: mat_to_chars(P(f2arr(t[3])).full_matrix))
    if k == 'ofindexb':
        return guarded(lambda: bits(G.pauli_index_to_F2(np.array([int(t[3])], dtype=np.uint64), int(t[2]), with_sign=True)[0]))
    if k == 'toindexb':
        return guarded(lambda: str(int(G.pauli_F2_to_index(f2arr(t[3])[None, :], with_sign=True)[0])))
    if k == 'nplist':
        return guarded(lambda: '|'.join(';'.join(f'{int(round(v.real))},{int(round(v.imag))}' for v in np.asarray(m).reshape(-1)) for m in P(f2arr(t[3])).np_list))
    if k == 'fromnp':
        def f():
            mats = [np.array([complex(*map(int, e.split(','))) for e in m.split(';')]).reshape(2, 2) for m in t[4].split('|')]
            return bits(P.from_np_list(mats, PH[int(t[3])]).F2)
        return guarded(f)
    if k in ('pofindex', 'pofstr', 'pofF2'):
        def quad(p):
            # __len__, .F2, .str_, .sign of the constructed operator
            return f'{len(p)} {bits(p.F2)} {p.str_ if len(p) else "-"} {sign_to_exp(p.sign)}'
        def f():
            n = int(t[2])
            if k == 'pofindex':
                i = int(t[3])
                r = quad(P.from_index(i, n))
                if 0 <= i < 2 ** 62 and quad(P.from_index(np.int64(i), n)) != r:
                    return 'from_index depends on the integer type'
                if bits(G.pauli_index_to_F2(i, n, with_sign=True)) != r.split(' ')[1]:
                    return 'from_index(i).F2 differs from pauli_index_to_F2(i)'
                return r
            if k == 'pofstr':
                e = int(t[4])
                r = quad(P.from_str(t[3], PH[e]))
                if e == 0 and quad(P.from_str(t[3])) != r:
                    return 'from_str default sign differs from sign=1'
                if quad(P.from_str(t[3], sign=PH[e])) != r:
                    return 'from_str keyword sign differs'
                return r
            a = f2arr('' if t[3] == '-' else t[3])
            snap = a.copy()
            p = P.from_F2(a)
            r = quad(p)
            if not np.array_equal(a, snap):
                return 'from_F2 modified its argument'
            # an int64 array with the same 0/1 values: the current constructor rejects it (assert uint8); a constructor that accepts
            # it is fine as long as it builds the same operator
            try:
                r2 = quad(P.from_F2(a.astype(np.int64)))
            except REJECTION:
                r2 = r
            if r2 != r:
                return f'from_F2 accepts an int64 array with a different operator: {r2}'
            return r
        return guarded(f)
    if k == 'pstr':
        def f():
            p = P(f2arr(t[3]))
            s1, s2 = str(p), repr(p)
            if s1 != s2:
                return 'str != repr'
            return s1.replace(' ', '_')
        return guarded(f)
    if k == 'pgroup':
        def f():
            n = int(t[2])
            if t[3] == 'str':
                r = G.get_pauli_group(n, kind='str')      # any sequence of strings (tuple today)
                return '|'.join(str(x) for x in list(r))
            if t[3] == 'str_to_index':
                r = G.get_pauli_group(n, kind='str_to_index')
                return '|'.join(f'{a}:{int(b)}' for a, b in dict(r).items())
            if t[3] == 'numpy':
                r = G.get_pauli_group(n)                       # default kind
                r2 = G.get_pauli_group(n, kind='numpy')
                sp = G.get_pauli_group(n, kind='numpy', use_sparse=True)
                if r.shape != (4 ** n, 2 ** n, 2 ** n) or not np.array_equal(r, r2):
                    return f'shape {r.shape} / default kind differs'
                if len(sp) != 4 ** n or any(not np.array_equal(x.toarray(), y) for x, y in zip(sp, r)):
                    return 'use_sparse=True differs from the dense table'
                return '|'.join(mat_to_chars(m) for m in r)
            return guarded(lambda: str(G.get_pauli_group(n, kind=t[3])))
        return guarded(f)
    if k == 'ofindexns':
        def f():
            n, i = int(t[2]), int(t[3])
            r = bits(G.pauli_index_to_F2(i, n, with_sign=False))
            if 0 <= i < 4 ** n and n <= 31:
                rb = bits(G.pauli_index_to_F2(np.array([i], dtype=np.uint64), n, with_sign=False)[0])   # ndarray branch
                rl = bits(np.asarray(G.pauli_index_to_F2((i,), n, with_sign=False))[0])                # tuple -> ndarray branch
                if rb != r or rl != r:
                    return f'with_sign=False: int path {r}, ndarray path {rb}, tuple path {rl}'
            return r
        return guarded(f)
    if k == 'toindexns':
        def f():
            a = f2arr(t[3])
            r = int(G.pauli_F2_to_index(a, with_sign=False))
            rb = int(G.pauli_F2_to_index(a[None, :], with_sign=False)[0])     # 2-d branch
            if int(t[2]) <= 31 and rb != r:
                return f'with_sign=False: 1-d path {r}, 2-d path {rb}'
            return str(r)
        return guarded(f)
    if k == 'rpauli':
        def f():
            from .c07 import ScriptedGenerator
            n = int(t[2])
            raw = f2arr(t[4])
            req = {'N': None, 'H': True, 'A': False}[t[3]]
            p = numqi.random.rand_pauli(n, is_hermitian=req, seed=ScriptedGenerator(raw))
            return bits(p.F2)
        return guarded(f)
    if k == 'herm':
        def f():
            M = P(f2arr(t[3])).full_matrix
            return str(int(np.array_equal(M, M.conj().T)))
        return guarded(f)
    return 'bad-op'


def gen_ops(ctx):
    ops = []
    rng = ctx.rng
    ns = [1, 2] if ctx.quick() else [1, 2, 3]
    for n in ns:
        allp = list(all_f2(n))
        for a in allp:
            ops += [f'C08 inv {n} {a}', f'C08 tostr {n} {a}', f'C08 toindex {n} {a}', f'C08 mat {n} {a}', f'C08 full {n} {a}', f'C08 herm {n} {a}']
        pairs = itertools.product(allp, allp)
        if n == 3:
            pairs = [(rng.choice(allp), rng.choice(allp)) for _ in range(60000)]
        for a, b in pairs:
            ops += [f'C08 mul {n} {a} {b}', f'C08 comm {n} {a} {b}']
        # out-of-range indices must be rejected (index 4^n used to be accepted and aliased to 0: fixed in /repo b5eb57e)
        for idx in (4 ** n, 4 ** n + 1, 2 * 4 ** n):
            ops += [f'C08 ofindex {n} {idx}', f'C08 idx2str {n} {idx}']
        for idx in range(4 ** n):
            ops += [f'C08 ofindex {n} {idx}', f'C08 idx2str {n} {idx}']
            s = ''.join('IXYZ'[(idx >> (2 * (n - 1 - j))) & 3] for j in range(n))
            ops.append(f'C08 str2idx {s}')
            for e in range(4):
                ops.append(f'C08 ofstr {n} {s} {e}')
    # wrapper rows: PauliOperator.from_index / from_str / from_F2 / __len__ / __str__, get_pauli_group, with_sign=False paths,
    # rand_pauli post-processing (model NumqiModel/PauliWrap.lean; theorems NumqiProps/C08Wrap.lean)
    for n in ns:
        for idx in list(range(4 ** n)) + [4 ** n, 4 ** n + 1, 2 * 4 ** n, -1, -4 ** n]:
            ops += [f'C08 pofindex {n} {idx}', f'C08 ofindexns {n} {idx}']
        for idx in range(4 ** n):
            sx = ''.join('IXYZ'[(idx >> (2 * (n - 1 - j))) & 3] for j in range(n))
            for e in range(4):
                ops.append(f'C08 pofstr {n} {sx} {e}')
        for a in all_f2(n):
            ops += [f'C08 pofF2 {n} {a}', f'C08 pstr {n} {a}']
        for a in itertools.product('01', repeat=2 * n):
            ops.append(f'C08 toindexns {n} {"".join(a)}')
    for a in ('-', '0', '1', '00', '01', '10', '11', '000', '10101', '1010101'):   # too short / odd length / the 0-qubit operator
        ops.append(f'C08 pofF2 0 {a}')
    for n in (1, 2, 3):
        for kind in ('str', 'str_to_index', 'numpy', 'foo', 'Str'):
            ops.append(f'C08 pgroup {n} {kind}')
    for n in (1, 2):
        for raw in all_f2(n):
            for req in 'NHA':
                ops.append(f'C08 rpauli {n} {req} {raw}')
    for _ in range(150 if ctx.quick() else 2000):
        n = rng.choice([3, 4, 5, 8, 12, 16, 25, 31])
        a = ''.join(rng.choice('01') for _ in range(2 * n + 2))
        idx = rng.randrange(4 ** n)
        sx = ''.join(rng.choice('IXYZ') for _ in range(n))
        ops += [f'C08 pofindex {n} {idx}', f'C08 ofindexns {n} {idx}', f'C08 pofstr {n} {sx} {rng.randint(0, 3)}', f'C08 pofF2 {n} {a}',
                f'C08 pstr {n} {a}', f'C08 toindexns {n} {a[2:]}', f'C08 rpauli {n} {rng.choice("NHA")} {a}']
    nr = 300 if ctx.quick() else 3000
    for _ in range(nr):
        n = rng.randint(3, 12)
        a = ''.join(rng.choice('01') for _ in range(2 * n + 2))
        b = ''.join(rng.choice('01') for _ in range(2 * n + 2))
        ops += [f'C08 mul {n} {a} {b}', f'C08 comm {n} {a} {b}', f'C08 inv {n} {a}', f'C08 tostr {n} {a}', f'C08 toindex {n} {a}', f'C08 herm {n} {a}' if n <= 6 else f'C08 inv {n} {b}']
        if n <= 5:
            ops += [f'C08 full {n} {a}']
        s = ''.join(rng.choice('IXYZ') for _ in range(n))
        ops += [f'C08 ofstr {n} {s} {rng.randint(0, 3)}', f'C08 str2idx {s}']
    # batched code paths against their own Lean model (NumqiModel/PauliBatch.lean; theorems batched = single in NumqiProps/C08Batch.lean)
    for _ in range(nr):
        n = rng.choice([1, 2, 3, 5, 8, 16, 31])
        a = ''.join(rng.choice('01') for _ in range(2 * n + 2))
        ops += [f'C08 ofindexb {n} {rng.randrange(4 ** n)}', f'C08 toindexb {n} {a}']
        if n <= 8:
            e = rng.randint(0, 3)
            mats = '|'.join(';'.join(x for x in {'I': ['1,0', '0,0', '0,0', '1,0'], 'X': ['0,0', '1,0', '1,0', '0,0'], 'Y': ['0,0', '0,-1', '0,1', '0,0'], 'Z': ['1,0', '0,0', '0,0', '-1,0']}[c]) for c in (rng.choice('IXYZ') for _ in range(n)))
            ops += [f'C08 nplist {n} {a}', f'C08 fromnp {n} {e} {mats}']
    # a non-Pauli factor must be rejected by from_np_list
    ops += ['C08 fromnp 1 0 1,0;1,0;0,0;1,0', 'C08 fromnp 2 0 1,0;0,0;0,0;1,0|2,0;0,0;0,0;0,0']
    for _ in range(nr):
        n = rng.choice([13, 16, 20, 25, 31])
        idx = rng.randrange(4 ** n)
        ops += [f'C08 ofindex {n} {idx}', f'C08 idx2str {n} {idx}']
    return ops


def batched_tie(ctx):
    """the batched code paths (bit packing, reshape) against the model, item by item"""
    import numqi
    G = numqi.gate
    rng = np.random.default_rng(ctx.np_seed)
    shapes = [(5,), (3, 4)] if ctx.quick() else [(7,), (3, 4), (2, 3, 2), (1,), (40,)]
    ops, impl = [], []
    for n in ([1, 2, 5, 12, 31] if ctx.quick() else [1, 2, 3, 5, 8, 12, 16, 20, 31]):
        for shp in shapes:
            F = rng.integers(0, 2, size=shp + (2 * n + 2,), dtype=np.uint8)
            flat = F.reshape(-1, 2 * n + 2)
            s, sg = G.pauli_F2_to_str(F)
            idx = G.pauli_F2_to_index(F, with_sign=True)
            for f, s1, g1, i1 in zip(flat, np.asarray(s).reshape(-1), np.asarray(sg).reshape(-1), np.asarray(idx).reshape(-1)):
                ops.append(f'C08 tostr {n} {bits(f)}'); impl.append(f'{s1} {sign_to_exp(g1)}')
                ops.append(f'C08 toindex {n} {bits(f)}'); impl.append(str(int(i1)))
            if n <= 31:
                ind = rng.integers(0, 4 ** n, size=shp, dtype=np.uint64)
                F2 = G.pauli_index_to_F2(ind, n, with_sign=True)
                S2 = G.pauli_index_to_str(ind, n)
                for i1, f, s1 in zip(ind.reshape(-1), F2.reshape(-1, 2 * n + 2), np.asarray(S2).reshape(-1)):
                    ops.append(f'C08 ofindex {n} {int(i1)}'); impl.append(bits(f))
                    ops.append(f'C08 idx2str {n} {int(i1)}'); impl.append(str(s1))
                # the with_sign=False branches of both batched routes
                F2n = G.pauli_index_to_F2(ind, n, with_sign=False)
                I2n = G.pauli_F2_to_index(np.ascontiguousarray(F[..., 2:]), with_sign=False)
                for i1, f in zip(ind.reshape(-1), F2n.reshape(-1, 2 * n)):
                    ops.append(f'C08 ofindexns {n} {int(i1)}'); impl.append(bits(f))
                for f, i1 in zip(flat, np.asarray(I2n).reshape(-1)):
                    ops.append(f'C08 toindexns {n} {bits(f[2:])}'); impl.append(str(int(i1)))
            strs = np.array([''.join(rng.choice(list('IXYZ'), size=n)) for _ in range(int(np.prod(shp)))]).reshape(shp)
            es = rng.integers(0, 4, size=shp)
            sign = np.array([PH[int(e)] for e in es.reshape(-1)]).reshape(shp)
            F3 = G.pauli_str_to_F2(strs, sign)
            I3 = G.pauli_str_to_index(strs)
            for s1, e1, f, i1 in zip(strs.reshape(-1), es.reshape(-1), F3.reshape(-1, 2 * n + 2), np.asarray(I3).reshape(-1)):
                ops.append(f'C08 ofstr {n} {s1} {int(e1)}'); impl.append(bits(f))
                ops.append(f'C08 str2idx {s1}'); impl.append(str(int(i1)))
            # a scalar sign broadcast over the batch of strings
            e0 = int(rng.integers(0, 4))
            F4 = G.pauli_str_to_F2(strs, PH[e0])
            for s1, f in zip(strs.reshape(-1), F4.reshape(-1, 2 * n + 2)):
                ops.append(f'C08 ofstr {n} {s1} {e0}'); impl.append(bits(f))
    model = [canon(m) for m in common.run_model(ops)]
    impl = [canon(i) for i in impl]
    common.compare(ctx, ops, impl, model, key=lambda op: 'batched-' + op.split(' ')[1])


def correspondence(ctx):
    ops = gen_ops(ctx)
    impl = [canon(safe_impl_op(op)) for op in ops]
    model = [canon(m) for m in common.run_model(ops)]
    ident = lambda op, out: not all(c in '0 ' for c in ''.join(op.split(' ')[3:]))
    common.compare(ctx, ops, impl, model, nontrivial=ident)
    batched_tie(ctx)
    ctx.extra['exhaustive'] = True
    ctx.extra['exhaustive_domain'] = 'all 4^(n+1) phased Paulis and all ordered pairs for n=1,2' + ('' if ctx.quick() else '; all operators n=3')


def buffer_reuse_block(ctx, only=None):
    """deterministic block (both tiers, no rng) of the class "buffer reuse across calls": every conversion (single and batched),
    the PauliOperator fields and constructors, and get_pauli_group of the same n with different kinds — two different inputs of the
    same size each (see c09.buffer_reuse)"""
    import numqi
    P = numqi.gate.PauliOperator
    G = numqi.gate
    def run(fn, call, A, B, **kw):
        if only is None or only == fn:
            buffer_reuse(ctx, fn, call, A, B, **kw)
    def batch(desc, m):           # 'bits;bits;…' -> (k, m) uint8
        return np.array([[int(c) for c in r] for r in desc.split(';')], dtype=np.uint8).reshape(-1, m)
    def idxarr(desc):
        return np.array([int(x) for x in desc.split(',')], dtype=np.uint64)
    def strarr(desc):
        return np.array(desc.split(','))
    cases = {1: ('0110', '1011', '1', '2', 'X', 'Y'), 2: ('011011', '101101', '7', '9', 'XZ', 'YI'), 3: ('01101100', '10010111', '27', '45', 'XYZ', 'ZIY'),
             5: ('011011001101', '100100110010', '700', '345', 'XYZIX', 'ZZYXI')}
    for n, (fa, fb, ia, ib, sa, sb) in cases.items():
        m = 2 * n + 2
        # single-item conversions
        run('pauli_F2_to_str', lambda f: list(G.pauli_F2_to_str(f2arr(f))), fa, fb)
        run('pauli_str_to_F2', lambda x: G.pauli_str_to_F2(x.split('/')[0], PH[int(x.split('/')[1])]), f'{sa}/1', f'{sb}/3',
            holds=lambda x, F: G.pauli_F2_to_str(np.array(F).copy())[0] == x.split('/')[0])
        run('pauli_index_to_F2', lambda i: G.pauli_index_to_F2(int(i), n, with_sign=True), ia, ib, holds=lambda i, F: int(G.pauli_F2_to_index(np.array(F).copy())) == int(i))
        run('pauli_index_to_F2[with_sign=False]', lambda i: G.pauli_index_to_F2(int(i), n, with_sign=False), ia, ib,
            holds=lambda i, F: int(G.pauli_F2_to_index(np.array(F).copy(), with_sign=False)) == int(i))
        run('pauli_index_to_str', lambda i: G.pauli_index_to_str(int(i), n), ia, ib)
        # batched conversions: shape (2,) / (2, m)
        ba, bb = f'{fa};{fb}', f'{fb};{fa[::-1]}'
        run('pauli_F2_to_str[batch]', lambda d: [np.asarray(x) for x in G.pauli_F2_to_str(batch(d, m))], ba, bb)
        run('pauli_F2_to_index[batch]', lambda d: np.asarray(G.pauli_F2_to_index(batch(d, m), with_sign=True)), ba, bb)
        run('pauli_F2_to_index[batch,with_sign=False]', lambda d: np.asarray(G.pauli_F2_to_index(np.ascontiguousarray(batch(d, m)[:, 2:]), with_sign=False)), ba, bb)
        run('pauli_index_to_F2[batch]', lambda d: G.pauli_index_to_F2(idxarr(d), n, with_sign=True), f'{ia},{ib}', f'{ib},0',
            holds=lambda d, F: [int(x) for x in G.pauli_F2_to_index(np.array(F).copy(), with_sign=True)] == [int(x) for x in d.split(',')])
        run('pauli_index_to_F2[batch,with_sign=False]', lambda d: G.pauli_index_to_F2(idxarr(d), n, with_sign=False), f'{ia},{ib}', f'{ib},0')
        run('pauli_index_to_str[batch]', lambda d: np.asarray(G.pauli_index_to_str(idxarr(d), n)), f'{ia},{ib}', f'{ib},0')
        run('pauli_str_to_F2[batch]', lambda d: G.pauli_str_to_F2(strarr(d), np.array([1, -1j])), f'{sa},{sb}', f'{sb},{sa[::-1]}')
        run('pauli_str_to_index[batch]', lambda d: np.asarray(G.pauli_str_to_index(strarr(d))), f'{sa},{sb}', f'{sb},{sa[::-1]}')
        # PauliOperator: fields of two live objects of the same size, constructors, algebra
        def fields(f):
            p = P(f2arr(f))
            return [p.F2, p.str_, complex(p.sign), p.full_matrix if n <= 3 else np.zeros(1), len(p)]
        run('PauliOperator.fields', fields, fa, fb, holds=lambda f, r: bits(r[0]) == f and (n > 3 or np.array_equal(r[3], P(f2arr(f)).full_matrix)))
        run('PauliOperator.np_list', lambda f: [np.asarray(x) for x in P(f2arr(f)).np_list], fa, fb, share_ok=True, mutate=False)   # hands out the module-level 2x2 matrices (observation): never overwritten here
        run('PauliOperator.__matmul__', lambda d: (P(f2arr(d.split('|')[0])) @ P(f2arr(d.split('|')[1]))).F2, f'{fa}|{fb}', f'{fb}|{fa}')
        run('PauliOperator.inverse', lambda f: P(f2arr(f)).inverse().F2, fa, fb)
        run('PauliOperator.from_index', lambda i: P.from_index(int(i), n).F2, ia, ib)
        run('PauliOperator.from_str', lambda x: P.from_str(x, -1).F2, sa, sb)
        run('PauliOperator.from_np_list', lambda f: P.from_np_list(P(f2arr(f)).np_list, P(f2arr(f)).sign).F2, fa, fb, holds=lambda f, F: bits(F) == f)
        if n <= 3:
            run('PauliOperator.full_matrix', lambda f: P(f2arr(f)).full_matrix, fa, fb)
            run('PauliOperator.from_full_matrix', lambda f: P.from_full_matrix(P(f2arr(f)).full_matrix).F2, fa, fb, holds=lambda f, F: bits(F) == f)
    # get_pauli_group: same n, different kind (the lru_cache hands out one object per (n, kind): same-input identity is the recorded
    # observation; here the table of one kind must survive the request for another kind)
    for n in (1, 2, 3):
        def group(kind):
            if kind == 'sparse':
                return [x.toarray() for x in G.get_pauli_group(n, kind='numpy', use_sparse=True)]
            r = G.get_pauli_group(n, kind=kind)
            return np.array(r).copy() if kind == 'numpy' else (list(r) if kind == 'str' else dict(r))   # private copies: the cached object itself must not be vandalised
        for ka, kb in (('numpy', 'str'), ('str', 'str_to_index'), ('str_to_index', 'numpy'), ('numpy', 'sparse'), ('sparse', 'numpy')):
            run('get_pauli_group', group, ka, kb, share_ok=True)
        # and the cached numpy table itself is not changed by requests for the other kinds
        def table_after(kind):
            t0 = np.array(G.get_pauli_group(n)).copy()
            G.get_pauli_group(n, kind=kind) if kind != 'sparse' else G.get_pauli_group(n, kind='numpy', use_sparse=True)
            return [t0, np.array(G.get_pauli_group(n)).copy()]
        run('get_pauli_group[table]', table_after, 'str', 'str_to_index', holds=lambda k, r: np.array_equal(r[0], r[1]), share_ok=True)


def probe(ctx):
    """direct evaluation of the property on the real code, independent of the model"""
    try:
        buffer_reuse_block(ctx)
    except Exception as e:  # noqa: BLE001
        ctx.fail('implementation-raised', f'{type(e).__name__}: {e} in the buffer-reuse block', dict(op='buffer-reuse'))
    import numqi
    P = numqi.gate.PauliOperator
    G = numqi.gate
    rng = ctx.rng
    ns = [1, 2]
    for n in ns:
        allp = [P(f2arr(a)) for a in all_f2(n)]
        mats = [p.full_matrix for p in allp]
        I = np.eye(2 ** n)
        for i, a in enumerate(allp):
            # inverse, conversions, dense-matrix round trips
            if not np.array_equal(a.inverse().full_matrix @ mats[i], I):
                ctx.fail('inverse', f'inverse() is not the matrix inverse for F2={bits(a.F2)}', dict(op='inverse', n=n, F2=bits(a.F2)))
            else:
                ctx.probe_ok(('inv', n, i))
            s, sg = G.pauli_F2_to_str(a.F2)
            if not np.array_equal(G.pauli_str_to_F2(s, sg), a.F2):
                ctx.fail('str-roundtrip', f'str round trip changes F2={bits(a.F2)}', dict(op='str-roundtrip', n=n, F2=bits(a.F2)))
            else:
                ctx.probe_ok()
            b = guarded(lambda: P.from_full_matrix(mats[i]))
            if isinstance(b, str) or not np.array_equal(b.F2, a.F2):
                ctx.fail('from_full_matrix', f'from_full_matrix(full_matrix) != F2={bits(a.F2)}', dict(op='from_full_matrix', n=n, F2=bits(a.F2)))
            else:
                ctx.probe_ok()
            c = guarded(lambda: P.from_np_list(a.np_list, a.sign))
            if isinstance(c, str) or not np.array_equal(c.F2, a.F2):
                ctx.fail('from_np_list', f'from_np_list(np_list, sign) != F2={bits(a.F2)}', dict(op='from_np_list', n=n, F2=bits(a.F2)))
            else:
                ctx.probe_ok()
            herm = np.array_equal(mats[i], mats[i].conj().T)
            flag = int(a.F2[1]) == int(np.dot(a.F2[2:2 + n], a.F2[2 + n:]) % 2)
            if herm != flag:
                ctx.fail('hermitian-flag', f'Hermiticity flag wrong for F2={bits(a.F2)}', dict(op='herm', n=n, F2=bits(a.F2)))
            else:
                ctx.probe_ok()
        for i, a in enumerate(allp):
            for j, b in enumerate(allp):
                ab = (a @ b).full_matrix
                if not np.array_equal(ab, mats[i] @ mats[j]):
                    ctx.fail('matmul', f'(a@b).full_matrix != a.full_matrix@b.full_matrix for {bits(a.F2)},{bits(b.F2)}', dict(op='matmul', n=n, a=bits(a.F2), b=bits(b.F2)))
                else:
                    ctx.probe_ok(('mm', n, i, j))
                com = np.array_equal(mats[i] @ mats[j], mats[j] @ mats[i])
                if bool(a.commutate_with(b)) != com:
                    ctx.fail('commutation', f'commutate_with wrong for {bits(a.F2)},{bits(b.F2)}', dict(op='comm', n=n, a=bits(a.F2), b=bits(b.F2)))
                else:
                    ctx.probe_ok()
    # wrapper rows (from_index / from_str / from_F2 / __len__ / __str__ / get_pauli_group / with_sign=False): model-independent oracles
    for n in (1, 2):
        wrapper_oracles(ctx, n, f2s=list(all_f2(n)))
    wrapper_oracles(ctx, 3, idxs=rng.sample(range(64), 16), f2s=[''.join(rng.choice('01') for _ in range(8)) for _ in range(16)])
    for _ in range(20 if ctx.quick() else 200):
        n = rng.randint(4, 12)
        wrapper_oracles(ctx, n, idxs=[rng.randrange(4 ** n)], f2s=[''.join(rng.choice('01') for _ in range(2 * n + 2))], group=False)
    # random generator honours the Hermiticity request
    for seed in range(60 if ctx.quick() else 600):
        n = 1 + seed % 5
        for want in (True, False):
            p = numqi.random.rand_pauli(n, is_hermitian=want, seed=seed + 1000 * ctx.seed)
            M = p.full_matrix
            herm = np.array_equal(M, M.conj().T)
            anti = np.array_equal(M, -M.conj().T)
            if (want and not herm) or ((not want) and not anti):
                ctx.fail('rand_pauli-hermitian', f'rand_pauli(n={n}, is_hermitian={want}, seed={seed}) not honoured', dict(op='rand_pauli', n=n, want=want, seed=seed + 1000 * ctx.seed))
            else:
                ctx.probe_ok(('rp', n, want, seed))
    # batched conversions: values are bits, agree with the single-item path, and round-trip
    nprng = np.random.default_rng(ctx.np_seed + 17)
    for n in ([4, 5, 6, 9, 12, 27, 31] if ctx.quick() else [3, 4, 5, 6, 7, 8, 9, 12, 16, 20, 26, 27, 28, 29, 30, 31]):
        k = 64 if ctx.quick() else 400
        # Y-heavy strings exercise the phase bookkeeping (x.z up to n)
        strs = np.array([''.join(nprng.choice(list('IXYZ'), size=n, p=[0.15, 0.15, 0.55, 0.15])) for _ in range(k)])
        idx = G.pauli_str_to_index(strs)
        batched_roundtrip(ctx, G, n, idx, strs)
        # whole-batch F2 -> index (shapes (k,) and (k//2, 2)) against the index computed from the string by plain integer arithmetic
        # (seeded C08-m7: a float64 matmul in the batched branch rounds indices beyond 2^53, n >= 27 only)
        want = [sum('IXYZ'.index(c) * 4 ** (n - 1 - j) for j, c in enumerate(s_)) for s_ in strs.tolist()]
        Fb = np.stack([G.pauli_str_to_F2(s_) for s_ in strs.tolist()])
        for shp in ((k,), (k // 2, 2)):
            got = guarded(lambda: np.asarray(G.pauli_F2_to_index(Fb.reshape(shp + (2 * n + 2,)), with_sign=True)).reshape(-1).tolist())
            bad = None if isinstance(got, str) else next((j for j in range(k) if int(got[j]) != want[j]), None)
            if isinstance(got, str):
                ctx.fail('batched-F2-to-index', f'pauli_F2_to_index(batch {shp}) raised {got} (n={n})', dict(op='batched-F2-to-index', n=n, shape=list(shp), string=strs[0]))
            elif bad is not None:
                ctx.fail('batched-F2-to-index', f'pauli_F2_to_index(batch {shp}) returns {got[bad]} for {strs[bad]} (n={n}), the index of that string is {want[bad]}',
                         dict(op='batched-F2-to-index', n=n, shape=list(shp), string=str(strs[bad]), F2=bits(Fb[bad]), expected=want[bad], got=int(got[bad])))
            else:
                ctx.probe_ok(('bf2i', n, shp))
    # single-item conversions for larger n: index -> F2 -> index, index -> str -> index, F2 -> str -> F2
    for _ in range(150 if ctx.quick() else 1500):
        n = rng.randint(3, 14)
        single_roundtrip(ctx, G, n, rng.randrange(4 ** n))
    # aliasing: no conversion or algebra call may modify its array arguments; repeated calls on the same objects agree
    for _ in range(40 if ctx.quick() else 400):
        n = rng.randint(1, 8)
        fa = np.array([rng.randint(0, 1) for _ in range(2 * n + 2)], dtype=np.uint8)
        fb = np.array([rng.randint(0, 1) for _ in range(2 * n + 2)], dtype=np.uint8)
        batch = np.stack([fa, fb])
        snap = (fa.copy(), fb.copy(), batch.copy())
        def calls():
            a, b = P(fa), P(fb)
            return (bits((a @ b).F2), bits(a.inverse().F2), bool(a.commutate_with(b)), G.pauli_F2_to_str(fa)[0], int(G.pauli_F2_to_index(fa)),
                    bits(G.pauli_F2_to_index(batch).astype(np.uint64) % 2), tuple(np.asarray(G.pauli_F2_to_str(batch)[0]).tolist()), mat_to_chars(a.full_matrix))
        r1 = guarded(calls); r2 = guarded(calls)
        rp = dict(op='aliasing', n=n, a=bits(snap[0]), b=bits(snap[1]))
        if not (np.array_equal(fa, snap[0]) and np.array_equal(fb, snap[1]) and np.array_equal(batch, snap[2])):
            ctx.fail('argument-modified', f'a Pauli routine modified its F2 argument ({bits(snap[0])},{bits(snap[1])})', rp)
        elif r1 != r2:
            ctx.fail('repeat-call-differs', f'the same calls on the same objects gave different results ({bits(snap[0])},{bits(snap[1])})', rp)
        else:
            ctx.probe_ok(('alias', bits(snap[0]), bits(snap[1])))
    # histories: a returned array must not alias internal state — corrupt the result of a call, repeat the call, compare with the first answer
    for _ in range(40 if ctx.quick() else 400):
        n = rng.randint(1, 6)
        i1 = rng.randrange(4 ** n)
        s1 = ''.join('IXYZ'[(i1 >> (2 * (n - 1 - j))) & 3] for j in range(n))
        rp = dict(op='result-aliasing', n=n, index=i1, string=s1)
        def once():
            a = P.from_index(i1, n)
            r = (bits(a.F2), bits(G.pauli_index_to_F2(i1, n, with_sign=True)), bits(G.pauli_index_to_F2(i1, n, with_sign=False)),
                 bits(G.pauli_str_to_F2(s1)), bits(P.from_str(s1).F2), mat_to_chars(a.full_matrix), a.str_, sign_to_exp(a.sign))
            # vandalise everything mutable that was handed out
            for arr in (a.F2, G.pauli_index_to_F2(i1, n, with_sign=True), G.pauli_index_to_F2(i1, n, with_sign=False), G.pauli_str_to_F2(s1), a.full_matrix):
                try:
                    arr[...] = 1 - arr if arr.dtype == np.uint8 else arr * 0 + 7
                except (ValueError, TypeError):
                    pass
            # (np_list hands out the module-level Pauli matrices themselves; they are not vandalised here)
            return r
        r1 = guarded(once); r2 = guarded(once)
        if isinstance(r1, str) or isinstance(r2, str):
            ctx.fail('result-aliasing', f'conversion raised during a call/modify/call history: {r1 if isinstance(r1, str) else r2} (index {i1}, n={n})', rp)
        elif r1 != r2:
            ctx.fail('result-aliasing', f'after modifying the arrays returned for index {i1} (n={n}, {s1}) the same calls return different values', rp)
        else:
            ctx.probe_ok(('ralias', n, i1))
    # get_pauli_group is memoised (functools.lru_cache): on the unmodified tree two calls hand out the same ndarray / dict object.
    # Recorded as an observation (the caller must not modify the table), not vandalised and not alarmed.
    g1, g2 = G.get_pauli_group(2), G.get_pauli_group(2)
    d1, d2 = G.get_pauli_group(2, kind='str_to_index'), G.get_pauli_group(2, kind='str_to_index')
    ctx.extra['observation_get_pauli_group'] = ('numpy table: ' + ('the cached ndarray itself is returned' if g1 is g2 else 'fresh array per call')
                                                + '; str_to_index: ' + ('the cached dict itself is returned' if d1 is d2 else 'fresh dict per call'))
    # module-level constants must survive
    for nm, ref in (('I', np.eye(2)), ('X', np.array([[0, 1], [1, 0]])), ('Y', np.array([[0, -1j], [1j, 0]])), ('Z', np.diag([1, -1]))):
        if not np.array_equal(getattr(numqi.gate, nm), ref):
            ctx.fail('module-constant-modified', f'numqi.gate.{nm} was modified by the calls above', dict(op='module-constant', name=nm))
        else:
            ctx.probe_ok(('const', nm))
    # random larger n: product/commutation against dense matrices
    for _ in range(40 if ctx.quick() else 400):
        n = rng.randint(3, 6)
        a = P(np.array([rng.randint(0, 1) for _ in range(2 * n + 2)], dtype=np.uint8))
        b = P(np.array([rng.randint(0, 1) for _ in range(2 * n + 2)], dtype=np.uint8))
        if not np.array_equal((a @ b).full_matrix, a.full_matrix @ b.full_matrix):
            ctx.fail('matmul', f'(a@b).full_matrix != product for {bits(a.F2)},{bits(b.F2)}', dict(op='matmul', n=n, a=bits(a.F2), b=bits(b.F2)))
        else:
            ctx.probe_ok(('mmr', bits(a.F2), bits(b.F2)))


_KRON = None


def kron_of(letters):
    """dense matrix of a Pauli string, built from the harness's own 2x2 matrices"""
    M = {'I': np.eye(2), 'X': np.array([[0, 1], [1, 0]]), 'Y': np.array([[0, -1j], [1j, 0]]), 'Z': np.diag([1.0, -1.0])}
    out = np.eye(1)
    for c in letters:
        out = np.kron(out, M[c])
    return out


def wrapper_oracles(ctx, n, idxs=None, f2s=None, group=True):
    """model-independent oracles for the wrapper rows: from_index / from_str / from_F2 / __len__ / __str__ / get_pauli_group and the
    with_sign=False paths, each against the already-covered conversions and against dense matrices built here"""
    import re as _re
    import numqi
    P = numqi.gate.PauliOperator
    G = numqi.gate
    idxs = list(range(4 ** n)) if idxs is None else list(idxs)
    def letters_of(i):
        return ''.join('IXYZ'[(i >> (2 * (n - 1 - j))) & 3] for j in range(n))
    for i in idxs:
        s1 = letters_of(i)
        rp = dict(op='wrapper', n=n, index=int(i), string=s1)
        def f_index():
            p = P.from_index(i, n)
            F = G.pauli_index_to_F2(i, n, with_sign=True)
            return (np.array_equal(p.F2, F), int(G.pauli_F2_to_index(p.F2, with_sign=True)) == i, len(p) == n, p.str_ == s1, sign_to_exp(p.sign) == 0,
                    n > 3 or np.array_equal(p.full_matrix, kron_of(s1)))
        r = guarded(f_index)
        if r != (True,) * 6:
            ctx.fail('from_index', f'PauliOperator.from_index({i}, {n}) [{s1}]: (F2 = pauli_index_to_F2, index round trip, len, letters, sign +1, dense matrix) = {r}', rp)
        else:
            ctx.probe_ok(('from_index', n, int(i)))
        def f_str():
            out = []
            for e in range(4):
                p = P.from_str(s1, PH[e])
                out.append(p.str_ == s1 and sign_to_exp(p.sign) == e and len(p) == n and (n > 3 or np.allclose(p.full_matrix, PH[e] * kron_of(s1), atol=0)))
            p0 = P.from_str(s1)
            out.append(sign_to_exp(p0.sign) == 0 and np.array_equal(p0.F2, G.pauli_str_to_F2(s1, 1)))
            return tuple(out)
        r = guarded(f_str)
        if r != (True,) * 5:
            ctx.fail('from_str', f'PauliOperator.from_str({s1!r}, sign): (sign 1, i, -1, -i recovered; default sign = +1) = {r}', rp)
        else:
            ctx.probe_ok(('from_str', n, int(i)))
        def f_ns():
            a = G.pauli_index_to_F2(i, n, with_sign=False)
            b = G.pauli_index_to_F2(i, n, with_sign=True)
            return (np.array_equal(a, b[2:]), a.shape == (2 * n,), int(G.pauli_F2_to_index(a, with_sign=False)) == i)
        r = guarded(f_ns)
        if r != (True,) * 3:
            ctx.fail('with_sign_false', f'index {i} (n={n}, {s1}): (F2 without sign = F2[2:], length 2n, index round trip) = {r}', rp)
        else:
            ctx.probe_ok(('nosign', n, int(i)))
    for a in ([] if f2s is None else f2s):
        rp = dict(op='wrapper', n=n, F2=a)
        def f_f2():
            arr = f2arr(a)
            p = P.from_F2(arr)
            s = str(p)
            m = _re.fullmatch(r'(-i|i|-|)([IXYZ]*) \[([01,]*)\]', s)
            if m is None:
                return f'str(p) = {s!r} does not parse'
            e = {'': 0, 'i': 1, '-': 2, '-i': 3}[m.group(1)]
            dense = n > 3 or np.allclose(p.full_matrix, PH[e] * kron_of(m.group(2)), atol=0)
            return (len(p) == len(arr) // 2 - 1, np.array_equal(p.F2, arr), m.group(2) == p.str_, m.group(3).replace(',', '') == a,
                    e == sign_to_exp(p.sign), dense, repr(p) == s)
        r = guarded(f_f2)
        if r != (True,) * 7:
            ctx.fail('__str__/__len__', f'PauliOperator.from_F2({a}): (len = len(a)/2-1, F2 kept, letters, bit list, printed prefix = sign, prefix*kron(letters) = full_matrix, repr = str) = {r}', rp)
        else:
            ctx.probe_ok(('str', n, a))
    if group and n <= 3:
        rp = dict(op='wrapper', n=n, what='get_pauli_group')
        def f_group():
            gs = list(G.get_pauli_group(n, kind='str'))
            d = dict(G.get_pauli_group(n, kind='str_to_index'))
            arr = np.asarray(G.get_pauli_group(n, kind='numpy'))
            bad = []
            if len(gs) != 4 ** n or len(d) != 4 ** n or arr.shape != (4 ** n, 2 ** n, 2 ** n):
                return [f'sizes {len(gs)}, {len(d)}, {arr.shape}']
            for i in range(4 ** n):
                s1 = letters_of(i)
                if gs[i] != G.pauli_index_to_str(i, n) or gs[i] != s1:
                    bad.append(f"'str'[{i}] = {gs[i]} (index {i} is {s1})")
                if d.get(s1) != i or int(G.pauli_str_to_index(s1)) != d.get(s1):
                    bad.append(f"'str_to_index'[{s1}] = {d.get(s1)}")
                if not np.array_equal(arr[i], kron_of(s1)) or not np.array_equal(arr[i], P.from_index(i, n).full_matrix):
                    bad.append(f"'numpy'[{i}] is not the matrix of {s1}")
            return bad[:4]
        r = guarded(f_group)
        if r != []:
            ctx.fail('get_pauli_group', f'get_pauli_group({n}) does not enumerate every index once in index order: {r}', rp)
        else:
            ctx.probe_ok(('group', n))


def single_roundtrip(ctx, G, n, i1):
    rp = dict(op='single-index-roundtrip', n=n, index=int(i1))
    def f():
        F = G.pauli_index_to_F2(int(i1), n, with_sign=True)
        s1 = G.pauli_index_to_str(int(i1), n)
        i2 = int(G.pauli_F2_to_index(F, with_sign=True))
        i3 = int(G.pauli_str_to_index(s1))
        s2, sg = G.pauli_F2_to_str(F)
        F2 = G.pauli_str_to_F2(s2, sg)
        return i2, i3, s1, s2, np.array_equal(F, F2), sign_to_exp(sg)
    r = guarded(f)
    if isinstance(r, str):
        ctx.fail('single-roundtrip', f'single-item conversion raised {r} for index {i1} (n={n})', rp)
    elif r[0] != int(i1) or r[1] != int(i1) or r[2] != r[3] or not r[4] or r[5] != 0:
        ctx.fail('single-roundtrip', f'index {i1} (n={n}, {r[2]}): F2->index gives {r[0]}, str->index gives {r[1]}, F2->str gives {r[3]}', rp)
    else:
        ctx.probe_ok(('srt', n, int(i1)))


def batched_roundtrip(ctx, G, n, idx, strs):
    idx = np.asarray(idx, dtype=np.uint64)
    F = guarded(lambda: G.pauli_index_to_F2(idx, n, with_sign=True))
    for j, (i1, s1) in enumerate(zip(idx.tolist(), strs.tolist())):
        rp = dict(op='batched-index-roundtrip', n=n, index=int(i1), string=s1)
        if isinstance(F, str):
            ctx.fail('batched-index-to-F2', f'pauli_index_to_F2(batch) raised {F} (n={n})', rp); return
        row = F[j]
        single = G.pauli_index_to_F2(int(i1), n, with_sign=True)
        if row.max() > 1:
            ctx.fail('batched-index-to-F2', f'pauli_index_to_F2(batch) returns a non-binary entry for index {i1} (n={n}, {s1}): {row.tolist()}', rp)
        elif not np.array_equal(row, single):
            ctx.fail('batched-index-to-F2', f'batched and single pauli_index_to_F2 differ for index {i1} (n={n}, {s1})', rp)
        else:
            s2, sg = G.pauli_F2_to_str(row)
            back = G.pauli_str_to_F2(s2, sg)
            i2 = int(G.pauli_F2_to_index(row[np.newaxis], with_sign=True)[0])
            if s2 != s1 or not np.array_equal(back, row) or i2 != int(i1) or sign_to_exp(sg) != 0:
                ctx.fail('batched-roundtrip', f'index->F2->str/index round trip fails for index {i1} (n={n}, {s1})', rp)
            else:
                ctx.probe_ok(('brt', n, int(i1)))


def search(ctx, hints):
    # replay disagreeing conversion ops through the batched/single round-trip oracle
    import numqi as _nq
    seen_group = set()
    for d in hints[:200]:
        t = d['op'].split(' ')
        try:
            if len(t) >= 4 and t[1] in ('pofindex', 'ofindexns') and 0 <= int(t[3]) < 4 ** int(t[2]):
                wrapper_oracles(ctx, int(t[2]), idxs=[int(t[3])], group=False)
            elif len(t) >= 4 and t[1] == 'pofstr':
                wrapper_oracles(ctx, int(t[2]), idxs=[sum('IXYZ'.index(c) * 4 ** (len(t[3]) - 1 - j) for j, c in enumerate(t[3]))], group=False)
            elif len(t) >= 4 and t[1] in ('pofF2', 'pstr') and len(t[3]) >= 4 and len(t[3]) % 2 == 0 and set(t[3]) <= set('01'):
                wrapper_oracles(ctx, len(t[3]) // 2 - 1, idxs=[], f2s=[t[3]], group=False)
            elif len(t) >= 4 and t[1] == 'toindexns':
                n = int(t[2]); s0, _ = _nq.gate.pauli_F2_to_str(f2arr('00' + t[3]))
                wrapper_oracles(ctx, n, idxs=[sum('IXYZ'.index(c) * 4 ** (n - 1 - j) for j, c in enumerate(s0))], group=False)
            elif len(t) >= 4 and t[1] == 'pgroup' and int(t[2]) not in seen_group:
                seen_group.add(int(t[2]))
                wrapper_oracles(ctx, int(t[2]), idxs=[], group=True)
        except Exception as e:  # noqa: BLE001
            ctx.fail('implementation-raised', f'{type(e).__name__}: {e} while evaluating the wrapper oracles on {d["op"][:80]}', dict(op='wrapper-search', line=d['op']))
        if len(t) >= 4 and t[1] in ('ofindex', 'idx2str'):
            n, i1 = int(t[2]), int(t[3])
            s1 = _nq.gate.pauli_index_to_str(i1, n)
            batched_roundtrip(ctx, _nq.gate, n, np.array([i1, i1]), np.array([s1, s1]))
        if len(t) >= 4 and t[1] in ('toindex', 'toindexns') and len(t[3]) in (2 * int(t[2]), 2 * int(t[2]) + 2):
            # batched F2 -> index of exactly this operator against the index computed from its string
            n = int(t[2]); f = f2arr(t[3] if len(t[3]) == 2 * n + 2 else '00' + t[3])
            s0, _ = _nq.gate.pauli_F2_to_str(f)
            w = sum('IXYZ'.index(c) * 4 ** (n - 1 - j) for j, c in enumerate(s0))
            got = guarded(lambda: [int(x) for x in np.asarray(_nq.gate.pauli_F2_to_index(np.stack([f, f]), with_sign=True)).tolist()])
            if isinstance(got, str) or got != [w, w]:
                ctx.fail('batched-F2-to-index', f'pauli_F2_to_index(batch of 2) returns {got} for {s0} (n={n}), the index of that string is {w}',
                         dict(op='batched-F2-to-index', n=n, shape=[2], string=s0, F2=bits(f), expected=w))
        if len(t) >= 4 and t[1] == 'toindex' and len(t[3]) == 2 * int(t[2]) + 2:
            # the index of this operator, computed from its string, back through the single-item round trip
            s0, _ = _nq.gate.pauli_F2_to_str(f2arr(t[3]))
            single_roundtrip(ctx, _nq.gate, int(t[2]), sum('IXYZ'.index(c) * 4 ** (len(s0) - 1 - j) for j, c in enumerate(s0)))
        if len(t) >= 4 and t[1] in ('tostr', 'toindex') and len(t[3]) == 2 * int(t[2]) + 2:
            n = int(t[2]); f = f2arr(t[3])
            s2, sg = _nq.gate.pauli_F2_to_str(np.stack([f, f]))
            if not np.array_equal(_nq.gate.pauli_str_to_F2(s2, sg)[0], f):
                ctx.fail('batched-str-roundtrip', f'batched F2->str->F2 changes F2={t[3]}', dict(op='batched-str-roundtrip', n=n, F2=t[3]))
    _search_products(ctx, hints)


def _search_products(ctx, hints):
    # the probe already evaluates the property statement directly on all n<=2 operators and pairs;
    # additionally replay the disagreeing operations through the probe-style oracles
    import numqi
    P = numqi.gate.PauliOperator
    for d in hints[:200]:
        t = d['op'].split(' ')
        if len(t) >= 5 and t[1] in ('mul', 'comm') and int(t[2]) <= 6:
            a, b = P(f2arr(t[3])), P(f2arr(t[4]))
            if not np.array_equal((a @ b).full_matrix, a.full_matrix @ b.full_matrix):
                ctx.fail('matmul', f'(a@b).full_matrix != product for {t[3]},{t[4]}', dict(op='matmul', n=int(t[2]), a=t[3], b=t[4]))
