"""C09 — Sp(2n,F2) indexing is a bijection onto the symplectic group.

Model: lean/NumqiModel/SpF2.lean.  Theorems: lean/NumqiProps/C09.lean.
Correspondence: exact (bit strings / integers), no floats anywhere.
"""
import itertools, os, re, sys
from concurrent.futures import ProcessPoolExecutor
import numpy as np
from . import common

THEOREM_FILES = ['NumqiProps/C09.lean']
LEVEL = 'proof'
RULE = ('ops: every in-range tuple for n=1,2 (n=3: all 1,451,520 in thorough, a deterministic stride sample in quick) through from_int_tuple and, on the '
        'resulting matrix, to_int_tuple / inverse / membership; every ordered pair of non-zero vectors n<=3 (n=4 thorough) through find_transvection; '
        'random tuples, vectors, transvection lists and (non-)symplectic matrices up to n=10; rand_SpF2 outputs. distinct = distinct op lines; an op is '
        'non-trivial when its arguments are not all zero.')
TRUSTED = ['Lean 4.33 kernel', 'axioms: propext, Classical.choice, Quot.sound', 'Lean compiler for the driver executable',
           'harness/c09.py canonicalisation (uint8 arrays printed as 0/1 strings in array order; tuples as decimal integers)',
           'modelled, not verified: numqi/group/spf2.py, numqi/random/_spf2.py (rand_SpF2 = from_int_tuple of a tuple drawn below the bases)',
           'scripted raw draws: ScriptedRandom overrides the CPython hook random.Random._randbelow (kept by Random.__init_subclass__, CPython 3.12 random.py); numpy Generators are scripted at the Python-level method integers() (numpy routes Generator.choice(k) through it in this numpy version)']


import random as _random


class ScriptedRandom(_random.Random):
    """a `random.Random` (accepted as `seed` by `get_random_rng`) whose draws are prescribed.  Scripted one level below the public
    methods: `randint`, `randrange`, `choice`, `shuffle`, `sample` all reduce to `_randbelow(n)` (uniform on [0, n)), so any spelling
    of "draw an integer below n" is intercepted; `self.calls` records the widths `n` requested, in order.  `getrandbits(k)` is
    served from the same script (width 2^k)."""
    def __init__(self, values):
        super().__init__(0)
        self.values = list(values)
        self.calls = []

    def _randbelow(self, n):
        self.calls.append(int(n))
        if not self.values:
            raise ScriptExhausted(f'more draws requested than scripted (width {n})')
        v = self.values.pop(0)
        if not (0 <= v < n):
            raise ScriptExhausted(f'scripted value {v} outside the requested range [0,{n})')
        return v

    def getrandbits(self, k):
        return self._randbelow(1 << k)


class ScriptExhausted(Exception):
    pass


REJECTION = (AssertionError, ValueError, TypeError, IndexError, KeyError, OverflowError)
_ERR_TOKEN = re.compile(r'error:[A-Za-z_]+')


def canon(out):
    """the property does not speak about exception classes: every rejection (`error:<kind>` of the model driver, any of the
    usual exception classes on the implementation side) is the one token `rejected`; accepted vs rejected stays exact"""
    return _ERR_TOKEN.sub('rejected', out) if isinstance(out, str) else out


def vstr(a):
    return ''.join(str(int(x)) for x in np.asarray(a).reshape(-1))


def mstr(M):
    return ';'.join(vstr(r) for r in np.asarray(M))


def varr(s):
    return np.array([int(c) for c in s], dtype=np.uint8)


def marr(s):
    return np.array([[int(c) for c in r] for r in s.split(';')], dtype=np.uint8)


def tstr(t):
    return ';'.join(str(int(x)) for x in t)


class Aliasing(Exception):
    pass


def _noncontig(a):
    """the same values as a non-contiguous view (every second element of a larger buffer)"""
    a = np.asarray(a)
    big = np.zeros(tuple(2 * d for d in a.shape), dtype=a.dtype)
    view = big[tuple(slice(None, None, 2) for _ in a.shape)]
    view[...] = a
    return view


def _same(r1, r2):
    if isinstance(r1, dict):
        return isinstance(r2, dict) and list(r1.keys()) == list(r2.keys()) and all(_same(r1[k], r2[k]) for k in r1)
    if isinstance(r1, (tuple, list)):
        return isinstance(r2, (tuple, list)) and len(r1) == len(r2) and all(_same(a, b) for a, b in zip(r1, r2))
    if isinstance(r1, (str, int, bool, complex, float)) or r1 is None:
        return type(r1) is type(r2) and r1 == r2
    return np.array_equal(np.asarray(r1), np.asarray(r2))


def _overwrite(r):
    """overwrite, in place, everything mutable that a call returned (arrays inside tuples / lists included);
    returns True when something was overwritten.  Tuples of ints, Python / numpy scalars are immutable and left alone."""
    if isinstance(r, (tuple, list)):
        hit = [_overwrite(x) for x in r]
        return any(hit)
    if isinstance(r, np.ndarray) and r.ndim >= 1 and r.size and r.flags.writeable:
        if r.dtype.kind in 'ui':
            np.bitwise_xor(r, 1, out=r)
        elif r.dtype.kind == 'b':
            np.logical_not(r, out=r)
        elif r.dtype.kind in 'fc':
            r += 1
        else:
            return False      # strings / objects: nothing numeric to overwrite
        return True
    return False


def _deepcopy(r):
    if isinstance(r, dict):
        return {k: _deepcopy(v) for k, v in r.items()}
    if isinstance(r, (tuple, list)):
        return type(r)(_deepcopy(x) for x in r)
    return r.copy() if isinstance(r, np.ndarray) else r


def _arrays_in(r):
    if isinstance(r, dict):
        for v in r.values():
            yield from _arrays_in(v)
    elif isinstance(r, (tuple, list)):
        for v in r:
            yield from _arrays_in(v)
    elif isinstance(r, np.ndarray):
        yield r


def buffer_reuse(ctx, fn, call, A, B, holds=None, share_ok=False, mutate=True):
    """hardening class "buffer reuse across calls": `call(X)` builds FRESH arguments from the immutable description X and returns
    what the function hands out.  History [f(A), f(B)] with B != A of the same size (so that any size-keyed cache / workspace is
    shared): the first result must still be what it was, must not share memory with the second, must still satisfy the property
    for A (`holds(A, r1)`); then f(A) -> overwrite the result in place -> f(B), f(A): both as before.
    Failure key `<fn>:result-overwritten-by-next-call`, the history is the failing input."""
    key = f'{fn}:result-overwritten-by-next-call'
    rp = dict(op='buffer-reuse', fn=fn, history=[f'{fn}({A})', f'{fn}({B})'])
    def body():
        r1 = call(A); c1 = _deepcopy(r1)
        r2 = call(B); c2 = _deepcopy(r2)
        if not _same(r1, c1):
            return f'the result of {fn}({A}) was changed by the later call {fn}({B})'
        if not share_ok:
            a1, a2 = list(_arrays_in(r1)), list(_arrays_in(r2))
            if any(x is y or np.shares_memory(x, y) for x in a1 for y in a2) or (r1 is r2 and isinstance(r1, (list, dict))):
                return f'the results of {fn}({A}) and {fn}({B}) share memory'
        if holds is not None and not holds(A, r1):
            return f'after {fn}({B}) the result of {fn}({A}) no longer satisfies the property'
        if not mutate:        # the function is known to hand out shared module-level constants (recorded observation): not vandalised
            return None
        r1b = call(A)
        _overwrite(r1b)
        r2b = call(B)
        if not _same(r2b, c2):
            return f'{fn}({A}) -> result overwritten in place by its owner -> {fn}({B}) returns a different value than before'
        r3 = call(A)
        if not _same(r3, c1):
            return f'{fn}({A}) -> result overwritten in place -> {fn}({B}) -> {fn}({A}) returns a different value than the first time'
        return None
    out = guarded(body)
    if out is None:
        ctx.probe_ok(('buffer-reuse', fn, str(A)[:40], str(B)[:40]))
    elif out == 'rejected' or out.startswith('raised:'):
        ctx.fail('implementation-raised', f'{fn}: history [{fn}({A}), {fn}({B})]: {out}', rp)
    else:
        ctx.fail(key, out, rp)


def from_with_history(sp, t):
    """`from_int_tuple(t)` as a caller with a history sees it: an earlier result (of the prefix tuple and of `t` itself) has
    been overwritten in place by its owner; the call must still return the matrix of `t`.  Returns a private copy."""
    t = tuple(t)
    if len(t) >= 4:
        _overwrite(sp.from_int_tuple(t[:-2]))
    M = sp.from_int_tuple(t)
    snap = M.copy()
    _overwrite(M)
    M2 = sp.from_int_tuple(t)
    if M2 is M or not np.array_equal(M2, snap):
        raise Aliasing(f'result aliasing: from_int_tuple({t}) returns {mstr(M2)} after the array returned by the previous identical '
                       f'call was overwritten in place (first answer {mstr(snap)}): a shared / cached array is handed out')
    return snap


def pure_call(f, *arrays, alt_dtypes=()):
    """call f(*arrays) the way a careful user may: the arguments must come back bit-identical (no aliasing), a second call on the
    very same objects and a call on non-contiguous views must give the same result, and integer dtypes the clean tree accepts
    must give the same values.  Violations raise `Aliasing`, which the callers turn into a reported failure with the op as input."""
    arrays = [np.array(a) for a in arrays]
    snaps = [(a.copy(), a.dtype, a.shape) for a in arrays]
    r1 = f(*arrays)
    for i, (a, (s, dt, sh)) in enumerate(zip(arrays, snaps)):
        if a.dtype != dt or a.shape != sh or not np.array_equal(a, s):
            raise Aliasing(f'argument {i} was modified in place: {s.tolist()} -> {a.tolist()}')
    r2 = f(*arrays)
    if not _same(r1, r2):
        raise Aliasing('second call on the same argument objects returns a different result')
    r3 = f(*[_noncontig(a) for a in arrays])
    if not _same(r1, r3):
        raise Aliasing('non-contiguous views of the same values give a different result')
    for dt in alt_dtypes:
        r4 = f(*[a.astype(dt) for a in arrays])
        if not _same(np.asarray(r1).astype(np.int64) if not isinstance(r1, (tuple, list)) else [np.asarray(x).astype(np.int64) for x in r1],
                     np.asarray(r4).astype(np.int64) if not isinstance(r4, (tuple, list)) else [np.asarray(x).astype(np.int64) for x in r4]):
            raise Aliasing(f'dtype {np.dtype(dt).name} gives a different result than uint8')
    # result side: the caller owns what it got — overwrite every returned array in place, call again on fresh copies of the
    # arguments, and require the first answer (a memoised / shared result object would now come back corrupted)
    snap = _deepcopy(r1)
    if _overwrite(r1):
        r5 = f(*[sn.copy() for (sn, _, _) in snaps])
        if not _same(r5, snap):
            raise Aliasing('result aliasing: after the returned array(s) were overwritten in place, the same call returns a different value')
    return snap


INT_DTYPES = (np.int64, np.int32, np.uint16)   # accepted by get_inner_product / transvection / find_transvection / inverse on the clean tree


def guarded(f):
    """run one call on the implementation; a rejection of the input is the token `rejected` whatever the exception class,
    any other exception (AttributeError, ScriptExhausted, …) is reported as `raised:<Type>` — never propagated"""
    try:
        return f()
    except Aliasing as e:
        return 'aliasing: ' + str(e)
    except REJECTION:
        return 'rejected'
    except Exception as e:  # noqa: BLE001
        return 'raised:' + type(e).__name__ + (': ' + str(e)[:120] if isinstance(e, ScriptExhausted) else '')


def lam(n):
    L = np.zeros((2 * n, 2 * n), dtype=np.int64)
    L[:n, n:] = np.eye(n, dtype=np.int64)
    L[n:, :n] = np.eye(n, dtype=np.int64)
    return L


def is_sp(M):
    M = np.asarray(M).astype(np.int64)
    n = M.shape[0] // 2
    return bool(np.array_equal((M @ lam(n) @ M.T) % 2, lam(n)))


def impl_op(op):
    import numqi
    sp = numqi.group.spf2
    t = op.split(' ')
    k = t[1]
    n = int(t[2])
    if k == 'ip':
        return guarded(lambda: str(int(pure_call(sp.get_inner_product, varr(t[3]), varr(t[4]), alt_dtypes=INT_DTYPES))))
    if k == 'tv':
        hs = [] if t[4] == '-' else [varr(h) for h in t[4].split(';')]
        return guarded(lambda: vstr(pure_call(sp.transvection, varr(t[3]), *hs, alt_dtypes=INT_DTYPES)))
    if k in ('tvb', 'ipb'):
        shape = tuple(int(x) for x in t[3].split('x'))
        X = np.array([[int(c) for c in r] for r in t[4].split(';')], dtype=np.uint8).reshape(shape)
        if k == 'tvb':
            hs = [] if t[5] == '-' else [varr(h) for h in t[5].split(';')]
            def f():
                Y = np.asarray(pure_call(sp.transvection, X, *hs, alt_dtypes=INT_DTYPES))
                if Y.shape != X.shape:
                    return f'shape {Y.shape} for input shape {X.shape}'
                return ';'.join(vstr(r) for r in Y.reshape(-1, 2 * n))
            return guarded(f)
        def f():
            Y = np.asarray(pure_call(sp.get_inner_product, X, varr(t[5]), alt_dtypes=INT_DTYPES))
            if Y.shape != X.shape[:-1]:
                return f'shape {Y.shape} for input shape {X.shape}'
            return ''.join(str(int(b)) for b in Y.reshape(-1))
        return guarded(f)
    if k == 'find':
        def f():
            r = pure_call(sp.find_transvection, varr(t[3]), varr(t[4]), alt_dtypes=INT_DTYPES)
            return f'{vstr(r[0])} {vstr(r[1])}'
        return guarded(f)
    if k == 'from':
        def f():
            tt = tuple(int(x) for x in t[3].split(';'))
            M = from_with_history(sp, tt)
            # the same tuple given as np.int64 entries / as a list / as an int64 array
            alts = [list(tt), np.array(tt, dtype=object)]
            if max(tt) < 2 ** 62:
                alts.append(tuple(np.int64(x) for x in tt))
            for alt in alts:
                if not np.array_equal(sp.from_int_tuple(alt), M):
                    raise Aliasing('from_int_tuple depends on the integer type / container of the tuple')
            return mstr(M)
        return guarded(f)
    if k == 'randsp':
        def f():
            vals = [int(x) for x in t[3].split(';')]
            rr = ScriptedRandom(vals)
            M = numqi.random.rand_SpF2(n, seed=rr)
            snapM = M.copy()
            _overwrite(M)
            if not np.array_equal(numqi.random.rand_SpF2(n, seed=ScriptedRandom(vals)), snapM):
                raise Aliasing('result aliasing: rand_SpF2 with the same draws returns a different matrix after its first result was overwritten in place')
            M = snapM
            t2 = numqi.random.rand_SpF2(n, return_kind='int_tuple', seed=ScriptedRandom(vals))
            if rr.calls != list(bases(n)) or rr.values or tuple(t2) != tuple(vals):
                return f'draw widths requested {rr.calls} (expected {list(bases(n))}), tuple returned {t2}'
            return mstr(M)
        return guarded(f)
    if k == 'to':
        def f():
            M = marr(t[3])
            r = pure_call(sp.to_int_tuple, M)
            # dtype: the clean tree asserts uint8 here; the rejection is part of the tie
            # other dtypes holding the same 0/1 values: the current code rejects them (assert uint8); accepting them is fine as
            # long as the answer is the same tuple
            for dt in (np.int64, np.bool_):
                try:
                    r2 = sp.to_int_tuple(M.astype(dt))
                except REJECTION:
                    continue
                if tuple(int(x) for x in r2) != tuple(int(x) for x in r):
                    return f'dtype {np.dtype(dt).name} accepted by to_int_tuple with a different answer {tuple(r2)}'
            return tstr(r)
        return guarded(f)
    if k == 'inv':
        return guarded(lambda: mstr(pure_call(sp.inverse, marr(t[3]), alt_dtypes=INT_DTYPES)))
    if k == 'issp':
        return guarded(lambda: str(int(is_sp(marr(t[3])))))
    if k == 'mul':
        return guarded(lambda: mstr((marr(t[3]).astype(np.int64) @ marr(t[4]).astype(np.int64)) % 2))
    if k == 'i2b':
        def f():
            i = int(t[3])
            if i >= 2 ** n:
                # outside the documented contract (a length-n array holds i < 2^n; no caller in numqi passes more): the current
                # code drops the high bits below the byte boundary and raises OverflowError at it.  Either behaviour — the low n
                # bits, or a rejection — is accepted (token `ooc`); anything else is reported as it is.
                r = guarded(lambda: vstr(sp.int_to_bitarray(i, n)) if n else '-')
                return 'ooc' if r in ('rejected', low_bits(i, n)) else r
            r = sp.int_to_bitarray(i, n)
            snap = np.array(r).copy()
            r2 = sp.int_to_bitarray(np.int64(i), n) if i < 2 ** 62 else snap   # `int(i)` accepts numpy integers
            _overwrite(r)                                                    # result ownership (np.frombuffer / unpackbits)
            r3 = sp.int_to_bitarray(i, n)
            if not (np.array_equal(snap, r2) and np.array_equal(snap, r3)):
                raise Aliasing('int_to_bitarray: np.int64 argument or a repeated call after overwriting the result gives a different array')
            if snap.dtype != np.uint8 or snap.shape != (n,):
                return f'dtype {snap.dtype} shape {snap.shape}'
            return vstr(snap) if n else '-'
        return guarded(f)
    if k == 'b2i':
        def f():
            b = varr('' if t[3] == '-' else t[3])
            r = pure_call(sp.bitarray_to_int, b)
            if not isinstance(r, (int, np.integer)):
                return f'type {type(r).__name__}'
            r = int(r)
            if sp.bitarray_to_int(b.astype(bool)) != r:
                raise Aliasing('dtype bool gives a different result than uint8')
            return str(r)
        return guarded(f)
    if k == 'num':
        def f():
            r = sp.get_number(n, t[3])   # `kind` is lower-cased by the code: 'BASE', 'Order' are accepted, anything else asserts
            # the helper is memoised (lru_cache): other sizes / kinds in between, np.int64 size, then the same call again
            for m, kd in ((40, 'base'), (1, 'order'), (33, 'coset'), (n, 'order'), (n, 'base')):
                sp.get_number(m, kd)
            r2 = sp.get_number(np.int64(n), t[3])
            if (r2 != r) or (type(r2) is not type(r)):
                raise Aliasing(f'get_number({n},{t[3]}) changes after other calls: {r} -> {r2}')
            return str(int(r)) if t[3].lower() == 'order' else tstr(r)
        return guarded(f)
    return 'bad-op'


def low_bits(i, n):
    return ''.join(str((i >> j) & 1) for j in range(n)) if n else '-'


def ooc_model(op, out):
    """model side of the out-of-contract `i2b` ops: the model reproduces the current code (truncate / OverflowError); both
    admissible behaviours are the token `ooc`"""
    t = op.split(' ')
    if len(t) >= 4 and t[1] == 'i2b' and int(t[3]) >= 2 ** int(t[2]) and out in ('rejected', low_bits(int(t[3]), int(t[2]))):
        return 'ooc'
    return out


def safe_impl_op(op):
    """impl_op never propagates: whatever escapes the per-call guards becomes the token `raised:<Type>` for this op"""
    try:
        return impl_op(op)
    except Exception as e:  # noqa: BLE001
        return 'raised:' + type(e).__name__


def bases(n):
    out = []
    for x in range(1, n + 1):
        out += [4 ** x - 1, 4 ** x // 2]
    return out


def all_tuples(n):
    return itertools.product(*[range(b) for b in bases(n)])


def tuple_of_index(n, idx):
    """mixed-radix digits of idx, last entry fastest"""
    bs = bases(n)
    out = []
    for b in reversed(bs):
        out.append(idx % b)
        idx //= b
    return tuple(reversed(out))


def order(n):
    r = 1
    for b in bases(n):
        r *= b
    return r


def nonzero_vecs(n):
    for v in itertools.product('01', repeat=2 * n):
        s = ''.join(v)
        if '1' in s:
            yield s


def _job(args):
    """worker: the tuples with the given indices of Sp(2n) through from_int_tuple / to_int_tuple, on the implementation and
    on the model; also evaluates the property directly (symplectic image, round trip).  Runs in a separate process."""
    n, idxs, repo = args
    import sys
    if repo and os.path.join(repo, 'python') not in sys.path:
        sys.path.insert(0, os.path.join(repo, 'python'))
    import numqi
    sp = numqi.group.spf2
    ops, impl, imgs, bad = [], [], [], []
    L = lam(n)
    history_all = len(idxs) <= 8000
    for pos, idx in enumerate(idxs):
        t = tuple_of_index(n, idx)
        # result-side history (every tuple of the small sweeps, the first 150 of every chunk of the large one): earlier results of
        # the prefix tuple and of `t` are overwritten in place, then `t` is requested again
        M = guarded((lambda: from_with_history(sp, t)) if (history_all or pos < 150) else (lambda: sp.from_int_tuple(t)))
        ops.append(f'C09 from {n} {tstr(t)}')
        if isinstance(M, str):
            impl.append(M); bad.append((t, 'aliasing' if M.startswith('aliasing') else 'from-raises', 'from_int_tuple: ' + M)); continue
        ms = mstr(M)
        impl.append(ms); imgs.append(ms)
        ops.append(f'C09 to {n} {ms}')
        back = guarded(lambda: sp.to_int_tuple(M))
        impl.append(back if isinstance(back, str) else tstr(back))
        if mstr(M) != ms:
            bad.append((t, 'aliasing', 'to_int_tuple modified its argument in place'))
            M = marr(ms)
        Mi = M.astype(np.int64)
        if not np.array_equal((Mi @ L @ Mi.T) % 2, L):
            bad.append((t, 'image-symplectic', 'image not symplectic'))
        if isinstance(back, str) or tuple(int(x) for x in back) != t:
            bad.append((t, 'from-to-roundtrip', f'to_int_tuple(from_int_tuple(t)) = {back}'))
    model = [canon(m) for m in common.run_model(ops)]
    impl = [canon(i) for i in impl]
    dis = [(o, m, i) for o, m, i in zip(ops, model, impl) if m != i]
    return len(ops), len(dis), dis[:20], imgs, bad[:20]


def tuples_through_both(ctx, n, idxs, procs=1):
    """from/to over the given tuple indices; returns the set of distinct images"""
    idxs = list(idxs)
    if procs > 1:
        step = max(1, len(idxs) // (procs * 6))
        jobs = [(n, idxs[i:i + step], common.REPO) for i in range(0, len(idxs), step)]
        with ProcessPoolExecutor(max_workers=procs) as ex:
            results = list(ex.map(_job, jobs))
    else:
        results = [_job((n, idxs, common.REPO))]
    images = set()
    for cnt, ndis, dis, imgs, bad in results:
        ctx.agreements += cnt - ndis
        for o, m, i in dis:
            ctx.disagree(o, m, i)
        for t, key, what in bad:
            ctx.fail(key, f'n={n} tuple={t}: {what}', dict(op='from_int_tuple', n=n, int_tuple=list(t)))
        images.update(imgs)
        ctx.count(f'from/to n={n}', cnt)
    ctx.nontrivial.add(('tuples', n, len(idxs)))
    return images


def report_side_effects(ctx, ops, impl):
    """aliasing / dtype violations found by `pure_call` are failures of the property's input contract with a concrete input"""
    for op, out in sorted(zip(ops, impl), key=lambda x: len(x[0])):   # shortest witness first
        if 'aliasing:' in out:
            ctx.fail('aliasing', f'{op}: {out}', dict(op='side-effect', line=op, observed=out))
        elif out.startswith('dtype') or '|dtype' in out:
            ctx.fail('dtype', f'{op}: {out}', dict(op='dtype', line=op, observed=out))


def rand_vec(rng, m, nonzero=False):
    while True:
        s = ''.join(rng.choice('01') for _ in range(m))
        if not nonzero or '1' in s:
            return s


def rand_tuple(rng, n):
    return tuple(rng.randrange(b) for b in bases(n))


def own_symplectic(rng, n, steps=None):
    """a symplectic 2n x 2n bit matrix built by the harness itself (product of random transvections), so that the op stream does
    not depend on the implementation being able to produce one"""
    m = 2 * n
    L = lam(n)
    M = np.eye(m, dtype=np.int64)
    for _ in range(steps if steps is not None else 3 * m):
        h = np.array([rng.randint(0, 1) for _ in range(m)], dtype=np.int64)
        M = (M + np.outer((M @ L @ h) % 2, h)) % 2        # rows x -> x + <x,h> h
    return M.astype(np.uint8)


def image_or_own(sp, rng, n, t):
    """from_int_tuple(t) for building further ops; when the implementation raises (the `from` op of the same tuple reports that)
    a harness-built group element takes its place, so that generation never fails"""
    M = guarded(lambda: sp.from_int_tuple(t))
    if isinstance(M, str) or np.asarray(M).shape != (2 * n, 2 * n):
        return own_symplectic(rng, n)
    return np.asarray(M).astype(np.uint8)


def gen_ops(ctx):
    import numqi
    sp = numqi.group.spf2
    rng = ctx.rng
    ops = []
    quick = ctx.quick()
    # get_number
    for n in range(0, 13):
        for kind in ('base', 'order', 'coset'):
            ops.append(f'C09 num {n} {kind}')
    for n in (1, 2, 5):
        for kind in ('BASE', 'Order', 'cOsEt', 'foo', 'bases', ''):
            if kind:
                ops.append(f'C09 num {n} {kind}')
    # bit packing: every (i, n) with n <= 10 and i < 2^(n+1) + the byte boundary, lengths around multiples of 8 and 64,
    # integers that fit the bytes but not the n bits (silent truncation), integers that do not fit (OverflowError), n = 0
    for n in range(0, 11):
        top = 256 ** ((n + 7) // 8)
        for i in sorted(set(list(range(min(2 ** (n + 1), 600))) + [2 ** n - 1, 2 ** n, top - 1, top, top + 1])):
            ops.append(f'C09 i2b {n} {i}')
    for n in (15, 16, 17, 31, 32, 33, 63, 64, 65, 79, 80, 81, 127, 128, 129):
        top = 256 ** ((n + 7) // 8)
        for i in [0, 1, 2 ** n - 1, 2 ** n, 2 ** n + 1, top - 1, top, 2 * top + 5] + [rng.randrange(2 ** n) for _ in range(3 if quick else 20)] + [rng.randrange(top)]:
            ops.append(f'C09 i2b {n} {i}')
    for n in range(0, 11 if quick else 13):
        for b in itertools.product('01', repeat=n):
            ops.append(f'C09 b2i {n} {"".join(b) if n else "-"}')
    for n in (15, 16, 17, 31, 32, 33, 63, 64, 65, 79, 80, 81, 127, 128, 129):
        for _ in range(3 if quick else 20):
            ops.append(f'C09 b2i {n} {rand_vec(rng, n)}')
        ops += [f'C09 b2i {n} {"1" * n}', f'C09 b2i {n} {"0" * (n - 1)}1']
    # all vectors / pairs for small n: inner product, find_transvection (incl. the zero-vector asserts), transvection
    for n in ([1, 2, 3] if quick else [1, 2, 3, 4]):
        vecs = [''.join(v) for v in itertools.product('01', repeat=2 * n)]
        pairs = itertools.product(vecs, vecs)
        for v, w in pairs:
            ops.append(f'C09 find {n} {v} {w}')
            if n <= 3:
                ops.append(f'C09 ip {n} {v} {w}')
                ops.append(f'C09 tv {n} {v} {w}')
    # random larger
    nr = 400 if quick else 6000
    for _ in range(nr):
        n = rng.randint(3, 10)
        v, w = rand_vec(rng, 2 * n), rand_vec(rng, 2 * n)
        ops.append(f'C09 ip {n} {v} {w}')
        hs = [rand_vec(rng, 2 * n) for _ in range(rng.randint(0, 4))]
        ops.append(f'C09 tv {n} {v} {";".join(hs) if hs else "-"}')
        # structured pairs aimed at the five branches of find_transvection
        kind = rng.randint(0, 5)
        v = rand_vec(rng, 2 * n, True)
        if kind == 0:
            w = v
        elif kind == 1:
            w = rand_vec(rng, 2 * n, True)
        else:
            # sparse vectors: few non-zero pairs, so that "no common non-zero pair" (branches 4/5) is frequent
            def sparse():
                a = ['0'] * (2 * n)
                for i in rng.sample(range(n), rng.randint(1, max(1, n // 2))):
                    x, z = rng.choice([(1, 0), (0, 1), (1, 1)])
                    a[i], a[i + n] = str(x), str(z)
                return ''.join(a)
            v, w = sparse(), sparse()
        ops.append(f'C09 find {n} {v} {w}')
    # batched calls (`x.ndim >= 2` is documented for transvection / get_inner_product): vector, list of vectors, stack of
    # matrices, 2-d grid of vectors, 4-d; the model sees the array flattened to its rows
    def rows_str(X, m):
        return ';'.join(vstr(r) for r in np.asarray(X).reshape(-1, m))
    def batch_ops(n, X, hs):
        shp = 'x'.join(str(d) for d in X.shape)
        out = [f'C09 tvb {n} {shp} {rows_str(X, 2 * n)} {";".join(hs) if hs else "-"}']
        out.append(f'C09 ipb {n} {shp} {rows_str(X, 2 * n)} {hs[0] if hs else rand_vec(rng, 2 * n)}')
        return out
    for n in (1, 2):
        # the demo case: the whole image set of from_int_tuple as one stack, every generating transvection
        imgs = [image_or_own(sp, rng, n, t) for t in (all_tuples(n) if n == 1 else [rand_tuple(rng, 2) for _ in range(12)])]
        if imgs:
            stack = np.stack(imgs)
            for h in nonzero_vecs(n):
                ops += batch_ops(n, stack, [h])
    for i in range(60 if quick else 900):
        n = rng.choice([1, 1, 2, 2, 3, 3, 4, 5, 8])
        m = 2 * n
        kind = i % 6
        k, l = rng.choice([1, 2, 3, 5]), rng.choice([1, 2, 3, m + 1])
        shape = [(m,), (k, m), (k, m, m), (k, l, m), (m, m), (2, 1, 2, m)][kind]
        X = np.array([rng.randint(0, 1) for _ in range(int(np.prod(shape)))], dtype=np.uint8).reshape(shape)
        if kind == 2 and rng.random() < 0.7:   # a stack of group elements
            X = np.stack([image_or_own(sp, rng, n, rand_tuple(rng, n)) for _ in range(k)])
        hs = [rand_vec(rng, m) for _ in range(rng.randint(0, 3))]
        ops += batch_ops(n, X, hs)
    # sizes around the machine-word boundary: round trips for n = 31, 32, 33, 40 (2n crosses 64; bases cross 2^63)
    for n in (31, 32, 33, 40):
        for i in range(2 if quick else 6):
            t = rand_tuple(rng, n)
            if i == 0:
                t = tuple(b - 1 for b in bases(n))      # the largest digit of every base
            M = image_or_own(sp, rng, n, t)
            ops.append(f'C09 from {n} {tstr(t)}')
            ops += [f'C09 to {n} {mstr(M)}', f'C09 issp {n} {mstr(M)}', f'C09 inv {n} {mstr(M)}']
        v, w = rand_vec(rng, 2 * n, True), rand_vec(rng, 2 * n, True)
        ops += [f'C09 find {n} {v} {w}', f'C09 ip {n} {v} {w}', f'C09 num {n} base', f'C09 num {n} order', f'C09 num {n} coset']
    # the memoised helper of get_number: small sizes again after the large ones, in both orders
    for n in (64, 1, 40, 2, 33, 3):
        for kind in ('order', 'base', 'coset'):
            ops.append(f'C09 num {n} {kind}')
    # random tuples -> matrices -> back, inverse, membership, products
    mats = []
    for _ in range(150 if quick else 2500):
        n = rng.randint(3, 10) if rng.random() < 0.8 else rng.randint(1, 2)
        t = rand_tuple(rng, n)
        # bias towards the extreme digits (first / last value of a base)
        if rng.random() < 0.3:
            t = tuple(rng.choice([0, b - 1, x]) for x, b in zip(t, bases(n)))
        ops.append(f'C09 from {n} {tstr(t)}')
        M = image_or_own(sp, rng, n, t)
        ms = mstr(M)
        mats.append((n, M))
        ops += [f'C09 to {n} {ms}', f'C09 inv {n} {ms}', f'C09 issp {n} {ms}']
    for _ in range(60 if quick else 800):
        (n, A) = rng.choice(mats)
        same = [B for (m, B) in mats if m == n]
        B = rng.choice(same)
        ops.append(f'C09 mul {n} {mstr(A)} {mstr(B)}')
        # a non-symplectic neighbour: flip one entry
        C = A.copy()
        C[rng.randrange(2 * n), rng.randrange(2 * n)] ^= 1
        ops += [f'C09 issp {n} {mstr(C)}', f'C09 inv {n} {mstr(C)}', f'C09 to {n} {mstr(C)}']
    # arbitrary bit matrices (mostly not symplectic; to_int_tuple may hit the zero-row assert)
    for _ in range(100 if quick else 1500):
        n = rng.randint(1, 5)
        C = np.array([[rng.randint(0, 1) for _ in range(2 * n)] for _ in range(2 * n)], dtype=np.uint8)
        if rng.random() < 0.3:
            C[0] = 0
        ops += [f'C09 issp {n} {mstr(C)}', f'C09 to {n} {mstr(C)}', f'C09 inv {n} {mstr(C)}']
    # rand_SpF2 with scripted raw draws: the post-processing is from_int_tuple of exactly the drawn tuple,
    # and the draws are requested from [0, base-1]
    for i in range(80 if quick else 800):
        n = 1 + i % 8
        t = rand_tuple(rng, n)
        if i % 5 == 0:
            t = tuple(rng.choice([0, b - 1]) for b in bases(n))
        ops.append(f'C09 randsp {n} {tstr(t)}')
    # rand_SpF2 outputs through to_int_tuple
    for i in range(60 if quick else 600):
        n = 1 + i % 8
        seed = ctx.np_seed * 1000 + i
        tm = guarded(lambda: numqi.random.rand_SpF2(n, return_kind='int_tuple-matrix', seed=seed))
        if isinstance(tm, str):
            continue  # reported by the probe
        t, M = tm
        if all(0 <= int(x) < b for x, b in zip(t, bases(n))):
            ops.append(f'C09 from {n} {tstr(t)}')
        ops += [f'C09 to {n} {mstr(M)}', f'C09 issp {n} {mstr(M)}']
    return ops


def correspondence(ctx):
    try:
        ops = gen_ops(ctx)
    except Exception as e:  # noqa: BLE001  an implementation failure while generating is a finding with its input, never exit 2
        import traceback
        where = [f'{os.path.basename(fr.filename)}:{fr.lineno} {fr.name}' for fr in traceback.extract_tb(e.__traceback__)][-4:]
        ctx.fail('implementation-raised', f'{type(e).__name__}: {e} while generating the op stream at {where}', dict(op='generation', exception=repr(e), where=where))
        ops = []
    ops = list(dict.fromkeys(ops))
    impl = [canon(safe_impl_op(op)) for op in ops]
    model = [ooc_model(op, canon(m)) for op, m in zip(ops, common.run_model(ops))]
    nontriv = lambda op, out: any(c not in '0; -' for c in ''.join(op.split(' ')[3:]))
    common.compare(ctx, ops, impl, model, nontrivial=nontriv)
    report_side_effects(ctx, ops, impl)
    # complete domains
    ctx.extra['images'] = {}
    def check_count(n, images, expected):
        ctx.extra['images'][f'n={n}'] = f'{len(images)} distinct images for {expected} tuples'
        if len(images) != expected:
            ctx.fail('image-count', f'n={n}: {len(images)} distinct images for {expected} tuples', dict(op='count', n=n, distinct=len(images), expected=expected))
        else:
            ctx.probe_ok(('count', n))
    for n in (1, 2):
        check_count(n, tuples_through_both(ctx, n, range(order(n))), order(n))
    if ctx.quick():
        stride = 211  # prime, coprime to every base: the sample runs through all residues of every digit
        idxs = list(range(ctx.seed % stride, order(3), stride))
        check_count(3, tuples_through_both(ctx, 3, idxs), len(idxs))
        ctx.extra['exhaustive_domain'] = f'all tuples n=1 (6), n=2 (720); n=3: {len(idxs)} tuples (every {stride}-th index); all ordered pairs of vectors n<=3 for find_transvection'
    else:
        check_count(3, tuples_through_both(ctx, 3, range(order(3)), procs=16), order(3))
        ctx.extra['exhaustive_domain'] = 'all tuples n=1 (6), n=2 (720), n=3 (1,451,520); all ordered pairs of vectors n<=4 for find_transvection'
    ctx.extra['exhaustive'] = True


def brute_sp_count(n):
    """number of 2n x 2n bit matrices with S Λ Sᵀ = Λ, by enumeration (n <= 2)"""
    m = 2 * n
    L = lam(n)
    cnt = 0
    rows = [np.array(v, dtype=np.int64) for v in itertools.product([0, 1], repeat=m)]
    # build row by row with pruning
    def ipf(a, b):
        return int(a @ L @ b) % 2
    def rec(chosen):
        nonlocal cnt
        i = len(chosen)
        if i == m:
            cnt += 1
            return
        for r in rows:
            ok = True
            for j, c in enumerate(chosen):
                if ipf(c, r) != int(L[j, i]):
                    ok = False; break
            if ok:
                rec(chosen + [r])
    rec([])
    return cnt


def closure_probe(ctx, sp, n, hs):
    """`transvection(stack, h)` on the stack (order, 2n, 2n) of all images of from_int_tuple: same as element by element, every
    element symplectic, and the set of images is mapped onto itself (the group is generated by transvections)"""
    tl = list(all_tuples(n))
    imgs = [guarded(lambda: sp.from_int_tuple(t)) for t in tl]
    if any(isinstance(M, str) for M in imgs):
        return  # reported by part 1
    stack = np.stack(imgs)
    image = {x.tobytes() for x in stack}
    L = lam(n).astype(np.uint8)
    for h in hs:
        hv = varr(h)
        rep = dict(op='transvection_batch', n=n, h=h)
        moved = guarded(lambda: np.asarray(sp.transvection(stack.copy(), hv.copy())))
        if isinstance(moved, str) or moved.shape != stack.shape:
            ctx.fail('transvection-batch', f'transvection(stack of shape {stack.shape}, h={h}) -> {moved if isinstance(moved, str) else moved.shape}', rep)
            continue
        ref = np.stack([sp.transvection(x.copy(), hv.copy()) for x in stack])
        if not np.array_equal(moved, ref):
            k = int(np.nonzero((moved != ref).reshape(len(stack), -1).any(axis=1))[0][0])
            ctx.fail('transvection-batch', f'n={n} h={h}: transvection on the stack of all {len(stack)} images differs from element-wise transvection '
                     f'at element {k} = from_int_tuple({tl[k]}) = {mstr(stack[k])}: stack call gives {mstr(moved[k])}, single call {mstr(ref[k])}',
                     dict(rep, int_tuple=list(tl[k]), element=mstr(stack[k])))
            continue
        form = (moved.astype(np.int64) @ L.astype(np.int64) @ moved.astype(np.int64).transpose(0, 2, 1)) % 2
        if not np.array_equal(form, np.broadcast_to(L, form.shape)):
            ctx.fail('transvection-batch', f'n={n} h={h}: T_h(image) does not preserve the form', rep)
        elif {x.tobytes() for x in moved} != image:
            ctx.fail('transvection-batch', f'n={n} h={h}: the image set of from_int_tuple is not closed under T_h', rep)
        else:
            ctx.probe_ok(('closure', n, h))
        # same sweep for get_inner_product: the stack against h, one bit per row
        ipb = guarded(lambda: np.asarray(sp.get_inner_product(stack.copy(), hv.copy())))
        ipr = np.array([[int(sp.get_inner_product(r, hv)) for r in x] for x in stack])
        if isinstance(ipb, str) or ipb.shape != stack.shape[:-1] or not np.array_equal(ipb.astype(np.int64), ipr):
            ctx.fail('inner-product-batch', f'n={n} h={h}: get_inner_product on the stack differs from row-by-row calls', dict(rep, op='inner_product_batch'))
        else:
            ctx.probe_ok()


def buffer_reuse_block(ctx, only=None):
    """deterministic block (both tiers, no rng): every array-returning function of spf2 / rand_SpF2 with two different inputs of the
    same size (see `buffer_reuse`)"""
    import numqi
    sp = numqi.group.spf2
    def run(fn, call, A, B, **kw):
        if only is None or only == fn:
            buffer_reuse(ctx, fn, call, A, B, **kw)
    tuples = {1: [(0, 0), (2, 1)], 2: [(0, 0, 0, 0), (2, 1, 14, 7)], 3: [(1, 0, 3, 2, 5, 7), (2, 1, 14, 7, 62, 31)]}
    def img(t):   # harness-side copy of the image, recomputed from scratch each time
        return np.array(sp.from_int_tuple(tuple(t))).copy()
    for n, (ta, tb) in tuples.items():
        run('from_int_tuple', lambda t: sp.from_int_tuple(tuple(t)), ta, tb,
            holds=lambda t, M: is_sp(M) and tuple(int(x) for x in sp.to_int_tuple(np.array(M).copy())) == tuple(t))
        run('to_int_tuple', lambda t: sp.to_int_tuple(img(t)), ta, tb, holds=lambda t, r: tuple(int(x) for x in r) == tuple(t))
        run('inverse', lambda t: sp.inverse(img(t)), ta, tb,
            holds=lambda t, R: np.array_equal((img(t).astype(np.int64) @ np.asarray(R).astype(np.int64)) % 2, np.eye(2 * n, dtype=np.int64)))
        run('rand_SpF2', lambda t: numqi.random.rand_SpF2(n, seed=ScriptedRandom(list(t))), ta, tb, holds=lambda t, M: is_sp(M))
        run('rand_SpF2[int_tuple-matrix]', lambda t: numqi.random.rand_SpF2(n, return_kind='int_tuple-matrix', seed=ScriptedRandom(list(t))), ta, tb)
        h = '1' + '0' * (2 * n - 2) + '1'
        # transvection on a matrix / a stack of two matrices / a vector, same transvection list
        run('transvection[matrix]', lambda t: sp.transvection(img(t), varr(h)), ta, tb, holds=lambda t, R: is_sp(R))
        run('transvection[stack]', lambda t: sp.transvection(np.stack([img(t), img(t)[::-1].copy()]), varr(h), varr(h[::-1])), ta, tb)
        run('get_inner_product[matrix]', lambda t: sp.get_inner_product(img(t), varr(h)), ta, tb)
    for m, (xa, xb, ha, hb) in {2: ('10', '11', '01', '11'), 4: ('1010', '0111', '0011', '1001'), 6: ('100110', '011101', '110000', '000111')}.items():
        run('transvection[vector]', lambda x: sp.transvection(varr(x.split('|')[0]), varr(x.split('|')[1])), f'{xa}|{ha}', f'{xb}|{hb}')
        run('find_transvection', lambda x: sp.find_transvection(varr(x.split('|')[0]), varr(x.split('|')[1])), f'{xa}|{ha}', f'{xb}|{hb}',
            holds=lambda x, r: np.array_equal(sp.transvection(varr(x.split('|')[0]), r[0], r[1]), varr(x.split('|')[1])))
    for n, ia, ib in ((3, 5, 6), (8, 5, 200), (9, 300, 77), (16, 40000, 12345), (64, 2 ** 63 + 5, 12345678901234567)):
        run('int_to_bitarray', lambda i: sp.int_to_bitarray(int(i.split('/')[0]), int(i.split('/')[1])), f'{ia}/{n}', f'{ib}/{n}',
            holds=lambda i, r: sp.bitarray_to_int(np.array(r).copy()) == int(i.split('/')[0]))
    for n in (1, 2, 3):
        run('get_number', lambda k: sp.get_number(n, k), 'base', 'coset')   # immutable tuples: only "unchanged" is meaningful


def _probe_body(ctx):
    """direct evaluation of the property statement on the real code, independent of the model"""
    # 0. buffer reuse across calls (deterministic block)
    buffer_reuse_block(ctx)
    import numqi
    sp = numqi.group.spf2
    rng = ctx.rng
    # 1. images symplectic, distinct, count = order, round trip, inverse two-sided (n = 1, 2 complete)
    for n in (1, 2):
        L = lam(n)
        seen = {}
        I = np.eye(2 * n, dtype=np.int64)
        for t in all_tuples(n):
            M = guarded(lambda: from_with_history(sp, t))
            if isinstance(M, str):
                ctx.fail('aliasing' if M.startswith('aliasing') else 'from-raises', f'from_int_tuple({t}): {M}', dict(op='from_int_tuple', n=n, int_tuple=list(t))); continue
            Mi = M.astype(np.int64)
            if not np.array_equal((Mi @ L @ Mi.T) % 2, L):
                ctx.fail('image-symplectic', f'from_int_tuple({t}) is not symplectic', dict(op='from_int_tuple', n=n, int_tuple=list(t)))
            else:
                ctx.probe_ok(('sp', n, t))
            key = mstr(M)
            if key in seen:
                ctx.fail('image-distinct', f'from_int_tuple({t}) == from_int_tuple({seen[key]})', dict(op='from_int_tuple', n=n, int_tuple=list(t), other=list(seen[key])))
            seen[key] = t
            back = guarded(lambda: sp.to_int_tuple(M))
            if isinstance(back, str) or tuple(int(x) for x in back) != tuple(t):
                ctx.fail('from-to-roundtrip', f'to_int_tuple(from_int_tuple({t})) = {back}', dict(op='roundtrip', n=n, int_tuple=list(t)))
            else:
                ctx.probe_ok()
            Inv = guarded(lambda: sp.inverse(M).astype(np.int64))
            if isinstance(Inv, str) or not (np.array_equal((Mi @ Inv) % 2, I) and np.array_equal((Inv @ Mi) % 2, I)):
                ctx.fail('inverse', f'inverse(from_int_tuple({t})) is not a two-sided inverse', dict(op='inverse', n=n, int_tuple=list(t)))
            else:
                ctx.probe_ok()
        want = brute_sp_count(n)
        if sp.get_number(n, 'order') != want or len(seen) != want:
            ctx.fail('image-count', f'n={n}: {len(seen)} distinct images, get_number order {sp.get_number(n, "order")}, |Sp| by enumeration {want}', dict(op='count', n=n))
        else:
            ctx.probe_ok(('order', n))
    # 1b. closure of the image set under every generating transvection, the whole stack pushed through in one call
    for n in (1, 2):
        closure_probe(ctx, sp, n, list(nonzero_vecs(n)))
    # 2. get_number consistency for larger n
    for n in range(1, 12):
        b = sp.get_number(n, 'base')
        o = sp.get_number(n, 'order')
        c = sp.get_number(n, 'coset')
        prod = 1
        for x in b: prod *= x
        want = 1
        for i in range(1, n + 1): want *= (4 ** i - 1) * 2 ** (2 * i - 1)
        if prod != o or o != want or tuple(c) != tuple(b[2 * i] * b[2 * i + 1] for i in range(n)):
            ctx.fail('get_number', f'get_number({n}) inconsistent: base {b}, order {o}, coset {c}', dict(op='get_number', n=n))
        else:
            ctx.probe_ok(('num', n))
    # 3. find_transvection: all ordered pairs of non-zero vectors
    for n in ([1, 2, 3] if ctx.quick() else [1, 2, 3, 4]):
        vecs = [varr(s) for s in nonzero_vecs(n)]
        for v0 in vecs:
            for v1 in vecs:
                r = guarded(lambda: sp.find_transvection(v0, v1))
                ok = (not isinstance(r, str)) and np.array_equal(sp.transvection(v0, r[0], r[1]), v1)
                if not ok:
                    ctx.fail('find_transvection', f'find_transvection({vstr(v0)},{vstr(v1)}) does not map v0 to v1', dict(op='find_transvection', n=n, v0=vstr(v0), v1=vstr(v1)))
                else:
                    ctx.probe_ok()
        ctx.probe_ok(('find', n))
    # 4. random larger n: transvection lemma, involution, form, round trip, inverse, rand_SpF2
    for i in range(150 if ctx.quick() else 2000):
        n = rng.randint(3, 10)
        v0, v1 = varr(rand_vec(rng, 2 * n, True)), varr(rand_vec(rng, 2 * n, True))
        if i % 3 == 0:  # sparse pair: disjoint supports hit branches 4/5
            v0 = np.zeros(2 * n, dtype=np.uint8); v1 = np.zeros(2 * n, dtype=np.uint8)
            i0, i1 = rng.sample(range(n), 2)
            v0[i0], v0[i0 + n] = rng.choice([(1, 0), (0, 1), (1, 1)])
            v1[i1], v1[i1 + n] = rng.choice([(1, 0), (0, 1), (1, 1)])
        r = guarded(lambda: sp.find_transvection(v0, v1))
        if isinstance(r, str) or not np.array_equal(sp.transvection(v0, r[0], r[1]), v1):
            ctx.fail('find_transvection', f'find_transvection({vstr(v0)},{vstr(v1)}) does not map v0 to v1', dict(op='find_transvection', n=n, v0=vstr(v0), v1=vstr(v1)))
        else:
            ctx.probe_ok(('findr', vstr(v0), vstr(v1)))
        h = varr(rand_vec(rng, 2 * n))
        x, y = varr(rand_vec(rng, 2 * n)), varr(rand_vec(rng, 2 * n))
        tx, ty = sp.transvection(x, h), sp.transvection(y, h)
        if not np.array_equal(sp.transvection(tx, h), x) or int(sp.get_inner_product(tx, ty)) != int(sp.get_inner_product(x, y)):
            ctx.fail('transvection', f'transvection by {vstr(h)} not an involutive isometry on {vstr(x)},{vstr(y)}', dict(op='transvection', n=n, h=vstr(h), x=vstr(x), y=vstr(y)))
        else:
            ctx.probe_ok()
        t = rand_tuple(rng, n)
        M = guarded(lambda: from_with_history(sp, t))
        if isinstance(M, str):
            ctx.fail('aliasing' if M.startswith('aliasing') else 'from-raises', f'from_int_tuple({t}): {M}', dict(op='from_int_tuple', n=n, int_tuple=list(t))); continue
        Mi = M.astype(np.int64); L = lam(n); I = np.eye(2 * n, dtype=np.int64)
        if not np.array_equal((Mi @ L @ Mi.T) % 2, L):
            ctx.fail('image-symplectic', f'from_int_tuple({t}) is not symplectic', dict(op='from_int_tuple', n=n, int_tuple=list(t)))
        else:
            ctx.probe_ok(('spr', t))
        back = guarded(lambda: sp.to_int_tuple(M))
        if isinstance(back, str) or tuple(int(x) for x in back) != tuple(t):
            ctx.fail('from-to-roundtrip', f'to_int_tuple(from_int_tuple({t})) = {back}', dict(op='roundtrip', n=n, int_tuple=list(t)))
        else:
            ctx.probe_ok()
        Inv = guarded(lambda: sp.inverse(M).astype(np.int64))
        if isinstance(Inv, str) or not (np.array_equal((Mi @ Inv) % 2, I) and np.array_equal((Inv @ Mi) % 2, I)):
            ctx.fail('inverse', f'inverse(from_int_tuple({t})) is not a two-sided inverse', dict(op='inverse', n=n, int_tuple=list(t)))
        else:
            ctx.probe_ok()
    for i in range(40 if ctx.quick() else 400):
        n = 1 + i % 8
        seed = ctx.np_seed * 1000 + 500000 + i
        def f():
            M = numqi.random.rand_SpF2(n, seed=seed)
            t = numqi.random.rand_SpF2(n, return_kind='int_tuple', seed=seed)
            return is_sp(M) and all(0 <= x < b for x, b in zip(t, bases(n))) and tuple(int(x) for x in sp.to_int_tuple(M)) == tuple(t)
        ok = guarded(f)
        if ok is not True:
            ctx.fail('rand_SpF2', f'rand_SpF2(n={n}, seed={seed}) is not the symplectic matrix of its in-range tuple', dict(op='rand_SpF2', n=n, seed=seed))
        else:
            ctx.probe_ok(('rand', n, seed))


def _search_body(ctx, hints):
    """evaluate the property on exactly the disagreeing inputs"""
    import numqi
    sp = numqi.group.spf2
    for d in hints[:300]:
        t = d['op'].split(' ')
        if len(t) < 4 or t[0] != 'C09':
            continue
        k, n = t[1], int(t[2])
        if k == 'find':
            v0, v1 = varr(t[3]), varr(t[4])
            if v0.any() and v1.any():
                r = guarded(lambda: sp.find_transvection(v0, v1))
                if isinstance(r, str) or not np.array_equal(sp.transvection(v0, r[0], r[1]), v1):
                    ctx.fail('find_transvection', f'find_transvection({t[3]},{t[4]}) does not map v0 to v1', dict(op='find_transvection', n=n, v0=t[3], v1=t[4]))
        elif k == 'from':
            tt = tuple(int(x) for x in t[3].split(';'))
            M = guarded(lambda: from_with_history(sp, tt))
            if isinstance(M, str) and M.startswith('aliasing'):
                ctx.fail('aliasing', f'from_int_tuple({tt}): {M}', dict(op='from_int_tuple', n=n, int_tuple=list(tt)))
            elif isinstance(M, str) or not is_sp(M):
                ctx.fail('image-symplectic', f'from_int_tuple({tt}) is not symplectic / raised', dict(op='from_int_tuple', n=n, int_tuple=list(tt)))
            else:
                back = guarded(lambda: sp.to_int_tuple(M))
                if isinstance(back, str) or tuple(int(x) for x in back) != tt:
                    ctx.fail('from-to-roundtrip', f'to_int_tuple(from_int_tuple({tt})) = {back}', dict(op='roundtrip', n=n, int_tuple=list(tt)))
                Mi = M.astype(np.int64); I = np.eye(2 * n, dtype=np.int64)
                Inv = guarded(lambda: sp.inverse(M).astype(np.int64))
                if isinstance(Inv, str) or not (np.array_equal((Mi @ Inv) % 2, I) and np.array_equal((Inv @ Mi) % 2, I)):
                    ctx.fail('inverse', f'inverse(from_int_tuple({tt})) is not a two-sided inverse', dict(op='inverse', n=n, int_tuple=list(tt)))
        elif k in ('to', 'inv'):
            M = marr(t[3])
            if is_sp(M):
                Mi = M.astype(np.int64); I = np.eye(2 * n, dtype=np.int64)
                Inv = guarded(lambda: sp.inverse(M).astype(np.int64))
                if isinstance(Inv, str) or not (np.array_equal((Mi @ Inv) % 2, I) and np.array_equal((Inv @ Mi) % 2, I)):
                    ctx.fail('inverse', f'inverse not two-sided on {t[3]}', dict(op='inverse', n=n, mat=t[3]))
                tt = guarded(lambda: sp.to_int_tuple(M))
                if isinstance(tt, str) or not np.array_equal(sp.from_int_tuple(tuple(int(x) for x in tt)), M):
                    ctx.fail('to-from-roundtrip', f'from_int_tuple(to_int_tuple(M)) != M for M={t[3]}', dict(op='to_int_tuple', n=n, mat=t[3]))
        elif k == 'tvb':
            shape = tuple(int(x) for x in t[3].split('x'))
            X = np.array([[int(c) for c in r] for r in t[4].split(';')], dtype=np.uint8).reshape(shape)
            hs = [] if t[5] == '-' else [varr(h) for h in t[5].split(';')]
            Y = guarded(lambda: np.asarray(sp.transvection(X.copy(), *hs)))
            ref = np.array([sp.transvection(r.copy(), *hs) for r in X.reshape(-1, 2 * n)]).reshape(shape)
            if isinstance(Y, str) or Y.shape != X.shape or not np.array_equal(Y, ref):
                ctx.fail('transvection-batch', f'transvection on an array of shape {shape} (rows {t[4]}, h_list {t[5]}) is not the row-by-row map: '
                         f'{Y if isinstance(Y, str) else rows_of(Y, 2 * n)} instead of {rows_of(ref, 2 * n)}', dict(op='transvection_rows', n=n, shape=t[3], rows=t[4], hs=t[5]))
        elif k == 'ipb':
            shape = tuple(int(x) for x in t[3].split('x'))
            X = np.array([[int(c) for c in r] for r in t[4].split(';')], dtype=np.uint8).reshape(shape)
            w = varr(t[5])
            Y = guarded(lambda: np.asarray(sp.get_inner_product(X.copy(), w)))
            ref = np.array([int(sp.get_inner_product(r, w)) for r in X.reshape(-1, 2 * n)]).reshape(shape[:-1])
            if isinstance(Y, str) or Y.shape != ref.shape or not np.array_equal(Y.astype(np.int64), ref):
                ctx.fail('inner-product-batch', f'get_inner_product on an array of shape {shape} (rows {t[4]}, v1 {t[5]}) is not the row-by-row map', dict(op='inner_product_rows', n=n, shape=t[3], rows=t[4], w=t[5]))
        elif k == 'tv':
            x = varr(t[3])
            hs = [] if t[4] == '-' else [varr(h) for h in t[4].split(';')]
            y = sp.transvection(x, *hs)
            if not np.array_equal(sp.transvection(y, *hs[::-1]), x):
                ctx.fail('transvection', f'transvections {t[4]} not undone by the reversed list on {t[3]}', dict(op='transvection', n=n, x=t[3], hs=t[4]))


def rows_of(Y, m):
    return ';'.join(vstr(r) for r in np.asarray(Y).reshape(-1, m))


def probe(ctx):
    """the probe must end in a verdict even when the implementation raises somewhere unexpected: such an exception is
    itself reported as a failure of the property on the input being evaluated"""
    try:
        _probe_body(ctx)
    except Exception as e:  # noqa: BLE001
        import traceback
        tb = traceback.extract_tb(e.__traceback__)
        where = [f'{os.path.basename(fr.filename)}:{fr.lineno} {fr.name}' for fr in tb][-4:]
        ctx.fail('implementation-raised', f'{type(e).__name__}: {e} at {where}', dict(op='probe', exception=repr(e), where=where))


def search(ctx, hints):
    try:
        _search_body(ctx, hints)
    except Exception as e:  # noqa: BLE001
        ctx.fail('implementation-raised', f'{type(e).__name__}: {e} during the failing-input search', dict(op='search', exception=repr(e)))


def replay(ctx, payload):
    """re-evaluate the property on exactly the recorded failing input"""
    import numqi
    sp = numqi.group.spf2
    r = payload.get('replay', {})
    op = r.get('op')
    hints = []
    if op == 'find_transvection':
        hints = [dict(op=f"C09 find {r['n']} {r['v0']} {r['v1']}")]
    elif op in ('from_int_tuple', 'roundtrip', 'inverse') and 'int_tuple' in r:
        hints = [dict(op=f"C09 from {r['n']} {tstr(r['int_tuple'])}")]
    elif op in ('inverse', 'to_int_tuple') and 'mat' in r:
        hints = [dict(op=f"C09 to {r['n']} {r['mat']}")]
    elif op == 'transvection' and 'hs' in r:
        hints = [dict(op=f"C09 tv {r['n']} {r['x']} {r['hs']}")]
    elif op == 'transvection_rows':
        hints = [dict(op=f"C09 tvb {r['n']} {r['shape']} {r['rows']} {r['hs']}")]
    elif op == 'inner_product_rows':
        hints = [dict(op=f"C09 ipb {r['n']} {r['shape']} {r['rows']} {r['w']}")]
    elif op in ('transvection_batch', 'inner_product_batch'):
        try:
            closure_probe(ctx, sp, r['n'], [r['h']])
        except Exception as e:  # noqa: BLE001
            ctx.fail('implementation-raised', f'{type(e).__name__}: {e}', r)
        hints = None
    elif op == 'buffer-reuse':
        buffer_reuse_block(ctx, only=r.get('fn'))
        hints = None
    elif op in ('side-effect', 'dtype') and 'line' in r:
        out = canon(safe_impl_op(r['line']))
        report_side_effects(ctx, [r['line']], [out])
        model = [ooc_model(r['line'], canon(m)) for m in common.run_model([r['line']])]
        if model and model[0] != out:
            ctx.fail('aliasing' if 'aliasing:' in out else 'correspondence', f"{r['line']}: implementation {out[:200]} model {model[0][:200]}", r)
        hints = None
    elif op == 'rand_SpF2':
        n, seed = r['n'], r['seed']
        def f():
            M = numqi.random.rand_SpF2(n, seed=seed)
            t = numqi.random.rand_SpF2(n, return_kind='int_tuple', seed=seed)
            return is_sp(M) and all(0 <= x < b for x, b in zip(t, bases(n))) and tuple(int(x) for x in sp.to_int_tuple(M)) == tuple(t)
        if guarded(f) is not True:
            ctx.fail('rand_SpF2', f'rand_SpF2(n={n}, seed={seed}) is not the symplectic matrix of its in-range tuple', r)
    if hints:
        search(ctx, hints)
    elif hints is not None and op != 'rand_SpF2':
        probe(ctx)
    hit = [f for f in ctx.failures if f['key'] == payload.get('key')] or ctx.failures
    if hit:
        print(f"replay: {payload.get('key')} still fails: {hit[0]['what']}")
        print(f"VIOLATION property={ctx.pid} replay={getattr(ctx, 'replay_path', None) or _replay_path()}")
        return 1
    print(f"replay: {payload.get('key')} no longer fails ({ctx.probe_evals} evaluations)")
    return 0


def _replay_path():
    a = sys.argv
    return a[a.index('--replay') + 1] if '--replay' in a and a.index('--replay') + 1 < len(a) else ''
