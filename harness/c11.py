"""C11 — measurement is a valid projective measurement on any ascending qubit subset.

Model: lean/NumqiModel/Measure.lean (+ Sim.lean).  Theorems: lean/NumqiProps/C11.lean.
Correspondence: the state is sent as exact binary64 bit patterns, the model computes the Born marginals and the projection
in Q[i] exactly (both by the literal run-length-grouped route of the code and by the bitwise description); the
implementation's `prob` and `q2 * sqrt(prob[ind1])` are compared with 1e-12.  The sampled outcome index is read back from
the returned bit string (a twin generator's draw is recorded for information).  The grouping function itself is tied exactly.
Probe: brute-force Born rule / projector built here from bit tests, repeatability by measuring the returned state again.
"""
import itertools, math
import numpy as np
from . import common
from .c03 import enc_q, enc_z, dec_q, idx_str, close, rand_gi, rand_int_unitary, REF, oracle_embed, oracle_ctrl, guarded

THEOREM_FILES = ['NumqiProps/C11.lean']
LEVEL = 'proof'
RULE = ('one evaluation = one call of measure_quantum_vector (or one MeasureGate inside Circuit.apply_state) on a generated (state, qubit subset, seed), '
        'compared with the Lean model (1e-12) and with the brute-force Born rule. Every non-empty ascending subset of n<=4 (quick) / n<=6 (thorough) qubits '
        'is enumerated, with basis, product, GHZ, W, sparse (zero-probability outcomes) and random states; seeds are varied until every outcome of '
        'probability > 0.02 has been drawn (at most 12 distinct outcomes kept per state). An input is non-trivial when at least two outcomes have non-zero '
        'probability or the subset is proper; distinct = distinct (n, subset, state family, outcome).')
TRUSTED = ['Lean 4.33 kernel', 'axioms: propext, Classical.choice, Quot.sound', 'Lean compiler for the driver executable',
           'harness/c11.py and the shared helpers of harness/c03.py (canonicalisation, brute-force oracles)',
           'modelled, not verified: numqi/sim/state.py measure_quantum_vector, circuit.py MeasureGate',
           'not modelled: numpy Generator.choice (the sampled index is an input of the model), sqrt/division rounding (bounded by the 1e-12 comparison)']
TOL = 1e-12


def bits_of(x, n):
    return [(x >> (n - 1 - q)) & 1 for q in range(n)]


def born(psi, subset, n):
    """brute-force Born marginals of the qubits `subset` (ascending)"""
    out = np.zeros(2 ** len(subset))
    for x in range(2 ** n):
        b = bits_of(x, n)
        o = 0
        for q in subset:
            o = 2 * o + b[q]
        out[o] += abs(psi[x]) ** 2
    return out


def projector_mask(subset, outcome_bits, n):
    m = np.zeros(2 ** n, dtype=bool)
    for x in range(2 ** n):
        b = bits_of(x, n)
        m[x] = all(b[q] == o for q, o in zip(subset, outcome_bits))
    return m


def states(rng, n, quick):
    """(family, normalised state) pairs"""
    N = 2 ** n
    out = []
    e = np.zeros(N, dtype=np.complex128); e[int(rng.integers(0, N))] = 1
    out.append(('basis', e))
    ghz = np.zeros(N, dtype=np.complex128); ghz[0] = ghz[-1] = 1 / np.sqrt(2)
    out.append(('ghz', ghz))
    w = np.zeros(N, dtype=np.complex128)
    for q in range(n):
        w[1 << q] = 1
    out.append(('w', w / np.linalg.norm(w)))
    prod = np.array([1.0 + 0j])
    for q in range(n):
        v = rng.normal(size=2) + 1j * rng.normal(size=2)
        if rng.integers(0, 3) == 0:
            v = np.array([1.0, 0.0]) if rng.integers(0, 2) else np.array([0.0, 1.0])   # definite qubit: zero-probability outcomes
        prod = np.kron(prod, v / np.linalg.norm(v))
    out.append(('product', prod))
    sp = (rng.normal(size=N) + 1j * rng.normal(size=N)) * (rng.integers(0, 3, size=N) == 0)
    if np.linalg.norm(sp) == 0:
        sp[0] = 1
    out.append(('sparse', sp / np.linalg.norm(sp)))
    g = rand_gi(rng, N)
    if np.linalg.norm(g) == 0:
        g[0] = 1
    out.append(('gaussint', g / np.linalg.norm(g)))
    for _ in range(1 if quick else 2):
        r = rng.normal(size=N) + 1j * rng.normal(size=N)
        out.append(('random', r / np.linalg.norm(r)))
    # boundaries: a near-certain outcome (probability 1 - delta^2, delta^2 from 1e-5 down to 1e-12) next to exact zeros
    if N >= 2:
        a, b = (int(x) for x in rng.permutation(N)[:2])
        # p = 1 - delta^2 with delta^2 = 1e-3 … 1e-12
        for delta in ((3e-2, 1e-2, 3e-3, 1e-3, 1e-4, 1e-5, 1e-6) if not quick else (3e-2, 3e-3, 1e-4, 1e-6)):
            v = np.zeros(N, dtype=np.complex128); v[a] = 1; v[b] = delta * np.exp(1j * rng.uniform(0, 6))
            out.append(('near-certain', v / np.linalg.norm(v)))
        if n >= 2:
            # (cos t|0> + sin t|1>) (x) |+> (x) |0…0>, t = 2e-3: qubit 0 is almost certainly 0 while qubit 1 is undecided
            t = 2e-3
            v = np.kron(np.array([math.cos(t), math.sin(t)]), np.array([1, 1]) / np.sqrt(2))
            for _ in range(n - 2):
                v = np.kron(v, np.array([1.0, 0.0]))
            out.append(('near-certain', v.astype(np.complex128)))
    # dtypes / layouts the clean tree accepts: real float64, integer basis state, single precision, non-contiguous view
    r = rng.normal(size=N)
    out.append(('real-float64', r / np.linalg.norm(r)))
    ib = np.zeros(N, dtype=np.int64); ib[int(rng.integers(0, N))] = 1
    out.append(('int-basis', ib))
    r = rng.normal(size=N) + 1j * rng.normal(size=N)
    out.append(('complex64', (r / np.linalg.norm(r)).astype(np.complex64)))
    r = rng.normal(size=N)
    out.append(('float32', (r / np.linalg.norm(r)).astype(np.float32)))
    r = rng.normal(size=N) + 1j * rng.normal(size=N)
    big = np.zeros(2 * N, dtype=np.complex128); big[::2] = r / np.linalg.norm(r)
    out.append(('strided-view', big[::2]))
    return out


class MCase:
    __slots__ = ('op', 'n', 'subset', 'family', 'psi', 'seed', 'res', 'ind1', 'twin', 'key', 'ntkey', 'tol', 'alias', 'snap')


def measure_cases(ctx, rng):
    import numqi
    st = numqi.sim.state
    cases = []
    nmax = 4 if ctx.quick() else 6
    todo = []
    # original witnesses of the repaired defects of this property (corpus/C11/*.json), first in both tiers
    import glob, json, os
    for f in sorted(glob.glob(os.path.join(common.VERIF, 'corpus', 'C11', '*.json'))):
        for e in json.load(open(f))['entries']:
            N = 2 ** e['n']
            if e['state'] == 'ghz':
                v = np.zeros(N, dtype=np.complex128); v[0] = v[-1] = 1 / np.sqrt(2)
            elif e['state'] == 'w':
                v = np.zeros(N, dtype=np.complex128)
                for q in range(e['n']):
                    v[1 << q] = 1
                v = v / np.linalg.norm(v)
            else:
                v = np.ones(N, dtype=np.complex128) / np.sqrt(N)
            todo.append((e['n'], tuple(e['index']), [('corpus:' + e['state'], v)]))
            ctx.count('corpus')
    for n in range(1, nmax + 1):
        sts = states(rng, n, ctx.quick())
        for r in range(1, n + 1):
            for subset in itertools.combinations(range(n), r):
                todo.append((n, subset, sts))
    if ctx.quick():
        # larger registers in the quick tier: subsets whose complement / whose kept part splits into three or more runs
        for n, subset in [(5, (1, 3)), (5, (0, 2, 4)), (6, (1, 3)), (6, (1, 3, 5)), (6, (0, 2, 4)), (6, (1, 4)), (6, (0, 1, 3, 5)), (5, (2,)), (6, (0, 1, 2, 3, 4, 5))]:
            sts = [x for x in states(rng, n, True) if x[0] in ('ghz', 'sparse', 'random', 'product', 'near-certain', 'complex64')]
            todo.append((n, subset, sts))
    for n, subset, sts in todo:
        for fam, psi in sts:
            p_true = born(psi, subset, n)
            want = {int(i) for i in np.nonzero(p_true > 0.02)[0]}
            seen = {}
            for trial in range(6 * len(p_true) + 4):
                if len(seen) >= 12 or (want and want <= set(seen)) and trial >= 2:
                    break
                seed = int(rng.integers(0, 2 ** 31))
                idx_form = subset if rng.integers(0, 2) else list(subset)
                psi0 = psi.copy()
                res = guarded(lambda: st.measure_quantum_vector(psi, idx_form, seed=np.random.default_rng(seed)))
                alias = None
                if not (np.array_equal(psi, psi0) and psi.dtype == psi0.dtype):
                    alias = 'the caller\'s state was modified by the measurement'
                    psi = psi0.copy()      # keep generating from the intended state
                if isinstance(res, str):
                    seen[('err', trial)] = (seed, res, None, alias)
                    break
                if alias is None and isinstance(res[2], np.ndarray) and np.shares_memory(res[2], psi):
                    alias = 'the returned state shares memory with the caller\'s state'
                snap = ([int(b) for b in res[0]], np.array(res[1], copy=True), np.array(res[2], copy=True))
                if alias is None:
                    again = guarded(lambda: st.measure_quantum_vector(psi, idx_form, seed=np.random.default_rng(seed)))
                    if isinstance(again, str) or [int(b) for b in again[0]] != snap[0] or not np.array_equal(again[1], snap[1]) or not np.array_equal(again[2], snap[2]):
                        alias = 'a second call with the same state, qubits and seed returned something else'
                bitstr = res[0]
                ind1 = int(''.join(str(int(b)) for b in bitstr), 2) if len(bitstr) else 0
                if ind1 not in seen or alias:
                    seen[ind1] = (seed, res, snap, alias)
            for ind1, (seed, res, snap, alias) in seen.items():
                c = MCase()
                c.n, c.subset, c.family, c.psi, c.seed, c.res = n, subset, fam, psi, seed, res
                c.snap, c.alias = snap, alias
                c.tol = 1e-5 if fam in ('complex64', 'float32') else TOL
                c.key = 'measure_quantum_vector'
                if isinstance(res, str):
                    c.ind1 = 0
                    c.op = f'C11 measure Q {n} {idx_str(subset)} 0 {enc_q(psi)}'
                else:
                    c.ind1 = ind1
                    c.op = f'C11 measure Q {n} {idx_str(subset)} {ind1} {enc_q(psi)}'
                    try:
                        c.twin = int(np.random.default_rng(seed).choice(len(res[1]), p=res[1]))
                    except Exception:
                        c.twin = None
                c.ntkey = ('measure', n, subset, fam, ind1)
                cases.append(c)
    # results of earlier calls must still hold their values after all later calls (returned arrays must not alias cached buffers)
    for c in cases:
        if c.alias is None and not isinstance(c.res, str) and c.snap is not None:
            if [int(b) for b in c.res[0]] != c.snap[0] or not np.array_equal(c.res[1], c.snap[1]) or not np.array_equal(c.res[2], c.snap[2]):
                c.alias = 'the result of an earlier measurement was changed by later measurements (it aliases a shared buffer)'
                c.res = (c.snap[0], c.snap[1], c.snap[2])
    ctx.extra['exhaustive'] = True
    ctx.extra['exhaustive_domain'] = f'every non-empty ascending qubit subset for n = 1..{nmax} (all {sum(2**n - 1 for n in range(1, nmax + 1))} of them), 7-8 state families each'
    return cases


def replay_of(c, **kw):
    d = dict(fn='measure_quantum_vector', n=c.n, index=list(c.subset), family=c.family, seed=c.seed, psi=repr(c.psi.tolist()))
    d.update(kw)
    return d


def check_measure_line(c, line):
    """model line `<bitstr> <prob> <projected> <flag>` against the implementation's (bitstr, prob, q2)"""
    if isinstance(c.res, str):
        return line == c.res, 'implementation raised'
    parts = line.split(' ')
    if len(parts) != 4:
        return False, 'model line malformed'
    bits, prob, proj, flag = parts
    if flag != 'grouped=bitwise':
        return False, 'grouped and bitwise model disagree'
    bitstr, p_impl, q2 = c.res
    if ''.join(str(int(b)) for b in bitstr) != bits:
        return False, 'bit string'
    p_model = dec_q(prob).real
    if p_impl.shape != p_model.shape or not np.all(np.abs(p_impl - p_model) <= c.tol):
        return False, 'probabilities'
    proj_model = dec_q(proj)
    if not close(q2 * math.sqrt(p_impl[c.ind1]), proj_model, c.tol):
        return False, 'post-measurement state'
    return True, ''


def soft_call(f):
    try:
        return f()
    except Exception as e:      # internal helper renamed / re-shaped: the tie is not applicable
        return 'unavailable:' + type(e).__name__


def grouping_cases(ctx):
    """the position -> outcome map of the axis grouping, read off the PUBLIC routine: the basis state |p> is measured (its
    outcome is certain, whatever the generator draws) and the returned bit string is the outcome index position p contributes
    to; the probability vector must be the indicator of that index.  Hard tie to the model's `keptIndexGrouped`.
    Returns (ops, impl) for the hard tie and (ops, impl) for the optional comparison of the private helper."""
    import numqi
    st = numqi.sim.state
    ops, impl, xops, ximpl = [], [], [], []
    nmax = 5 if ctx.quick() else 7
    for n in range(1, nmax + 1):
        for r in range(1, n + 1):
            for subset in itertools.combinations(range(n), r):
                ops.append(f'C11 kept {n} {idx_str(subset)}')
                def h(n=n, subset=subset):
                    out = []
                    for p in range(2 ** n):
                        e = np.zeros(2 ** n, dtype=np.complex128); e[p] = 1
                        bitstr, prob, _ = st.measure_quantum_vector(e, subset, seed=p)
                        v = int(''.join(str(int(b)) for b in bitstr), 2)
                        if not (prob[v] == 1 and np.count_nonzero(prob) == 1):
                            return f'not-an-indicator-at-position-{p}'
                        out.append(v)
                    return ';'.join(str(x) for x in out)
                impl.append(guarded(h))
                # optional extra: the private helper, only if it still has the known name, signature and return arity
                xops.append(f'C11 grouping {n} {idx_str(subset)}')
                def f(n=n, subset=subset):
                    r3 = st._measure_quantum_vector_hf0(n, tuple(subset))
                    if not (isinstance(r3, tuple) and len(r3) == 3):
                        raise TypeError('different return arity')
                    shape, keep, red = r3
                    g = lambda l: ';'.join(str(int(x)) for x in l) if len(l) else '-'
                    return f'{g(shape)} {g(keep)} {g(red)}'
                ximpl.append(soft_call(f))
    return ops, impl, xops, ximpl


# ---------------------------------------------------------------------------
# MeasureGate inside a circuit
# ---------------------------------------------------------------------------

def _resolved_indices(steps):
    """current index tuples of the entries appended so far (shifts applied)"""
    ent = []
    for s_ in steps:
        if s_[0] == 's':
            ent = [[q + s_[1] for q in e] for e in ent]
        elif s_[0] == 'u':
            ent.append(list(s_[2]))
        elif s_[0] == 'c':
            ent.append(list(s_[2]) + list(s_[3]))
        elif s_[0] == 'm':
            ent.append(list(s_[1]))
    return ent


class CCase:
    __slots__ = ('op', 'n', 'steps', 'psi', 'final', 'records', 'key', 'ntkey', 'err', 'tou', 'width', 'prog', 'last', 'expect_error')


def circuit_cases(ctx, rng):
    import numqi
    cases = []
    for it in range(40 if ctx.quick() else 300):
        n = int(rng.integers(1, 5))
        steps = []   # ('u', U, t) | ('c', U, c, t) | ('m', subset, seed) | ('s', delta)
        nm = 0
        width = n
        for _ in range(int(rng.integers(2, 8))):
            r = int(rng.integers(0, 6))
            if r <= 1:
                k = int(rng.integers(1, min(width, 2) + 1))
                t = tuple(int(x) for x in rng.permutation(width)[:k])
                U = rand_int_unitary(rng, 2 ** k) if rng.integers(0, 2) or k == 2 else REF['H']
                steps.append(('u', U, t))
            elif r == 2 and width >= 2:
                q = tuple(int(x) for x in rng.permutation(width)[:2])
                steps.append(('c', REF['X'] if rng.integers(0, 2) else rand_int_unitary(rng, 2), (q[0],), (q[1],)))
            elif r == 3:
                steps.append(('u', REF['H'], (int(rng.integers(0, width)),)))
            elif r == 4 and nm < 3:
                m = int(rng.integers(1, width + 1))
                subset = tuple(sorted(int(x) for x in rng.permutation(width)[:m]))
                form = ['tuple', 'list', 'generator-seed', 'int'][int(rng.integers(0, 4))]
                if form == 'int' and len(subset) != 1:
                    form = 'tuple'
                steps.append(('m', subset, int(rng.integers(0, 2 ** 31)), form))
                nm += 1
            elif r == 5 and rng.integers(0, 2):
                # shift (+/-, also repeatedly, also right after a measure entry): every index so far moves
                used = [q for s_ in _resolved_indices(steps) for q in s_]
                lo = -min(used) if used else 0
                hi = 5 - width
                d = int(rng.integers(lo, hi + 1)) if hi >= lo else 0
                if d != 0:
                    steps.append(('s', d)); width += d
        if any(s[0] == 'm' for s in steps) and not any(s[0] == 's' for s in steps) and width < 5 and it % 2 == 0:
            steps.append(('s', 1)); width += 1       # a shift after the MeasureGate was appended
            steps.append(('u', REF['H'], (int(rng.integers(0, width)),)))
        if it % 5 == 1 and not any(s[0] == 's' for s in steps):
            # the same subset measured twice with a gate in between: two different records on one cached grouping; the first
            # gate's record is read after the whole run
            subset = tuple(sorted(int(x) for x in rng.permutation(width)[:int(rng.integers(1, width + 1))]))
            steps.append(('m', subset, int(rng.integers(0, 2 ** 31))))
            steps.append(('u', REF['H'], (int(subset[0]),)))
            steps.append(('m', subset, int(rng.integers(0, 2 ** 31))))
            nm += 2
        if nm == 0:
            subset = tuple(sorted(int(x) for x in rng.permutation(width)[:int(rng.integers(1, width + 1))]))
            steps.insert(int(rng.integers(0, len(steps) + 1)) if not any(s[0] == 's' for s in steps) else len(steps), ('m', subset, int(rng.integers(0, 2 ** 31))))
        if rng.integers(0, 3) == 0:
            # measure the same qubits twice in a row: the second record must be certain
            last = [s for s in steps if s[0] == 'm'][-1]
            i = steps.index(last)
            if not any(s[0] == 's' for s in steps[i:]):
                steps.insert(i + 1, ('m', last[1], int(rng.integers(0, 2 ** 31))))
        n = width
        g = rand_gi(rng, 2 ** n, -2, 2)
        if np.linalg.norm(g) == 0:
            g[0] = 1
        psi = g / np.linalg.norm(g) if rng.integers(0, 2) else (lambda r: r / np.linalg.norm(r))(rng.normal(size=2 ** n) + 1j * rng.normal(size=2 ** n))
        if it % 3 == 2:
            # real-dtype state through complex (controlled) gates: the simulator must upcast
            r = rng.normal(size=2 ** n)
            psi = r / np.linalg.norm(r)
        c = CCase()
        c.n, c.steps, c.psi, c.key, c.err = n, steps, psi, 'MeasureGate-in-circuit', None
        c.tou, c.width, c.last = None, None, None
        try:
            circ = numqi.sim.Circuit()
            gates = []
            for s in steps:
                if s[0] == 'u':
                    circ.append_gate(numqi.sim.Gate('unitary', s[1]), s[2])
                elif s[0] == 'c':
                    circ.append_gate(numqi.sim.Gate('control', s[1]), (set(s[2]), s[3]))
                elif s[0] == 'm':
                    form = s[3] if len(s) > 3 else 'tuple'
                    idx = s[1][0] if form == 'int' else (list(s[1]) if form == 'list' else s[1])
                    seed = np.random.default_rng(s[2]) if form == 'generator-seed' else s[2]
                    gates.append(circ.measure(idx, seed=seed))
                elif s[0] == 's':
                    circ.shift_qubit_index_(s[1])
            # a circuit holding a MeasureGate has no unitary (circuit.py:445); its width counts the measured qubits (:463-464)
            c.tou = guarded(lambda: 'returned-a-matrix' if isinstance(circ.to_unitary(), np.ndarray) else 'returned')
            c.width = guarded(lambda: str(int(circ.num_qubit)))
            c.final = circ.apply_state(psi)
            c.records = [(list(gt.bitstr), np.array(gt.probability), tuple(gt.index)) for gt in gates]
        except Exception as e:
            c.err = type(e).__name__
            c.final, c.records = None, []
        # the model's program: outcomes read back from the recorded bit strings
        txt = []
        k = 0
        for s in steps:
            if s[0] == 'u':
                txt.append(f'u:{idx_str(s[2])}:{enc_q(s[1])}')
            elif s[0] == 'c':
                txt.append(f'c:{idx_str(s[2])}:{idx_str(s[3])}:{enc_q(s[1])}')
            elif s[0] == 'm':
                bits = ''.join(str(int(b)) for b in c.records[k][0]) if k < len(c.records) else '0' * len(s[1])
                txt.append(f'm:{idx_str(s[1])}:{bits}'); k += 1
            elif s[0] == 's':
                txt.append(f's:{s[1]}')
        c.prog = "|".join(txt)
        c.op = f'C11 circ Q {n} {"|".join(txt)} {enc_q(psi)}'
        c.ntkey = ('circ', n, tuple(s[0] for s in steps), it)
        cases.append(c)
    return cases


def spy_measure(gate, log):
    """record what a MeasureGate holds after each of its forward calls (an object placed twice keeps only the last record)"""
    orig = gate.forward
    def forward(q0):
        r = orig(q0)
        log.append((list(gate.bitstr), np.array(gate.probability), tuple(gate.index), id(gate)))
        return r
    gate.forward = forward


def extend_measure_cases(ctx, rng):
    """one block holding a MeasureGate placed twice by extend_circuit (the same gate object at two positions): both records refer to
    the state at their point of the circuit; afterwards the object holds the last one.  Also MeasureGate index handling through
    Circuit.measure: descending / duplicate index, bare int."""
    import numqi
    cases = []
    for it in range(12 if ctx.quick() else 100):
        n = int(rng.integers(1, 4))
        def rand_gate():
            k = int(rng.integers(1, min(n, 2) + 1))
            return ('u', REF['H'] if (k == 1 and rng.integers(0, 2)) else rand_int_unitary(rng, 2 ** k), tuple(int(x) for x in rng.permutation(n)[:k]))
        pre = [rand_gate() for _ in range(int(rng.integers(0, 3)))]
        subset = tuple(sorted(int(x) for x in rng.permutation(n)[:int(rng.integers(1, n + 1))]))
        sub = [rand_gate() for _ in range(int(rng.integers(0, 2)))] + [('m', subset, int(rng.integers(0, 2 ** 31)))] + [rand_gate() for _ in range(int(rng.integers(0, 2)))]
        mid = [('u', REF['H'], (int(subset[0]),))]
        g = rand_gi(rng, 2 ** n, -2, 2)
        if np.linalg.norm(g) == 0:
            g[0] = 1
        psi = g / np.linalg.norm(g)
        c = CCase()
        c.n, c.psi, c.key, c.err = n, psi, 'MeasureGate-placed-twice', None
        c.steps = pre + sub + mid + sub          # the intended flat circuit
        c.tou, c.width, c.last = None, None, None
        log = []
        try:
            def build(entries, circ):
                for s_ in entries:
                    if s_[0] == 'u':
                        circ.append_gate(numqi.sim.Gate('unitary', s_[1]), s_[2])
                    else:
                        spy_measure(circ.measure(s_[1], seed=s_[2]), log)
            circ = numqi.sim.Circuit(); build(pre, circ)
            block = numqi.sim.Circuit(); build(sub, block)
            circ.extend_circuit(block)
            build(mid, circ)
            circ.extend_circuit(block)
            c.tou = guarded(lambda: 'returned-a-matrix' if isinstance(circ.to_unitary(), np.ndarray) else 'returned')
            c.width = guarded(lambda: str(int(circ.num_qubit)))
            c.final = circ.apply_state(psi)
            c.records = [(r[0], r[1], r[2]) for r in log]
            mg = [g_ for g_, _ in block.gate_index_list if g_.kind == 'measure'][0]
            c.last = (list(mg.bitstr), np.array(mg.probability))
        except Exception as e:
            c.err = type(e).__name__
            c.final, c.records = None, []
        txt, k = [], 0
        for s_ in c.steps:
            if s_[0] == 'u':
                txt.append(f'u:{idx_str(s_[2])}:{enc_q(s_[1])}')
            else:
                bits = ''.join(str(int(b)) for b in c.records[k][0]) if k < len(c.records) else '0' * len(s_[1])
                txt.append(f'm:{idx_str(s_[1])}:{bits}'); k += 1
        c.prog = '|'.join(txt)
        c.op = f'C11 circ Q {n} {c.prog} {enc_q(psi)}'
        c.ntkey = ('placed-twice', n, it)
        cases.append(c)
    # a block holding a MeasureGate extended ONCE into the main circuit, the main circuit shifted afterwards, then the MAIN circuit applied:
    # the record of the (shared) gate object must refer to the state of the main circuit at that point, on the shifted qubits.
    # (What the shift does to the *sub* circuit that shares the gate object is outside the statement: design_notes/C11.md, observation O1.)
    for it in range(12 if ctx.quick() else 100):
        n = int(rng.integers(1, 4))
        d = int(rng.integers(1, 3))
        def rand_gate_on(w):
            k = int(rng.integers(1, min(w, 2) + 1))
            return ('u', REF['H'] if (k == 1 and rng.integers(0, 2)) else rand_int_unitary(rng, 2 ** k), tuple(int(x) for x in rng.permutation(w)[:k]))
        pre = [rand_gate_on(n) for _ in range(int(rng.integers(0, 3)))]
        subset = tuple(sorted(int(x) for x in rng.permutation(n)[:int(rng.integers(1, n + 1))]))
        sub = [rand_gate_on(n) for _ in range(int(rng.integers(0, 3)))] + [('m', subset, int(rng.integers(0, 2 ** 31)))] + [rand_gate_on(n) for _ in range(int(rng.integers(0, 2)))]
        post = [rand_gate_on(n + d) for _ in range(int(rng.integers(0, 3)))]
        if it % 3 == 0:
            post.append(('m', tuple(sorted(int(x) for x in rng.permutation(n + d)[:int(rng.integers(1, n + d + 1))])), int(rng.integers(0, 2 ** 31))))
        w = n + d
        g = rand_gi(rng, 2 ** w, -2, 2)
        if np.linalg.norm(g) == 0:
            g[0] = 1
        psi = g / np.linalg.norm(g)
        c = CCase()
        c.n, c.psi, c.key, c.err = w, psi, 'MeasureGate-extended-then-shifted', None
        c.steps = pre + sub + [('s', d)] + post          # the intended flat circuit
        c.tou, c.width, c.last = None, None, None
        log = []
        try:
            def build(entries, circ):
                for s_ in entries:
                    if s_[0] == 'u':
                        circ.append_gate(numqi.sim.Gate('unitary', s_[1]), s_[2])
                    else:
                        spy_measure(circ.measure(s_[1], seed=s_[2]), log)
            circ = numqi.sim.Circuit(); build(pre, circ)
            block = numqi.sim.Circuit(); build(sub, block)
            circ.extend_circuit(block)
            circ.shift_qubit_index_(d)
            build(post, circ)
            c.tou = guarded(lambda: 'returned-a-matrix' if isinstance(circ.to_unitary(), np.ndarray) else 'returned')
            c.width = guarded(lambda: str(int(circ.num_qubit)))
            c.final = circ.apply_state(psi)
            c.records = [(r[0], r[1], r[2]) for r in log]
        except Exception as e:
            c.err = type(e).__name__
            c.final, c.records = None, []
        k = [0]
        def text(entries):
            out = []
            for s_ in entries:
                if s_[0] == 'u':
                    out.append(f'u:{idx_str(s_[2])}:{enc_q(s_[1])}')
                elif s_[0] == 's':
                    out.append(f's:{s_[1]}')
                else:
                    bits = ''.join(str(int(b)) for b in c.records[k[0]][0]) if k[0] < len(c.records) else '0' * len(s_[1])
                    out.append(f'm:{idx_str(s_[1])}:{bits}'); k[0] += 1
            return out
        c.prog = '|'.join(text(pre) + ['e:' + '!'.join(text(sub))] + [f's:{d}'] + text(post))
        c.op = f'C11 circ Q {w} {c.prog} {enc_q(psi)}'
        c.ntkey = ('extended-then-shifted', n, d, it)
        cases.append(c)
    # index handling of MeasureGate.__init__ through Circuit.measure (circuit.py:30-32)
    psi3 = np.zeros(8, dtype=np.complex128); psi3[5] = 1
    for idx, form in [((1, 0), 'tuple'), ((2, 1), 'tuple'), ((1, 1), 'tuple'), ((0, 0, 2), 'tuple'), ((2,), 'int'), ((0,), 'int'), ((3,), 'tuple'), ((0, 2), 'list')]:
        c = CCase()
        c.n, c.psi, c.key, c.err = 3, psi3, 'MeasureGate-index-handling', None
        c.expect_error = (form == 'tuple' and tuple(idx) != tuple(sorted(set(idx)))) or max(idx) >= 3
        c.steps = [('m', idx, 7, form)]
        c.tou, c.width, c.last = None, None, None
        try:
            circ = numqi.sim.Circuit()
            gt = circ.measure(idx[0] if form == 'int' else (list(idx) if form == 'list' else idx), seed=7)
            c.tou = guarded(lambda: 'returned-a-matrix' if isinstance(circ.to_unitary(), np.ndarray) else 'returned')
            c.width = guarded(lambda: str(int(circ.num_qubit)))
            c.final = circ.apply_state(psi3)
            c.records = [(list(gt.bitstr), np.array(gt.probability), tuple(gt.index))]
        except Exception as e:
            c.err = type(e).__name__
            c.final, c.records = None, []
        bits = ''.join(str(int(b)) for b in c.records[0][0]) if c.records else '0' * len(idx)
        c.prog = f'm:{idx_str(idx)}:{bits}'
        c.op = f'C11 circ Q 3 {c.prog} {enc_q(psi3)}'
        c.ntkey = ('index-handling', idx, form)
        cases.append(c)
    return cases


def check_circuit_line(c, line):
    if c.err is not None:
        return line == 'error', 'implementation raised ' + c.err
    parts = line.split(' M ')
    final = dec_q(parts[0])
    recs = [dec_q(p).real for p in parts[1:]]
    if len(recs) != len(c.records):
        return False, 'number of measure records'
    for (bitstr, prob, index), r in zip(c.records, recs):
        tot = r.sum()
        if tot <= 0 or prob.shape != r.shape or not np.all(np.abs(prob - r / tot) <= 1e-10):
            return False, 'recorded probabilities are not those of the state at that point'
    nf = np.linalg.norm(final)
    if nf == 0 or not close(c.final, final / nf, 1e-10):
        return False, 'final state'
    return True, ''


def oracle_circuit(c):
    """independent replay with kron-embedded gates: expected (probabilities, state) at every measure gate, and the final state"""
    n = c.n
    # resolve shifts: every entry appended before a shift moves by delta
    ent = []
    for s in c.steps:
        if s[0] == 's':
            ent = [((e[0], e[1], tuple(q + s[1] for q in e[2])) if e[0] == 'u' else
                    (e[0], e[1], tuple(q + s[1] for q in e[2]), tuple(q + s[1] for q in e[3])) if e[0] == 'c' else
                    (e[0], tuple(q + s[1] for q in e[1]), e[2])) for e in ent]
        else:
            ent.append(s)
    psi = c.psi.copy()
    recs = []
    k = 0
    for e in ent:
        if e[0] == 'u':
            psi = oracle_embed(e[1], e[2], n) @ psi
        elif e[0] == 'c':
            psi = oracle_ctrl(e[1], e[2], e[3], n) @ psi
        else:
            p = born(psi, e[1], n)
            bitstr = c.records[k][0]; k += 1
            mask = projector_mask(e[1], bitstr, n)
            recs.append((p, e[1]))
            psi = np.where(mask, psi, 0)
            nrm = np.linalg.norm(psi)
            if nrm == 0:
                return recs, None
            psi = psi / nrm
    return recs, psi


_CACHE = {}


def all_cases(ctx):
    if 'm' not in _CACHE:
        rng = np.random.default_rng(ctx.np_seed)
        _CACHE['m'] = measure_cases(ctx, rng)
        _CACHE['c'] = circuit_cases(ctx, rng) + extend_measure_cases(ctx, rng)
    return _CACHE['m'], _CACHE['c']


def malformed(ctx):
    import numqi
    st = numqi.sim.state
    ops, impl = [], []
    psi = np.zeros(8, dtype=np.complex128); psi[3] = 1
    for idx in [(1, 0), (2, 1), (0, 0), (1, 1, 2), (3,), (0, 3)]:
        ops.append(f'C11 measure Q 3 {idx_str(idx)} 0 {enc_q(psi)}')
        impl.append(guarded(lambda: st.measure_quantum_vector(psi, idx, seed=0) and 'accepted'))
    return ops, impl


def correspondence(ctx):
    mc, cc = all_cases(ctx)
    ops = [c.op for c in mc] + [c.op for c in cc]
    gops, gimpl, xops, ximpl = grouping_cases(ctx)
    mops, mimpl = malformed(ctx)
    model = common.run_model(ops + gops + mops, pid='C11')
    for c, line in zip(mc, model[:len(mc)]):
        ctx.count('measure_quantum_vector:' + c.family)
        ok, why = check_measure_line(c, line)
        if ok and not isinstance(c.res, str) and c.twin != c.ind1:
            # informational only: how the implementation draws from its generator is not part of the property
            ctx.count('twin-generator-draw-differs')
        if ok:
            nontrivial = len(c.subset) < c.n or (not isinstance(c.res, str) and np.count_nonzero(c.res[1] > 0) >= 2)
            ctx.agree(c.op, c.ntkey if nontrivial else None)
        else:
            ctx.disagree(c.op[:3000], (why + ': ' + line)[:1500], repr(c.res)[:1500])
    for c, line in zip(cc, model[len(mc):len(mc) + len(cc)]):
        ctx.count('MeasureGate-in-circuit')
        ok, why = check_circuit_line(c, line)
        if ok:
            ctx.agree(c.op, c.ntkey)
        else:
            ctx.disagree(c.op[:3000], (why + ': ' + line)[:1500], repr((c.final, c.records))[:1500])
    # a circuit holding a MeasureGate: to_unitary refuses, num_qubit counts the measured qubits
    wops, wimpl = [], []
    for c in cc:
        if c.err is None and c.prog:
            wops.append(f'C11 unitary Q {c.prog}'); wimpl.append(c.tou)
            wops.append(f'C11 width Q {c.prog}'); wimpl.append(c.width)
    common.compare(ctx, wops, wimpl, common.run_model(wops, pid='C11') if wops else [], key=lambda op: 'MeasureGate:' + op.split(' ')[1])
    off = len(mc) + len(cc)
    # the position -> outcome map of the grouping, derived through the public routine: hard tie
    common.compare(ctx, gops, gimpl, model[off:off + len(gops)])
    # optional extra: the private helper itself, compared only when it is still callable with the known signature / arity
    xmodel = common.run_model(xops, pid='C11') if xops else []
    for op, a, b in zip(xops, ximpl, xmodel):
        if a.startswith('unavailable:'):
            ctx.count('private-helper-not-comparable')
            if not any('_measure_quantum_vector_hf0' in x for x in ctx.notes):
                ctx.note('_measure_quantum_vector_hf0 is no longer callable with the known signature / return arity: the optional helper comparison is skipped (its effect is tied through measure_quantum_vector)')
        elif a == b:
            ctx.count('grouping'); ctx.agree(op, op)
        else:
            ctx.count('private-helper-differs')
            if not any('differs from its literal model' in x for x in ctx.notes):
                ctx.note(f'_measure_quantum_vector_hf0 differs from its literal model (e.g. {op}: impl {a[:60]} / model {b[:60]}); informational, the public routine is tied on every subset')
    common.compare(ctx, mops, mimpl, model[off + len(gops):], key=lambda op: 'malformed')
    for c in mc[:2]:
        ctx.sample({'op': c.op[:160], 'bitstr': None if isinstance(c.res, str) else [int(b) for b in c.res[0]]})
    ctx.assumptions += ['numpy Generator.choice(len(prob), p=prob) returns an index of non-zero probability (its draw is an input of the model; probed)',
                        'binary64 sqrt and division are correctly rounded (the normalisation 1/sqrt(prob) is a hypothesis c^2*prob=1 of the theorems)']
    ctx.extra['tolerance'] = f'{TOL} absolute on probabilities and on q2*sqrt(prob) (binary64 rounding of at most 2^n additions / one sqrt / one division is below 1e-14); 1e-10 for states after a circuit'


def probe(ctx):
    """direct evaluation of the property on the real code: Born rule, valid outcome, normalised projection, repeatability"""
    import numqi
    st = numqi.sim.state
    mc, cc = all_cases(ctx)
    for c in mc:
        if getattr(c, 'alias', None):
            ctx.fail('aliasing:measure_quantum_vector', c.alias, replay_of(c))
        if isinstance(c.res, str):
            ctx.fail('measure_quantum_vector:raises', f'measure_quantum_vector raised on qubits {list(c.subset)} of {c.n}', replay_of(c))
            continue
        bitstr, prob, q2 = c.res
        want = born(c.psi, c.subset, c.n)
        t10 = max(1e-10, c.tol)
        if prob.shape != want.shape or not np.all(np.abs(prob - want) <= c.tol) or np.any(prob < 0) or abs(prob.sum() - 1) > t10:
            ctx.fail('measure_quantum_vector:prob', 'probabilities are not the Born marginals', replay_of(c, observed=prob.tolist(), expected=want.tolist())); continue
        if len(bitstr) != len(c.subset) or want[c.ind1] <= 0:
            ctx.fail('measure_quantum_vector:outcome', 'returned outcome has zero probability / wrong length', replay_of(c, bitstr=[int(b) for b in bitstr])); continue
        mask = projector_mask(c.subset, bitstr, c.n)
        proj = np.where(mask, c.psi, 0)
        nrm = np.linalg.norm(proj)
        if abs(np.linalg.norm(q2) - 1) > t10 or nrm == 0 or not close(q2, proj / nrm, t10):
            ctx.fail('measure_quantum_vector:post', 'post-measurement state is not the normalised projection onto the returned outcome',
                     replay_of(c, bitstr=[int(b) for b in bitstr], observed=repr(q2.tolist()))); continue
        # repeatability
        again = guarded(lambda: st.measure_quantum_vector(q2, c.subset, seed=c.seed + 1))
        if isinstance(again, str):
            ctx.fail('measure_quantum_vector:repeat', 'second measurement raised', replay_of(c)); continue
        b2, p2, q3 = again
        ind = np.zeros_like(p2); ind[c.ind1] = 1
        if list(b2) != list(bitstr) or not np.all(np.abs(p2 - ind) <= t10) or not close(q3, q2, t10):
            ctx.fail('measure_quantum_vector:repeat', 'measuring the same qubits again does not reproduce the outcome with certainty',
                     replay_of(c, first=[int(b) for b in bitstr], second=[int(b) for b in b2], prob_second=p2.tolist())); continue
        ctx.probe_ok(('probe',) + c.ntkey)
    for c in cc:
        rp = dict(fn='Circuit.apply_state with MeasureGate', n=c.n, steps=repr([(s[0],) + tuple((a.tolist() if isinstance(a, np.ndarray) else a) for a in s[1:]) for s in c.steps]), psi=repr(c.psi.tolist()))
        if getattr(c, 'expect_error', False):
            if c.err is None:
                ctx.fail('MeasureGate:index-accepted', 'a descending / duplicate / out-of-range measure index was accepted', rp)
            else:
                ctx.probe_ok(('probe',) + c.ntkey)
            continue
        if c.err is not None:
            ctx.fail('MeasureGate:raises', 'circuit with measure gates raised ' + c.err, rp); continue
        recs, final = oracle_circuit(c)
        bad = False
        for (bitstr, prob, index), (p, subset) in zip(c.records, recs):
            if tuple(index) != tuple(subset) or prob.shape != p.shape or not np.all(np.abs(prob - p) <= 1e-10):
                ctx.fail('MeasureGate:record', 'MeasureGate.probability / index do not refer to the state at that point of the circuit',
                         dict(rp, observed=prob.tolist(), expected=p.tolist(), index=list(index))); bad = True; break
        if bad:
            continue
        if final is None or not close(c.final, final, 1e-10):
            ctx.fail('MeasureGate:state', 'state after the circuit is not the projected state propagated through the remaining gates', rp); continue
        ctx.probe_ok(('probe',) + c.ntkey)
        # model-independent oracles of the two circuit-level queries: a circuit holding a MeasureGate has no unitary (circuit.py:445),
        # and num_qubit is 1 + the largest index over all entries, the measured qubits included (circuit.py:454-466)
        if c.tou is not None:
            if not c.tou.startswith('error'):
                ctx.fail('MeasureGate:to_unitary-returns', 'Circuit.to_unitary returned a value for a circuit holding a MeasureGate (it must raise)', dict(rp, query='to_unitary'))
            else:
                ctx.probe_ok(('probe-unitary',) + c.ntkey)
        if c.width is not None:
            want = str(max([q for e in _resolved_indices(c.steps) for q in e] + [0]) + 1)
            if c.width != want:
                ctx.fail('MeasureGate:num_qubit', f'Circuit.num_qubit is {c.width}, the entries (measured qubits included) reach {want} qubits',
                         dict(rp, query='num_qubit', observed=c.width, expected=want))
            else:
                ctx.probe_ok(('probe-width',) + c.ntkey)
    probe_choice_contract(ctx)
    from .c03 import buffer_reuse_probe
    buffer_reuse_probe(ctx, reuse_routines(), 'C11')



# ---------------------------------------------------------------------------
# input class "buffer reuse across calls" (helpers shared with harness/c03.py): measure_quantum_vector and the records of MeasureGate
# ---------------------------------------------------------------------------
def reuse_routines():
    import numqi
    from .c03 import _np, _leaves
    st = numqi.sim.state
    rng = np.random.default_rng(20260930)
    def cst(n):
        v = rng.normal(size=2 ** n) + 1j * rng.normal(size=2 ** n)
        return v / np.linalg.norm(v)
    def measured_ok(psi, subset, n, bitstr, prob, q2):
        want = born(psi, subset, n)
        if np.asarray(prob).shape != want.shape or not np.all(np.abs(np.asarray(prob) - want) <= 1e-10):
            return False
        if len(bitstr) != len(subset) or any(int(b) not in (0, 1) for b in bitstr):
            return False
        proj = np.where(projector_mask(subset, bitstr, n), psi, 0)
        nrm = np.linalg.norm(proj)
        return nrm > 0 and close(q2, proj / nrm, 1e-10)
    out = []
    for n, subset in [(1, (0,)), (2, (1,)), (3, (0, 2))]:
        out.append((f'measure_quantum_vector[n={n},index={subset}]', 'numpy', [((cst(n), 11), (cst(n), 12))],
                    (lambda psi, seed, subset=subset: st.measure_quantum_vector(psi, subset, seed=seed)),
                    (lambda args, r, subset=subset, n=n: measured_ok(args[0], subset, n, *r))))
    # the records of a MeasureGate: held by the caller across the next application of the same circuit / of another circuit of the same size
    for n, subset in [(1, (0,)), (2, (0,)), (3, (1, 2))]:
        circs, gates = [], []
        for k in range(2):
            c = numqi.sim.Circuit(); gates.append(c.measure(subset, seed=21 + k)); circs.append(c)
        def f(i, psi, circs=circs, gates=gates):
            final = circs[i].apply_state(psi)
            return (gates[i].bitstr, gates[i].probability, final)
        prop = (lambda args, r, subset=subset, n=n: measured_ok(args[1], subset, n, *r))
        out.append((f'MeasureGate.record[n={n},index={subset}; one gate, two states]', 'numpy', [((0, cst(n)), (0, cst(n)))], f, prop))
        out.append((f'MeasureGate.record[n={n},index={subset}; two gates interleaved]', 'numpy', [((0, cst(n)), (1, cst(n)))], f, prop))
    return out


def probe_choice_contract(ctx):
    """the contract the theorem `outcome_has_nonzero_probability` rests on, probed on numpy itself: `Generator.choice(k, p=p)`
    never returns an index with p = 0"""
    rng = np.random.default_rng(ctx.np_seed + 7)
    bad = None
    trials = 300 if ctx.quick() else 3000
    for it in range(trials):
        k = int(rng.integers(2, 17))
        p = rng.random(k) * (rng.integers(0, 3, size=k) == 0)
        if p.sum() == 0:
            p[int(rng.integers(0, k))] = 1.0
        if it % 3 == 0:
            p[int(np.argmax(p))] += 1e-300       # denormal-scale perturbations keep the zeros exact
        p = p / p.sum()
        for seed in range(4):
            i = int(np.random.default_rng(1000 * it + seed).choice(k, p=p))
            if p[i] <= 0:
                bad = (p.tolist(), 1000 * it + seed, i)
    if bad is not None:
        ctx.fail('numpy-choice-contract', 'Generator.choice returned an index of probability 0', dict(fn='numpy.random.Generator.choice', p=bad[0], seed=bad[1], index=bad[2]))
    else:
        ctx.probe_ok(('choice-contract', trials))
    ctx.count('choice-contract-draws', 4 * trials)


def search(ctx, hints):
    ctx.note('search: the probe evaluates the Born rule, the projection and repeatability on every generated input, including the disagreeing ones')


# ---------------------------------------------------------------------------
# replay of a recorded failing input
# ---------------------------------------------------------------------------

def replay(ctx, payload):
    import numqi
    from .c03 import _replay_path
    st = numqi.sim.state
    r = payload.get('replay') or {}
    fn = r.get('fn')
    if fn == 'measure_quantum_vector':
        n, subset, seed = r['n'], tuple(r['index']), r['seed']
        psi = np.array(eval(r['psi'], {'__builtins__': {}}, {}), dtype=np.complex128)
        c = MCase(); c.n, c.subset, c.family, c.psi, c.seed = n, subset, r.get('family', '?'), psi, seed
        c.tol, c.alias, c.snap = (1e-5 if r.get('family') in ('complex64', 'float32') else TOL), None, None
        c.res = guarded(lambda: st.measure_quantum_vector(psi, subset, seed=np.random.default_rng(seed)))
        c.ind1 = 0 if isinstance(c.res, str) else (int(''.join(str(int(b)) for b in c.res[0]), 2) if len(c.res[0]) else 0)
        c.ntkey = ('replay',)
        _CACHE['m'], _CACHE['c'] = [c], []
    elif fn == 'buffer-reuse':
        from .c03 import replay_buffer_reuse
        return replay_buffer_reuse(r, reuse_routines(), 'C11')
    elif fn == 'Circuit.apply_state with MeasureGate':
        # circuits are regenerated from the seed of the run that recorded them
        ctx2 = common.Ctx('C11', payload.get('tier', 'quick'), payload.get('seed', 0))
        ctx.np_seed, ctx.tier = ctx2.np_seed, ctx2.tier
        _CACHE.clear()
        mc, cc = all_cases(ctx)
        _CACHE['m'] = []
    else:
        _CACHE.clear()
    probe(ctx)
    if ctx.failures:
        print(f"replay: still fails: {ctx.failures[0]['key']}: {ctx.failures[0]['what']}")
        print(f'VIOLATION property=C11 replay={_replay_path()}')
        return 1
    print(f'replay: the recorded input now satisfies the property ({ctx.probe_evals} probe evaluations)')
    return 0
