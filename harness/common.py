"""Shared machinery of the numqi verification checks.

A check for property Cxx is a module harness/cXX.py exposing

    THEOREM_FILES : list[str]   Lean modules (relative to /verif/lean) holding the property theorems
    def translate(ctx)          (optional) regenerate Lean data from /repo, before the build
    def correspondence(ctx)     run model and implementation on the same inputs (ctx.agree / ctx.disagree)
    def probe(ctx)              direct evaluation of the property on the real code (ctx.probe_ok / ctx.fail)
    def search(ctx, hints)      (optional) failing-input search used when a proof/correspondence broke

`run_check` drives these, audits the proofs, decides the verdict, writes evidence and prints the
VIOLATION / KNOWN-FINDING lines.  Exit codes: 0 held, 1 violation, 2 internal error / timeout.
"""
import os, sys, re, json, time, subprocess, hashlib, random, fcntl, traceback, contextlib

VERIF = os.path.dirname(os.path.dirname(os.path.abspath(__file__)))
LEAN = os.path.join(VERIF, 'lean')
EVID = os.path.join(VERIF, 'evidence' + os.environ.get('VERIF_EVID_SUFFIX', ''))  # .seeded when evaluating a patched scratch tree
REPLAY = os.path.join(EVID, 'replay')
REPO = os.environ.get('NUMQI_REPO', '/repo')
ALLOWED_AXIOMS = {'propext', 'Classical.choice', 'Quot.sound'}
FORBIDDEN = re.compile(r'\b(sorry|admit|native_decide|bv_decide|implemented_by|extern|unsafe|unsafeCast|lcProof|skipKernelTC)\b'
                       r'|^\s*(?:private\s+|protected\s+)?axiom\s|maxHeartbeats\s+0\b', re.M)


def strip_lean_comments(src):
    out = []
    i = 0
    depth = 0
    n = len(src)
    while i < n:
        if src.startswith('/-', i):
            depth += 1; i += 2; continue
        if depth and src.startswith('-/', i):
            depth -= 1; i += 2; continue
        if depth:
            if src[i] == '\n': out.append('\n')
            i += 1; continue
        if src.startswith('--', i):
            while i < n and src[i] != '\n': i += 1
            continue
        out.append(src[i]); i += 1
    return ''.join(out)


class Ctx:
    def __init__(self, pid, tier, seed):
        self.pid = pid
        self.tier = tier
        self.seed = seed
        self.rng = random.Random(seed * 1000003 + int(pid[1:]))
        self.t0 = time.time()
        self.agreements = 0
        self.disagreements = []      # dicts: op, model, impl
        self.failures = []           # dicts: key, what, replay
        self.probe_evals = 0
        self.samples = []
        self.nontrivial = set()
        self.hist = {}
        self.notes = []
        self.proof = dict(obligations=0, discharged=0, theorems={}, build_ok=None, build_log='', grep_hits=[], statements=[])
        self.extra = {}
        self.assumptions = []
        self.known = load_known()
        self.np_seed = (seed * 7919 + int(pid[1:])) % (2 ** 63)   # every consumer (numpy, torch, random) accepts this range

    # -- bookkeeping -------------------------------------------------------
    def count(self, tag, k=1):
        self.hist[tag] = self.hist.get(tag, 0) + k

    def sample(self, s, limit=8):
        if len(self.samples) < limit:
            self.samples.append(s)

    def agree(self, op, nontrivial_key=None):
        self.agreements += 1
        if nontrivial_key is not None:
            self.nontrivial.add(nontrivial_key)

    def disagree(self, op, model, impl):
        self.disagreements.append(dict(op=op, model=model, impl=impl))

    def probe_ok(self, key=None):
        self.probe_evals += 1
        if key is not None:
            self.nontrivial.add(('probe', key))

    def fail(self, key, what, replay):
        """a concrete input on which the real code violates the property"""
        self.probe_evals += 1
        self.failures.append(dict(key=key, what=what, replay=replay))

    def note(self, s):
        self.notes.append(s)

    def quick(self):
        return self.tier == 'quick'

    def elapsed(self):
        return time.time() - self.t0


def load_known():
    p = os.path.join(VERIF, 'known_findings.json')
    try:
        return [e for e in json.load(open(p))['entries'] if e.get('status') == 'finding']
    except Exception:
        return []


# ---------------------------------------------------------------------------
# Lean side
# ---------------------------------------------------------------------------
LOCK_WAIT = [0.0]   # seconds spent waiting for other builds in the same project (not part of the check's own cost)


_LOCK_DEPTH = [0]


@contextlib.contextmanager
def build_lock():
    """exclusive lock on the Lean project (re-entrant within this process). run_check holds it from the translators to the
    end of the audit, so that the files under NumqiModel/Generated that a check builds are the ones its own translator wrote
    (a run against a patched scratch tree and a run against /repo must not see each other's generated files)."""
    if _LOCK_DEPTH[0] > 0:
        _LOCK_DEPTH[0] += 1
        try:
            yield
        finally:
            _LOCK_DEPTH[0] -= 1
        return
    os.makedirs(os.path.join(LEAN, '.lake'), exist_ok=True)
    f = open(os.path.join(LEAN, '.lake', 'verif-build.lock'), 'a+')
    t = time.time()
    told = t
    while True:
        try:
            fcntl.flock(f, fcntl.LOCK_EX | fcntl.LOCK_NB)
            break
        except OSError:
            time.sleep(0.5)
            if time.time() - told > 120:
                told = time.time()
                try:
                    f.seek(0); holder = f.read().strip()
                except OSError:
                    holder = '?'
                print(f'[lock] waiting {int(told - t)} s for the Lean project lock (held by pid {holder or "?"})', file=sys.stderr)
    LOCK_WAIT[0] += time.time() - t
    try:
        f.seek(0); f.truncate(); f.write(str(os.getpid())); f.flush()
    except OSError:
        pass
    _LOCK_DEPTH[0] = 1
    try:
        yield
    finally:
        _LOCK_DEPTH[0] = 0
        fcntl.flock(f, fcntl.LOCK_UN); f.close()


def lake_build(targets, timeout=3000):
    with build_lock():
        p = subprocess.run(['lake', 'build'] + list(targets), cwd=LEAN, capture_output=True, text=True, timeout=timeout)
    log = (p.stdout + p.stderr)
    return p.returncode == 0, log


def module_of(path):
    return path[:-5].replace('/', '.') if path.endswith('.lean') else path


def theorem_names(path):
    """names of `theorem`s declared in a Lean file, with their namespaces resolved"""
    src = strip_lean_comments(open(os.path.join(LEAN, path)).read())
    names = []
    ns = []
    for line in src.split('\n'):
        m = re.match(r'\s*namespace\s+(\S+)', line)
        if m: ns.append(m.group(1)); continue
        m = re.match(r'\s*end\s+(\S+)', line)
        if m and ns and ns[-1] == m.group(1): ns.pop(); continue
        m = re.match(r'\s*(?:@\[[^\]]*\]\s*)?(?:protected\s+)?theorem\s+([^\s:({\[]+)', line)
        if m:
            names.append('.'.join(ns + [m.group(1)]))
    return names


def audit(ctx, theorem_files, extra_grep_files=()):
    """build the theorem modules, grep for forbidden constructs, `#print axioms` every theorem"""
    mods = [module_of(f) for f in theorem_files]
    sweep_stale_private_drivers()
    ok, log = lake_build(mods + ['driver_' + ctx.pid.lower()])
    ctx.proof['build_ok'] = ok
    # keep a run-private copy of the driver built from *this* run's generated files (another run may rebuild it after the lock is released)
    try:
        src = driver_path(ctx.pid)
        if os.path.exists(src):
            os.makedirs(os.path.join(LEAN, '.lake', 'run'), exist_ok=True)
            dst = os.path.join(LEAN, '.lake', 'run', f'driver_{ctx.pid.lower()}_{os.getpid()}')
            import shutil
            shutil.copy2(src, dst)
            PRIVATE_DRIVER[ctx.pid.upper()] = dst
            import atexit
            atexit.register(cleanup_private_drivers)
    except OSError:
        pass
    ctx.proof['build_log'] = log[-4000:] if not ok else ''
    # grep (comments stripped) over the theorem files and everything they import from this project
    files = set(theorem_files) | set(extra_grep_files)
    # the driver of this property and the Driver modules it imports: an `implemented_by`/`extern` there would make the executed code differ from the proved constant
    for f in (f'Driver/{ctx.pid}.lean', f'Driver/{ctx.pid}Main.lean', 'Driver/Loop.lean'):
        if os.path.exists(os.path.join(LEAN, f)):
            files.add(f)
    todo = list(files)
    while todo:
        f = todo.pop()
        try:
            src = open(os.path.join(LEAN, f)).read()
        except FileNotFoundError:
            continue
        for m in re.finditer(r'^\s*import\s+((?:NumqiModel|NumqiProofs|NumqiProps|Driver)\.\S+)', src, re.M):
            g = m.group(1).replace('.', '/') + '.lean'
            if g not in files:
                files.add(g); todo.append(g)
    for f in sorted(files):
        try:
            src = strip_lean_comments(open(os.path.join(LEAN, f)).read())
        except FileNotFoundError:
            continue
        for m in FORBIDDEN.finditer(src):
            ctx.proof['grep_hits'].append(f'{f}: {m.group(0).strip()}')
    names = []
    for f in theorem_files:
        names += [(f, n) for n in theorem_names(f)]
    # full-strength targets kept as `def ….Statement : Prop` (not proved): listed by name in the evidence
    stm = []
    for f in sorted(files):
        try:
            src = strip_lean_comments(open(os.path.join(LEAN, f)).read())
        except FileNotFoundError:
            continue
        for m in re.finditer(r'^\s*(?:noncomputable\s+)?def\s+([A-Za-z0-9_.\']*Statement)\b', src, re.M):
            stm.append(f'{f}: {m.group(1)}')
    # a target is no longer open once a hypothesis-free `theorem name : X.Statement :=` discharges it in the same audited files
    # (e.g. C17 dicke_reduction_eq, C15 su2_roundtrip_statement); the theorem itself is audited like every other theorem
    proved = set()
    for f in sorted(files):
        try:
            src = strip_lean_comments(open(os.path.join(LEAN, f)).read())
        except FileNotFoundError:
            continue
        for m in re.finditer(r"^\s*theorem\s+[A-Za-z0-9_.']+\s*:\s*([A-Za-z0-9_.']*Statement)\s*:=", src, re.M):
            proved.add(m.group(1))
    ctx.proof['proved_statements'] = sorted(x for x in stm if x.split(': ', 1)[1] in proved)
    stm = [x for x in stm if x.split(': ', 1)[1] not in proved]
    ctx.proof['statements'] = stm
    ctx.proof['obligations'] = len({n for _, n in names})
    if not ok:
        # find which modules still build, so that the surviving theorems are still counted
        good = []
        for f in theorem_files:
            ok1, _ = lake_build([module_of(f)])
            if ok1: good.append(f)
        names_ok = [(f, n) for (f, n) in names if f in good]
    else:
        names_ok = names
    # `#print axioms` (and leanchecker) depend only on the Lean sources: their output is cached under a digest of every project
    # source file (generated data included), so an unchanged project is not re-elaborated on every run. A fresh checkout has no cache.
    src_digest = project_digest(theorem_files) if ok else None
    cache_path = os.path.join(LEAN, '.lake', 'audit', f'Audit_{ctx.pid}.cache.json')
    cached = None
    if src_digest:
        try:
            c = json.load(open(cache_path))
            if c.get('digest') == src_digest and set(c.get('theorems', {})) == {n for _, n in names}:
                cached = c
        except (OSError, ValueError):
            cached = None
    if cached is not None:
        ctx.proof['theorems'].update(cached['theorems'])
        ctx.extra['axiom_audit'] = 'cached (project sources unchanged since the last full audit)'
        names_ok = []
    if names_ok:
        os.makedirs(os.path.join(LEAN, '.lake', 'audit'), exist_ok=True)
        ap = os.path.join(LEAN, '.lake', 'audit', f'Audit_{ctx.pid}.lean')
        imports = sorted({module_of(f) for f, _ in names_ok})
        with open(ap + '.tmp', 'w') as fh:
            for m in imports: fh.write(f'import {m}\n')
            for _, n in names_ok: fh.write(f'#print axioms {n}\n')
        os.replace(ap + '.tmp', ap)
        p = subprocess.run(['lake', 'env', 'lean', ap], cwd=LEAN, capture_output=True, text=True, timeout=1800)
        out = p.stdout + p.stderr
        out1 = out.replace('\n  ', ' ').replace('\n ', ' ')
        for _, n in names_ok:
            m = re.search(r"'" + re.escape(n) + r"' depends on axioms: \[([^\]]*)\]", out1)
            if m:
                ax = [a.strip() for a in m.group(1).split(',') if a.strip()]
            elif re.search(r"'" + re.escape(n) + r"' does not depend on any axioms", out1):
                ax = []
            else:
                ax = None
            ctx.proof['theorems'][n] = ax
    for f, n in names:
        ctx.proof['theorems'].setdefault(n, None)
    if src_digest and cached is None and all(ctx.proof['theorems'].get(n) is not None for _, n in names):
        try:
            atomic_write_json(cache_path, dict(digest=src_digest, theorems={n: ctx.proof['theorems'][n] for _, n in names}, leanchecker=None))
        except OSError:
            pass
    if ctx.tier == 'thorough' and ok and cached is not None and cached.get('leanchecker') == 0:
        ctx.extra['leanchecker'] = dict(modules=mods, exit=0, tail='cached (project sources unchanged since the last leanchecker run)')
    elif ctx.tier == 'thorough' and ok:
        # independent re-check of the compiled modules with the toolchain's leanchecker
        try:
            p = subprocess.run(['lake', 'env', 'leanchecker'] + mods, cwd=LEAN, capture_output=True, text=True, timeout=1800)
            ctx.extra['leanchecker'] = dict(modules=mods, exit=p.returncode, tail=(p.stdout + p.stderr)[-500:])
            if p.returncode != 0:
                ok = False
                ctx.proof['build_log'] = 'leanchecker rejected: ' + (p.stdout + p.stderr)[-2000:]
            elif src_digest:
                try:
                    c = json.load(open(cache_path))
                    if c.get('digest') == src_digest:
                        c['leanchecker'] = 0
                        atomic_write_json(cache_path, c)
                except (OSError, ValueError):
                    pass
        except subprocess.TimeoutExpired:
            ctx.extra['leanchecker'] = dict(modules=mods, exit='timeout')
    disc = [n for n, ax in ctx.proof['theorems'].items() if ax is not None and set(ax) <= ALLOWED_AXIOMS]
    ctx.proof['discharged'] = len(disc) if not ctx.proof['grep_hits'] else 0
    return ok and not ctx.proof['grep_hits'] and len(disc) == len({n for _, n in names})


_driver = None
PRIVATE_DRIVER = {}

def driver_path(pid):
    return os.path.join(LEAN, '.lake', 'build', 'bin', 'driver_' + pid.lower())


def run_model(lines, timeout=3000, pid=None):
    """pipe operation lines (`<pid> <op> <args…>`) through the compiled Lean driver of that property, return the output lines"""
    if pid is None:
        pid = lines[0].split(' ')[0] if lines else 'C08'
    exe = PRIVATE_DRIVER.get(pid.upper(), driver_path(pid))
    if not lines:
        return []
    if not os.path.exists(exe):
        ok, log = lake_build(['driver_' + pid.lower()])
        if not ok:
            raise RuntimeError('driver build failed:\n' + log[-3000:])
    data = '\n'.join(lines) + '\n'
    p = subprocess.run([exe], input=data, capture_output=True, text=True, timeout=timeout)
    if p.returncode != 0:
        raise RuntimeError(f'driver exited {p.returncode}: {p.stderr[-2000:]}')
    out = p.stdout.split('\n')
    if out and out[-1] == '': out.pop()
    if len(out) != len(lines):
        raise RuntimeError(f'driver produced {len(out)} lines for {len(lines)} ops')
    return out


def compare(ctx, ops, impl_out, model_out, key=lambda op: op.split(' ')[1] if ' ' in op else op, nontrivial=lambda op, out: True):
    """diff the two canonical streams"""
    for op, a, b in zip(ops, impl_out, model_out):
        ctx.count(key(op))
        if a == b:
            ctx.agree(op, op if nontrivial(op, a) else None)
        else:
            ctx.disagree(op, b, a)
    for op, a in list(zip(ops, impl_out))[:3]:
        ctx.sample({'op': op, 'out': a if len(a) < 200 else a[:200] + '…'})


# ---------------------------------------------------------------------------
# verdict + evidence
# ---------------------------------------------------------------------------
def atomic_write_json(path, obj):
    tmp = f'{path}.{os.getpid()}.tmp'
    with open(tmp, 'w') as fh:
        json.dump(obj, fh, indent=1, default=str)
    os.replace(tmp, path)


def write_replay(pid, payload):
    os.makedirs(REPLAY, exist_ok=True)
    h = hashlib.sha1(json.dumps(payload, sort_keys=True, default=str).encode()).hexdigest()[:12]
    path = os.path.join(REPLAY, f'{pid}-{h}.json')
    atomic_write_json(path, payload)
    return path


def is_known(ctx, key):
    for e in ctx.known:
        if e['property'] == ctx.pid and (e['key'] == key or key.startswith(e['key'] + ':')):
            return e
    return None


def _dedupe_suffix(names):
    names = sorted(set(names))
    return [n for n in names if not any(m != n and m.endswith('.' + n) for m in names)]


RESERVED_COVERAGE_KEYS = {'obligations', 'discharged', 'checker_cmd', 'trusted_base', 'theorems', 'traces_validated_against_impl', 'disagreements',
                          'evaluations', 'distinct_nontrivial', 'rule', 'samples', 'histogram', 'probe', 'notes', 'build_lock_wait_s'}


def finish(ctx, proof_ok, level='proof', checker_cmd='', trusted=None, rule=''):
    violations = []
    printed_known = set()
    real = []
    for f in ctx.failures:
        e = is_known(ctx, f['key'])
        if e:
            if e['key'] not in printed_known:
                print(f"KNOWN-FINDING: property={ctx.pid} {e['what']}")
                printed_known.add(e['key'])
        else:
            real.append(f)
    real_payloads = []
    if real:
        # one replay file per distinct key
        seen = set()
        for f in real:
            if f['key'] in seen: continue
            seen.add(f['key'])
            real_payloads.append(dict(property=ctx.pid, kind='failing-input', key=f['key'], what=f['what'], replay=f['replay'], seed=ctx.seed, tier=ctx.tier))
    broken = []
    if not proof_ok:
        bad = [n for n, ax in ctx.proof['theorems'].items() if ax is None or not set(ax) <= ALLOWED_AXIOMS]
        broken.append(dict(kind='proof', theorems=bad, grep=ctx.proof['grep_hits'], build_log=ctx.proof['build_log'][-3000:]))
    if ctx.disagreements:
        broken.append(dict(kind='correspondence', count=len(ctx.disagreements), first=ctx.disagreements[:5]))
    if broken and not real:
        path = write_replay(ctx.pid, dict(property=ctx.pid, kind='no-failing-input-found', broken=broken, seed=ctx.seed, tier=ctx.tier,
                                          note='a proof obligation or the model/implementation correspondence no longer checks; the failing-input search on the real code found no input violating the property'))
        violations.append((path, ' no-failing-input-found'))
    for pl in real_payloads:
        if broken:
            pl['also_broken'] = broken      # the proof obligations / correspondence that no longer check
        violations.append((write_replay(ctx.pid, pl), ''))
    ev = dict(
        property_id=ctx.pid, tier=ctx.tier, seed=ctx.seed, level=level,
        coverage=dict(
            # obligations = the theorems stated in the property files (each must be discharged for the proof level);
            # full-strength targets kept as `def …Statement : Prop` next to a proved `…_partial` are NOT counted here:
            # they are listed under open_statements (named gaps, see DESIGN.md / design_notes)
            obligations=len(ctx.proof['theorems']), discharged=max(ctx.proof['discharged'], 0) if ctx.proof['theorems'] else 0,
            proved_statements=[x.split(': ', 1)[1] for x in ctx.proof.get('proved_statements', [])],
            open_statements=_dedupe_suffix(list(ctx.extra.get('open_statements', []) if isinstance(ctx.extra.get('open_statements', []), list) else []) + [x.split(': ', 1)[1] for x in ctx.proof.get('statements', [])]),
            checker_cmd=checker_cmd or f'cd lean && lake build {" ".join(module_of(f) for f in ctx.extra.get("theorem_files", []))} && lake env lean .lake/audit/Audit_{ctx.pid}.lean',
            trusted_base=trusted or [],
            theorems=ctx.proof['theorems'],
            traces_validated_against_impl=ctx.agreements,
            disagreements=len(ctx.disagreements),
            evaluations=ctx.agreements + len(ctx.disagreements) + ctx.probe_evals,
            distinct_nontrivial=len(ctx.nontrivial),
            rule=rule,
            samples=ctx.samples or ['(none)'],
            histogram=ctx.hist,
            probe=dict(evaluations=ctx.probe_evals, failures=len(ctx.failures)),
            notes=ctx.notes,
            build_lock_wait_s=round(LOCK_WAIT[0], 2),
            **{(k if k not in RESERVED_COVERAGE_KEYS else 'extra_' + k): v for k, v in ctx.extra.items() if k not in ('theorem_files', 'open_statements')},
        ),
        assumptions=ctx.assumptions,
        wall_s=round(ctx.elapsed() - LOCK_WAIT[0], 2),
        violations=len(violations),
    )
    if ev['coverage']['discharged'] < 1:
        # keep the file schema-valid even when nothing was discharged: fall back on the generic keys
        ev['coverage'].pop('obligations'); ev['coverage'].pop('discharged')
        ev['coverage']['obligations_total'] = len(ctx.proof['theorems'])
        ev['coverage']['discharged_total'] = 0
        ev['coverage']['proof_audit_failed'] = True   # measured values are written as they are; this run is not proof-level evidence
    for path, suffix in violations:
        print(f'VIOLATION property={ctx.pid} replay={os.path.relpath(path, VERIF)}{suffix}')
    print(f'[{ctx.pid}] tier={ctx.tier} seed={ctx.seed} theorems {ctx.proof["discharged"]}/{ctx.proof["obligations"]} '
          f'correspondence {ctx.agreements} agree / {len(ctx.disagreements)} differ, probe {ctx.probe_evals} evals / {len(ctx.failures)} failures, '
          f'{ctx.elapsed():.1f}s')
    sys.stdout.flush()
    rc = 1 if violations else 0
    # the verdict is printed before the evidence is written: an unwritable evidence file must not swallow a violation
    try:
        os.makedirs(EVID, exist_ok=True)
        atomic_write_json(os.path.join(EVID, f'{ctx.pid}.json'), ev)
    except OSError as e:
        print(f'[{ctx.pid}] cannot write evidence: {e}', file=sys.stderr)
        rc = rc or 2
    cleanup_private_drivers()
    return rc


def cleanup_private_drivers():
    for pth in list(PRIVATE_DRIVER.values()):
        try:
            os.remove(pth)
        except OSError:
            pass
    PRIVATE_DRIVER.clear()


def sweep_stale_private_drivers():
    """remove run-private driver copies whose owning process is gone (killed runs, timeouts)"""
    d = os.path.join(LEAN, '.lake', 'run')
    try:
        for f in os.listdir(d):
            m = re.match(r'driver_c\d\d_(\d+)$', f)
            if m and not os.path.exists(f'/proc/{m.group(1)}'):
                try:
                    os.remove(os.path.join(d, f))
                except OSError:
                    pass
    except OSError:
        pass


def project_digest(theorem_files):
    """digest of every Lean source of the project (models, proofs, property files, drivers, generated data, lakefile) + toolchain"""
    import hashlib
    h = hashlib.sha256()
    h.update(('\n'.join(sorted(theorem_files))).encode())
    for root in ('NumqiModel', 'NumqiProofs', 'NumqiProps', 'Driver'):
        for dp, dn, fn in sorted(os.walk(os.path.join(LEAN, root))):
            dn.sort()
            for f in sorted(fn):
                if f.endswith('.lean'):
                    pth = os.path.join(dp, f)
                    h.update(os.path.relpath(pth, LEAN).encode()); h.update(open(pth, 'rb').read())
    for f in ('lakefile.toml', 'lake-manifest.json'):
        try:
            h.update(open(os.path.join(LEAN, f), 'rb').read())
        except OSError:
            pass
    try:
        h.update(subprocess.run(['lean', '--version'], capture_output=True, text=True, timeout=60).stdout.encode())
    except Exception:
        pass
    return h.hexdigest()


def generated_digest():
    """digest of lean/NumqiModel/Generated/*.lean (the translators' output)"""
    import hashlib
    h = hashlib.sha256()
    d = os.path.join(LEAN, 'NumqiModel', 'Generated')
    for f in sorted(os.listdir(d)) if os.path.isdir(d) else []:
        if f.endswith('.lean'):
            h.update(f.encode()); h.update(open(os.path.join(d, f), 'rb').read())
    return h.hexdigest()


class CheckTimeout(Exception):
    pass


def _arm_budget():
    """overall time budget of one check (VERIF_TIMEOUT seconds, default 3 h): exceeded -> message, exit 2"""
    import signal
    try:
        budget = int(os.environ.get('VERIF_TIMEOUT') or 10800)
    except ValueError:
        budget = 10800
    def on_alarm(signum, frame):
        raise CheckTimeout(f'time budget of {budget} s exceeded (VERIF_TIMEOUT)')
    try:
        signal.signal(signal.SIGALRM, on_alarm)
        signal.alarm(max(budget, 1))
    except (ValueError, OSError):
        pass


def run_check(pid, mod, tier, seed, replay=None, seed_given=True, tier_given=True):
    _arm_budget()
    try:
        payload = None
        if replay:
            payload = json.load(open(replay))
            if not isinstance(payload, dict) or payload.get('kind') not in ('failing-input', 'no-failing-input-found'):
                print(f'[{pid}] {replay} is not a replay file written by this check', file=sys.stderr)
                return 2
            if payload.get('property') not in (None, pid):
                print(f"[{pid}] {replay} belongs to property {payload.get('property')}", file=sys.stderr)
                return 2
            # replay under the recorded run's seed and tier unless the caller overrides them explicitly
            if isinstance(payload.get('seed'), int) and not seed_given:
                seed = payload['seed']
            if payload.get('tier') in ('quick', 'thorough') and not tier_given:
                tier = payload['tier']
        ctx = Ctx(pid, tier, seed)
        ctx.extra['theorem_files'] = list(mod.THEOREM_FILES)
        if replay and payload.get('kind') == 'failing-input':
            ctx.replay_path = replay
            # the driver and the generated data must be this tree's: translate + build under the lock, as a normal run does
            with build_lock():
                if hasattr(mod, 'translate'):
                    mod.translate(ctx)
                audit(ctx, mod.THEOREM_FILES, getattr(mod, 'GREP_FILES', ()))
            try:
                if hasattr(mod, 'replay'):
                    return mod.replay(ctx, payload)
                # generic replay: re-run the direct probe and report whether the recorded key fails again
                mod.probe(ctx)
                hit = [f for f in ctx.failures if f['key'] == payload.get('key')]
                if hit:
                    print(f"replay: {payload.get('key')} still fails: {hit[0]['what']}")
                    print(f'VIOLATION property={pid} replay={replay}')
                    return 1
                print(f"replay: {payload.get('key')} no longer fails ({ctx.probe_evals} probe evaluations)")
                return 0
            finally:
                cleanup_private_drivers()
        # a `no-failing-input-found` replay names the theorems / ops that no longer check: re-running the whole check under the recorded
        # seed and tier is its replay (falls through to the normal run below)
        if replay:
            ctx.replay_path = replay
        with build_lock():
            # the generated Lean data must be the same files from the translators to the end of the audit; every writer in
            # /verif takes the lock, so a change can only come from a process that bypasses it: retry once, then give up (exit 2)
            for attempt in (0, 1):
                if attempt:
                    ctx.proof.update(theorems={}, grep_hits=[])
                if hasattr(mod, 'translate'):
                    mod.translate(ctx)
                h0 = generated_digest()
                proof_ok = audit(ctx, mod.THEOREM_FILES, getattr(mod, 'GREP_FILES', ()))
                if generated_digest() == h0:
                    break
                ctx.note('generated Lean data changed between translation and audit (a writer bypassed the project lock); retried')
            else:
                print(f'[{pid}] generated Lean data was modified by another process during the audit, twice', file=sys.stderr)
                return 2
        if not proof_ok:
            ctx.note('proof obligations not all discharged: ' + json.dumps({k: v for k, v in ctx.proof['theorems'].items() if v is None or not set(v) <= ALLOWED_AXIOMS}))
        try:
            mod.correspondence(ctx)
        except RuntimeError as e:
            # the driver could not be built/run: treat as a broken correspondence
            ctx.disagree('driver', str(e)[-1500:], '')
        mod.probe(ctx)
        if (not proof_ok or ctx.disagreements) and not ctx.failures and hasattr(mod, 'search'):
            mod.search(ctx, ctx.disagreements)
        return finish(ctx, proof_ok, level=getattr(mod, 'LEVEL', 'proof'),
                      trusted=getattr(mod, 'TRUSTED', None), rule=getattr(mod, 'RULE', ''))
    except (subprocess.TimeoutExpired, CheckTimeout) as e:
        print(f'[{pid}] internal timeout: {e}', file=sys.stderr)
        cleanup_private_drivers()
        return 2
    except Exception:
        traceback.print_exc()
        return 2
