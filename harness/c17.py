"""C17 — partial traces and the Dicke-basis reduction equal the explicit contraction.

Model: lean/NumqiModel/PartialTrace.lean, Dicke.lean.  Theorems: lean/NumqiProps/C17.lean.
Correspondence: exact (Gaussian-integer operators, integer index tables, squared Dicke amplitudes and squared
table values as exact rationals).  Probe: float comparison of the real code against an independent explicit
contraction / explicit Dicke embedding (tolerance 1e-12, see design_notes/C17.md).
"""
import itertools, math, contextlib
from fractions import Fraction
import numpy as np
from . import common
from .c12 import checked, _desc, reuse_check, _snap, _same, _shares

THEOREM_FILES = ['NumqiProps/C17.lean']
GREP_FILES = ['NumqiProofs/DickeReduction.lean']
LEVEL = 'proof'
RULE = ('partial_trace: every keep-subset of every dimension list in the tier\'s range (quick: all lists of length 2..3 and a seeded sample of '
        'length 4..5, entries 2..4; thorough: all 360 lists of length 2..5), dense Gaussian-integer operators when prod(dims)<=64, sparse ones '
        'above; keep_index passed as set/list/tuple/int with duplicates and shuffled order; malformed indices hit the assert. Dicke: klist, '
        'number, index table (value^2 exact), basis (support + amplitude^2 exact) for all (n,d) in the tier\'s grid; assembly with integer '
        'tables in numpy and torch. An op is non-trivial when the keep set is a proper non-empty subset / n>=2; distinct = distinct op lines.')
TRUSTED = ['Lean 4.33 kernel', 'axioms: propext, Classical.choice, Quot.sound', 'Lean compiler for the driver executable',
           'harness/c17.py canonicalisation (complex integers printed as re,im; value^2 and amplitude^2 rationalised with denominator n^2 / 1/M after '
           'checking |x*n^2-round|<1e-9)',
           'modelled, not verified: numqi/utils.py:partial_trace, numqi/dicke.py; np.einsum is modelled as the contraction it denotes']


EMPTY_KEEP_KEY = 'partial_trace-empty-keep'
VARIANTS = {}      # op line -> the keep_index object that was actually passed (set / shuffled list / tuple / int)
PT_META = {}       # index of a `pt` op in the op list -> the argument kinds that were actually passed (for failure messages)


def guarded(f):
    try:
        return f()
    except AssertionError:
        return 'error:assert'
    except Exception as e:      # any other exception becomes a value that is compared with the model: a disagreement with its input, never exit 2
        return 'error:' + type(e).__name__


def gint_list(a):
    a = np.asarray(a).reshape(-1)
    out = []
    for v in a:
        v = complex(v)
        r, i = round(v.real), round(v.imag)
        if v.real != r or v.imag != i:
            return 'nonintegral'
        out.append(f'{int(r)},{int(i)}')
    return ';'.join(out)


def rat_str(fr):
    fr = Fraction(fr)
    return f'{fr.numerator}/{fr.denominator}'


def rationalise(x, den):
    """x (float) is claimed to be p/den for an integer p"""
    p = x * den
    r = round(p)
    if abs(p - r) > 1e-9 * max(1, abs(r)):
        raise ValueError(f'{x} is not a multiple of 1/{den}')
    return Fraction(int(r), int(den))


def rand_gint(rng, shape, lo=-9, hi=9):
    return rng.integers(lo, hi + 1, size=shape) + 1j * rng.integers(lo, hi + 1, size=shape)


# ---------------------------------------------------------------------------
# partial trace
# ---------------------------------------------------------------------------
def all_dim_lists(lens, entries=(2, 3, 4)):
    for n in lens:
        for t in itertools.product(entries, repeat=n):
            yield t


def keep_variants(rng, keep, n):
    """the same keep set as the different collection types the function accepts"""
    keep = list(keep)
    kind = rng.randrange(7)
    if kind == 4:
        return np.array(keep, dtype=np.int64)
    if kind == 5 and len(keep) == 1:
        return np.int64(keep[0])
    if kind == 6 and keep == list(range(len(keep))):
        return range(len(keep))
    if kind == 0:
        return set(keep)
    if kind == 1:
        rng.shuffle(keep); return list(keep)
    if kind == 2 and keep:
        k2 = keep + [rng.choice(keep)]; rng.shuffle(k2); return tuple(k2)
    if len(keep) == 1 and kind == 3:
        return int(keep[0])          # non-iterable branch
    return tuple(keep)


def dims_variant(rng, dims):
    """the dimension list as the argument kinds the function accepts"""
    k = rng.randrange(4)
    if k == 0:
        return list(dims)
    if k == 1:
        return np.array(dims, dtype=np.int64)
    if k == 2:
        return tuple(np.int64(x) for x in dims)
    return tuple(dims)


def pt_ops(ctx):
    import numqi, torch
    rng = ctx.rng
    nrng = np.random.default_rng(ctx.np_seed)
    ops, impl = [], []
    if ctx.quick():
        lists = list(all_dim_lists([2, 3]))
        big = list(all_dim_lists([4, 5]))
        lists += rng.sample(big, 10)
        lists += [(1, 3), (3, 1, 2), (5, 2), (2,), (1,), (6, 1, 1, 2)]
    else:
        lists = list(all_dim_lists([2, 3, 4, 5]))
        lists += [(1, 3), (3, 1, 2), (5, 2), (2,), (1,), (6, 1, 1, 2), (2, 2, 2, 2, 2, 2), (7, 5), (3, 3, 3, 3, 2, 2)]
    for dims in lists:
        n = len(dims)
        D = int(np.prod(dims))
        subsets = [c for r in range(n + 1) for c in itertools.combinations(range(n), r)]
        if ctx.quick() and len(subsets) > 12:
            subsets = rng.sample(subsets, 12)
        dense = D <= 64
        if dense:
            rho = rand_gint(nrng, (D, D))
        for keep in subsets:
            kv = keep_variants(rng, keep, n)
            kcanon = sorted(set(keep))
            ks = ';'.join(map(str, kcanon)) or '-'
            ds = ';'.join(map(str, dims))
            if dense:
                ops.append(f'C17 pt {ds} {ks} {gint_list(rho)}')
                VARIANTS[ops[-1]] = kv
                dv = dims_variant(rng, dims)
                PT_META[len(ops) - 1] = f'rho=complex128 ndarray, dim={dv!r} ({type(dv).__name__}), keep_index={kv!r} ({type(kv).__name__})'
                impl.append(guarded(lambda: gint_list(checked(ctx, 'partial_trace', numqi.utils.partial_trace, rho, dv, kv))))
                if len(kcanon) in (1, n - 1):
                    # input classes: integer / float32 real data, a transposed (non-contiguous) view of the same operator
                    rre = rho.real.copy()
                    for tag, arr in (('int64', rre.astype(np.int64)), ('float32', rre.astype(np.float32)), ('view', np.ascontiguousarray(rho.T).T),
                                     ('tensor-form', rho.reshape(*dims, *dims))):
                        # 'tensor-form': the docstring's `rho` of shape (*dim, *dim)
                        src = rho if tag in ('view', 'tensor-form') else rre
                        ops.append(f'C17 pt {ds} {ks} {gint_list(src)}'); VARIANTS[ops[-1]] = kv
                        PT_META[len(ops) - 1] = f'rho={tag} ndarray, dim={dv!r} ({type(dv).__name__}), keep_index={kv!r} ({type(kv).__name__})'
                        impl.append(guarded(lambda arr=arr: gint_list(np.asarray(checked(ctx, 'partial_trace[' + tag + ']', numqi.utils.partial_trace, arr, dv, kv)))))
                        ctx.count('pt-' + tag)
                if len(kcanon) in (1, n - 1) or not ctx.quick():
                    # torch input: `numqi.utils.partial_trace` is documented for np.ndarray only (the property's "both backends" is about
                    # partial_trace_ABk_to_AB).  If the function happens to accept a tensor, the entries must be right; a rejection
                    # (any exception) is a note, not a difference.
                    try:
                        r_t = numqi.utils.partial_trace(torch.tensor(rho), dims, kv)
                    except Exception as e_t:
                        ctx.count('pt-torch-input-rejected')
                        if not PT_META.get('torch-note'):
                            PT_META['torch-note'] = True
                            ctx.note(f'numqi.utils.partial_trace is a numpy-only function: torch input not accepted ({type(e_t).__name__}); not part of the property')
                    else:
                        ops.append(f'C17 pt {ds} {ks} {gint_list(rho)}'); VARIANTS[ops[-1]] = kv
                        PT_META[len(ops) - 1] = f'rho=torch.Tensor complex128, dim={dims!r} (tuple), keep_index={kv!r} ({type(kv).__name__})'
                        impl.append(guarded(lambda: gint_list(np.asarray(r_t))))
                        ctx.count('pt-torch-input')
            else:
                m = 40
                xs = nrng.integers(0, D, size=m); ys = nrng.integers(0, D, size=m)
                # make a good share of the entries survive the trace: copy the traced digits of x into y
                tr = [i for i in range(n) if i not in kcanon]
                X = np.array(np.unravel_index(xs, dims)); Y = np.array(np.unravel_index(ys, dims))
                for j in range(m):
                    if j % 2 == 0:
                        Y[tr, j] = X[tr, j]
                ys = np.ravel_multi_index(tuple(Y), dims)
                vals = rand_gint(nrng, (m,), 1, 9)
                rho_s = np.zeros((D, D), dtype=np.complex128)
                ent = {}
                for x, y, v in zip(xs, ys, vals):
                    ent[(int(x), int(y))] = ent.get((int(x), int(y)), 0) + complex(v)
                for (x, y), v in ent.items():
                    rho_s[x, y] = v
                es = ';'.join(f'{x}:{y}:{int(v.real)},{int(v.imag)}' for (x, y), v in ent.items())
                ops.append(f'C17 pts {ds} {ks} {es}')

                def f():
                    r = numqi.utils.partial_trace(rho_s, dims, kv)
                    if r.shape[0] != r.shape[1]:
                        return 'error:shape'
                    nz = np.argwhere(r != 0)
                    out = []
                    for a, b in sorted(map(tuple, nz)):
                        v = complex(r[a, b])
                        if v.real != round(v.real) or v.imag != round(v.imag):
                            return 'nonintegral'
                        out.append(f'{a}:{b}:{int(v.real)},{int(v.imag)}')
                    return f'{r.shape[0]} ' + ';'.join(out)
                impl.append(guarded(f))
            ctx.count('pt-len%d-keep%d' % (n, len(kcanon)))
    # malformed index collections: the assert must fire (model: error:assert)
    rho = rand_gint(nrng, (6, 6))
    for keep in ([2], [0, 5], [-1], [1, -2]):
        ops.append(f'C17 pt 2;3 {";".join(map(str, sorted(set(keep))))} {gint_list(rho)}')
        impl.append(guarded(lambda: gint_list(numqi.utils.partial_trace(rho, (2, 3), keep))))
    return ops, impl


# ---------------------------------------------------------------------------
# Dicke
# ---------------------------------------------------------------------------
def bij_line(Bij, n):
    out = []
    for ind0, ind1, val in Bij:
        ent = []
        for i, j, v in zip(ind0, ind1, val):
            if v < 0:
                return 'negative-value'
            ent.append(f'{int(i)}:{int(j)}:{rat_str(rationalise(float(v) ** 2, n * n))}')
        out.append(';'.join(ent))
    return '|'.join(out)


def basis_line(B):
    """every non-zero amplitude of every basis vector: `index:amplitude^2` with the square rationalised as 1/M entry by entry
    (no digest: support, every value and the sign are compared)"""
    out = []
    for row in B:
        ent = []
        for x in np.nonzero(row)[0]:
            v = float(row[x])
            if v < 0:
                return 'negative-amplitude'
            M = round(1 / v ** 2)
            if abs(v ** 2 * M - 1) > 1e-9:
                return 'amplitude-not-1/sqrt(int)'
            ent.append(f'{int(x)}:{rat_str(Fraction(1, M))}')
        out.append(';'.join(ent))
    return '|'.join(out)


def dicke_ops(ctx):
    import numqi, torch
    D = numqi.dicke
    nrng = np.random.default_rng(ctx.np_seed + 1)
    ops, impl = [], []
    grid = [(n, d) for n in range(1, 7) for d in range(2, 6)] if not ctx.quick() else [(n, d) for n in range(1, 6) for d in range(2, 5)]
    for n, d in grid:
        ops.append(f'C17 klist {n} {d}')
        impl.append(guarded(lambda: '|'.join(';'.join(map(str, k)) for k in D.get_dicke_klist(n, d))))
        if (n + d) % 2 == 0:
            # np.int64 sizes
            ops.append(f'C17 klist {n} {d}')
            impl.append(guarded(lambda: '|'.join(';'.join(str(int(x)) for x in k) for k in D.get_dicke_klist(np.int64(n), np.int64(d)))))
            ops.append(f'C17 number {n} {d}')
            impl.append(guarded(lambda: str(int(D.get_dicke_number(np.int64(n), np.int64(d))))))
            ops.append(f'C17 bij {n} {d}')
            impl.append(guarded(lambda: bij_line(D.get_partial_trace_ABk_to_AB_index(np.int64(n), np.int64(d)), n)))
            ctx.count('dicke-np.int64')
        ops.append(f'C17 number {n} {d}')
        impl.append(guarded(lambda: str(D.get_dicke_number(n, d))))
        ops.append(f'C17 bij {n} {d}')
        impl.append(guarded(lambda: bij_line(D.get_partial_trace_ABk_to_AB_index(n, d), n)))
        if d ** n <= (1024 if ctx.quick() else 4096) and n <= 8:
            ops.append(f'C17 basis {n} {d}')
            impl.append(guarded(lambda: basis_line(D.get_dicke_basis(n, d))))
            ctx.count('basis')
        ctx.count('dicke-grid')
    # single Dicke vectors through the public constructor `Dicke(*klist)` (same line format, one entry)
    for n, d in [(3, 2), (2, 3), (4, 3)]:
        kl = D.get_dicke_klist(n, d)
        ops.append(f'C17 basis {n} {d}')
        impl.append(guarded(lambda: basis_line(np.stack([D.Dicke(*k) for k in kl]))))
    # the qubit closed form (get_qubit_dicke_partial_trace) against the d=2 table
    for n in range(2, 9 if ctx.quick() else 14):
        def f():
            a00, a01, a11 = D.get_qubit_dicke_partial_trace(n)
            idx = np.arange(n + 1)
            Bij = [(idx, idx, a00), (idx[1:], idx[:-1], None), (idx[:-1], idx[1:], None), (idx, idx, a11)]
            out = []
            for q, (i0, i1, v) in enumerate(Bij):
                if v is not None:
                    out.append(';'.join(f'{i}:{j}:{rat_str(rationalise(float(x) ** 2, n * n))}' for i, j, x in zip(i0, i1, v)))
                else:
                    out.append(';'.join(f'{i}:{j}:{rat_str(rationalise(float(x) ** 2, n * n))}' for i, j, x in zip(i0, i1, a01)))
            return '|'.join(out)
        ops.append(f'C17 bij {n} 2')
        impl.append(guarded(f))
        ctx.count('qubit-closed-form')
    # other argument guards
    for n, d in [(0, 2), (2, 1), (3, 0)]:
        ops.append(f'C17 klist {n} {d}')
        impl.append(guarded(lambda: '|'.join(';'.join(map(str, k)) for k in D.get_dicke_klist(n, d))))
    # assembly of the reduced matrix from index triples, exact on integer tables, numpy and torch
    for rep in range(12 if ctx.quick() else 80):
        dimA = int(nrng.integers(1, 5)); dimB = int(nrng.integers(1, 5))
        if rep % 3 == 0:
            # the real index lists of a (k, dimB), with the values replaced by integers
            dimB = int(nrng.integers(2, 4)); k = int(nrng.integers(1, 4))
            real = D.get_partial_trace_ABk_to_AB_index(k, dimB)
            L = D.get_dicke_number(k, dimB)
            tabs = [(np.asarray(a), np.asarray(b), rand_gint(nrng, (len(a),), -5, 5)) for a, b, _ in real]
        else:
            L = int(nrng.integers(1, 6))
            tabs = []
            for q in range(dimB * dimB):
                m = int(nrng.integers(0, 5))
                tabs.append((nrng.integers(0, L, size=m), nrng.integers(0, L, size=m), rand_gint(nrng, (m,), -5, 5)))
        psi = rand_gint(nrng, (dimA, L), -6, 6)
        tline = '|'.join(';'.join(f'{int(i)}:{int(j)}:{int(v.real)},{int(v.imag)}' for i, j, v in zip(*t)) or '-' for t in tabs)
        op = f'C17 asm {dimA} {dimB} {L} {tline} {gint_list(psi)}'
        ops.append(op)
        impl.append(guarded(lambda: gint_list(checked(ctx, 'partial_trace_ABk_to_AB', D.partial_trace_ABk_to_AB, psi, tabs))))
        if rep % 2 == 0:
            # real data as int64 / float32 / float64 and a strided view of the complex matrix (same integers for the model)
            pre = psi.real.copy()
            opr = f'C17 asm {dimA} {dimB} {L} {tline} {gint_list(pre)}'
            for tag, arr in (('int64', pre.astype(np.int64)), ('float32', pre.astype(np.float32)), ('float64', pre.astype(np.float64))):
                ops.append(opr)
                impl.append(guarded(lambda arr=arr: gint_list(checked(ctx, 'partial_trace_ABk_to_AB[' + tag + ']', D.partial_trace_ABk_to_AB, arr, tabs))))
                ctx.count('asm-' + tag)
            big = np.zeros((dimA, 2 * L), dtype=psi.dtype); big[:, ::2] = psi
            ops.append(op)
            impl.append(guarded(lambda: gint_list(checked(ctx, 'partial_trace_ABk_to_AB[view]', D.partial_trace_ABk_to_AB, big[:, ::2], tabs))))
        ttabs = [(torch.tensor(a, dtype=torch.int64), torch.tensor(b, dtype=torch.int64), torch.tensor(v, dtype=torch.complex128)) for a, b, v in tabs]
        ops.append(op)
        impl.append(guarded(lambda: gint_list(checked(ctx, 'partial_trace_ABk_to_AB[torch]', D.partial_trace_ABk_to_AB, torch.tensor(psi, dtype=torch.complex128), ttabs).numpy())))
        ctx.count('asm-numpy'); ctx.count('asm-torch')
    return ops, impl


@contextlib.contextmanager
def patched(obj, name, value):
    orig = getattr(obj, name)
    setattr(obj, name, value)
    try:
        yield
    finally:
        setattr(obj, name, orig)


def users_ops(ctx):
    """entangle/pureb.py and maximum_entropy/_internal.py: every reduction done by index bookkeeping, on integer data"""
    import numqi, torch, cvxpy
    import numqi.maximum_entropy._internal as ME
    D = numqi.dicke
    nrng = np.random.default_rng(ctx.np_seed + 7)
    ops, impl = [], []
    # (0) PureBosonicExt.__init__: the table stored on the object (index lists, values^2, dtypes) against the model's `bijTable`, the
    #     size of the parameter manifold against `dimA * dickeNumber`; both distance kinds (dtypes of the stored table are not compared)
    for dimA, dimB, k in ([(2, 2, 2), (3, 2, 3), (2, 3, 2), (1, 3, 3), (2, 4, 2)] if ctx.quick() else [(a, b, k) for a in (1, 2, 3) for b in (2, 3, 4) for k in (1, 2, 3, 4)]):
        for kind in ('ree', 'gellmann'):
            def init_table(kind=kind):
                m = numqi.entangle.PureBosonicExt(dimA, dimB, k, distance_kind=kind)
                # values only: the dtypes of the stored attribute are an implementation detail (any integer index type, real or complex values)
                val = lambda t: (t.real if t.is_complex() else t).detach().numpy().astype(np.float64)
                if any(float(x[2].imag.abs().max()) != 0 for x in m.Bij if len(x[2]) and x[2].is_complex()):
                    return 'table-not-real'
                return bij_line([(np.asarray(x[0]).astype(np.int64), np.asarray(x[1]).astype(np.int64), val(x[2])) for x in m.Bij], k)

            def init_size(kind=kind):
                m = numqi.entangle.PureBosonicExt(dimA, dimB, k, distance_kind=kind)
                with torch.no_grad():
                    sz = int(m.manifold().reshape(-1).shape[0])
                return str(sz // dimA) if (sz % dimA == 0 and (m.dimA, m.dimB) == (dimA, dimB)) else f'manifold-size:{sz}'
            ops.append(f'C17 bij {k} {dimB}'); impl.append(guarded(init_table))
            ops.append(f'C17 number {k} {dimB}'); impl.append(guarded(init_size))
            ctx.count('pureb-init-' + kind)
    # (0b) PureBosonicExt.forward with the table built by the MODEL (`bijTable`): the object's index lists are not sent, only integer values
    #      substituted position by position into its table; reduced matrix and the expectation loss Re tr(op rho_AB) (Gaussian-integer op)
    for dimA, dimB, k in ([(2, 2, 2), (3, 2, 3), (2, 3, 2), (1, 2, 1)] if ctx.quick() else [(a, b, k) for a in (1, 2, 3) for b in (2, 3) for k in (1, 2, 3)]):
        L = D.get_dicke_number(k, dimB); N = dimA * dimB
        v = rand_gint(nrng, (dimA * L,), -5, 5)
        op = rand_gint(nrng, (N, N), -3, 3)
        lens = [len(x[0]) for x in D.get_partial_trace_ABk_to_AB_index(k, dimB)]
        ints = [rand_gint(nrng, (n_,), -4, 4) for n_ in lens]

        def fm():
            model = numqi.entangle.PureBosonicExt(dimA, dimB, k)
            if [len(x[0]) for x in model.Bij] != lens:
                return 'table-length-mismatch'
            model.Bij = [[x[0], x[1], torch.tensor(w, dtype=torch.complex128)] for x, w in zip(model.Bij, ints)]

            class Stub(torch.nn.Module):
                def forward(self_):
                    return torch.tensor(v, dtype=torch.complex128)
            model.manifold = Stub()
            op_in = op.copy()
            model.set_expectation_op(op_in)
            with torch.no_grad():
                loss = float(model())
            if not np.array_equal(op_in, op):
                return 'mutates-op'
            if loss != round(loss):
                return 'nonintegral-loss'
            return f'{gint_list(model.dm_torch.numpy())}|{int(round(loss))}'
        ops.append(f'C17 purebm {dimA} {dimB} {k} {"|".join(gint_list(w) or "-" for w in ints)} {gint_list(v)} {gint_list(op)}')
        impl.append(guarded(fm))
        ctx.count('pureb-model-table')
    # (1) PureBosonicExt.forward: real object, parameter vector and table values replaced by integers (index lists are the real ones)
    for dimA, dimB, k in ([(2, 2, 2), (3, 2, 3), (2, 3, 2)] if ctx.quick() else [(a, b, k) for a in (1, 2, 3) for b in (2, 3) for k in (1, 2, 3)]):
        L = D.get_dicke_number(k, dimB)
        v = rand_gint(nrng, (dimA * L,), -5, 5)

        def f():
            model = numqi.entangle.PureBosonicExt(dimA, dimB, k)
            ints = [rand_gint(nrng, (len(x[0]),), -4, 4) for x in model.Bij]
            model.Bij = [[x[0], x[1], torch.tensor(w, dtype=torch.complex128)] for x, w in zip(model.Bij, ints)]
            class Stub(torch.nn.Module):
                def forward(self_):
                    return torch.tensor(v, dtype=torch.complex128)
            model.manifold = Stub()
            model.set_expectation_op(np.eye(dimA * dimB))
            with torch.no_grad():
                model()
            tline = '|'.join(';'.join(f'{int(i)}:{int(j)}:{int(w.real)},{int(w.imag)}' for i, j, w in zip(x[0].tolist(), x[1].tolist(), ww)) or '-' for x, ww in zip(model.Bij, ints))
            return tline, gint_list(model.dm_torch.numpy())
        r = guarded(f)
        if isinstance(r, str):
            ops.append(f'C17 pureb {dimA} {dimB} {L} - {gint_list(v)}'); impl.append(r)
        else:
            ops.append(f'C17 pureb {dimA} {dimB} {L} {r[0]} {gint_list(v)}'); impl.append(r[1])
        ctx.count('pureb-forward')
    # (2) return_tensor=True against the table (squares, exact)
    for n, d in [(1, 2), (2, 2), (3, 2), (2, 3), (3, 3)] + ([] if ctx.quick() else [(4, 2), (4, 3), (2, 4), (3, 4)]):
        ops.append(f'C17 tensor {n} {d}')

        def f():
            T = D.get_partial_trace_ABk_to_AB_index(n, d, return_tensor=True)
            if np.abs(T.imag).max() != 0 or T.real.min() < 0:
                return 'tensor-not-real-nonnegative'
            return ';'.join(rat_str(rationalise(float(x) ** 2, n * n)) for x in T.real.reshape(-1))
        impl.append(guarded(f)); ctx.count('tensor')
    # (3) get_ABk_gellmann_preimage_op: Gell-Mann matrices and the Dicke tensor intercepted and replaced by integer arrays
    for dimA, dimB, k in ([(2, 2, 2), (2, 3, 2)] if ctx.quick() else [(2, 2, 2), (2, 2, 3), (2, 3, 2), (3, 2, 2), (2, 2, 4)]):
        N0 = (dimA * dimB) ** 2 - 1
        L = D.get_dicke_number(k, dimB)
        G = rand_gint(nrng, (N0, dimA * dimB, dimA * dimB), -3, 3) * 12          # multiples of 12: the final /kext stays exact
        B = rand_gint(nrng, (dimB, dimB, L, L), -3, 3)
        sel = sorted(set([0, N0 - 1, int(nrng.integers(N0))]))
        calls = []

        def fake_gm(*a, **kw):
            calls.append(('all_gellmann_matrix', a, tuple(sorted(kw.items())))); return G.copy()

        def fake_idx(*a, **kw):
            calls.append(('get_partial_trace_ABk_to_AB_index', a, tuple(sorted(kw.items())))); return B.copy()
        try:
            with patched(numqi.gellmann, 'all_gellmann_matrix', fake_gm), patched(numqi.dicke, 'get_partial_trace_ABk_to_AB_index', fake_idx):
                rb = ME.get_ABk_gellmann_preimage_op(dimA, dimB, k, kind='boson')
                calls_b = list(calls); calls.clear()
                rs = ME.get_ABk_gellmann_preimage_op(dimA, dimB, k, kind='symmetric')
                calls_s = list(calls)
            # the intercepted calls must carry exactly the arguments the model assumes: Gell-Mann matrices of dimension dimA*dimB
            # without the identity, and the tensor form of the table for (kext, dimB)
            norm = lambda c: (c[0], tuple(int(x) for x in c[1]), dict(c[2]))
            want_gm = ('all_gellmann_matrix', (dimA * dimB,), {'with_I': False})
            ok_b = sorted(map(repr, map(norm, calls_b))) == sorted(map(repr, [want_gm, ('get_partial_trace_ABk_to_AB_index', (k, dimB), {'return_tensor': True})]))
            ok_s = [repr(norm(c)) for c in calls_s] == [repr(want_gm)]
            if not ok_b:
                rb = 'wrong-arguments:' + repr(calls_b)[:200]
            if not ok_s:
                rs = 'wrong-arguments:' + repr(calls_s)[:200]
            if not isinstance(rb, str) and rb.shape != (N0, dimA * L, dimA * L):
                rb = f'wrong-shape:{rb.shape}'
        except Exception as e:
            rb = rs = 'error:' + type(e).__name__
        for g in sel:
            ops.append(f'C17 preb {dimA} {dimB} {L} {gint_list(G[g])} {gint_list(B)}')
            impl.append(rb if isinstance(rb, str) else gint_list(rb[g]))
            if dimA * dimB ** k <= 32:
                ops.append(f'C17 pres {dimA} {dimB} {k} {gint_list(G[g])}')
                impl.append(rs if isinstance(rs, str) else gint_list(rs[g] * k))
        ctx.count('preimage-op')
    # (4) sdp_2local_rdm_solve: the cvxpy variable is replaced by an integer Hermitian constant and the problem is captured instead
    #     of solved; the left-hand sides of the equality constraints are Re Tr(P_j rdm_(ind0,ind0+1))
    for n in ([2, 3, 4] if ctx.quick() else [2, 3, 4, 5]):
        A = rand_gint(nrng, (2 ** n, 2 ** n), -3, 3)
        X = A + A.conj().T
        cap = {}

        class FakeProblem:
            def __init__(self, obj, cons):
                cap['cons'] = cons

            def solve(self, *a, **kw):
                return 0

        def f():
            with patched(cvxpy, 'Variable', lambda shape, hermitian=False, **kw: cvxpy.Constant(X)), patched(cvxpy, 'Problem', FakeProblem):
                ret = ME.sdp_2local_rdm_solve(np.zeros(15 * (n - 1)))
            if not np.array_equal(ret, X):
                return 'variable-not-returned'
            vals = np.concatenate([np.asarray(c.args[0].value).reshape(-1) for c in cap['cons'][2:]])
            if np.any(vals != np.round(vals)):
                return 'nonintegral'
            return ';'.join(str(int(x)) for x in vals)
        ops.append(f'C17 rdm2 {n} {gint_list(X)}'); impl.append(guarded(f)); ctx.count('sdp-2local-rdm')
    return ops, impl


def correspondence(ctx):
    ops, impl = pt_ops(ctx)
    o2, i2 = dicke_ops(ctx)
    ops += o2; impl += i2
    o3, i3 = users_ops(ctx)
    ops += o3; impl += i3
    model = common.run_model(ops)

    def nontrivial(op, out):
        t = op.split(' ')
        if t[1] in ('pt', 'pts'):
            n = len(t[2].split(';')); k = 0 if t[3] == '-' else len(t[3].split(';'))
            return 0 < k < n
        if t[1] in ('klist', 'bij', 'basis', 'number'):
            return int(t[2]) >= 2
        return True
    # empty keep set: the model returns the 1x1 matrix [trace]; a crash of the implementation there is reported through the
    # finding channel (stable key) with the concrete input instead of as an anonymous correspondence difference
    keep_ops, keep_impl, keep_model = [], [], []
    for j, (op, a, b) in enumerate(zip(ops, impl, model)):
        t = op.split(' ')
        if t[1] in ('pt', 'pts') and t[3] == '-' and a != b and a.startswith('error:'):
            dims_t = tuple(int(x) for x in t[2].split(';'))
            passed = PT_META.get(j, f'rho=complex128 ndarray, dim={dims_t!r}, keep_index={VARIANTS.get(op, set())!r}')
            ctx.fail(EMPTY_KEEP_KEY, f'partial_trace with an empty keep set raises {a[6:]} instead of returning [[trace]] (arguments: {passed})',
                     dict(op='partial_trace', dims=list(dims_t), keep=[], arguments=passed, observed=a, required='1x1 matrix holding the trace: ' + b[:60]))
            continue
        keep_ops.append(op); keep_impl.append(a); keep_model.append(b)
    # a rejection is a rejection: which exception class / message the implementation (or the model's label) uses must not matter
    canon = lambda x: 'error' if isinstance(x, str) and x.startswith('error') else x
    keep_impl = [canon(x) for x in keep_impl]; keep_model = [canon(x) for x in keep_model]
    common.compare(ctx, keep_ops, keep_impl, keep_model, nontrivial=nontrivial)
    ctx.extra['exhaustive'] = not ctx.quick()
    ctx.extra['exhaustive_domain'] = ('all keep-subsets of all dimension lists of length 2..5 with entries 2..4; Dicke (n,d) in 1..6 x 2..5'
                                      if not ctx.quick() else 'all keep-subsets of all lists of length 2..3 (entries 2..4); sampled above')


# ---------------------------------------------------------------------------
# probe: the property statement evaluated directly on the real code
# ---------------------------------------------------------------------------
def explicit_partial_trace(rho, dims, keep):
    """independent of einsum labels: loop over the traced multi-indices"""
    n = len(dims)
    keep = sorted(set(keep))
    tr = [i for i in range(n) if i not in keep]
    kd = [dims[i] for i in keep]; td = [dims[i] for i in tr]
    T = rho.reshape(tuple(dims) + tuple(dims))
    out = np.zeros(tuple(kd) + tuple(kd), dtype=rho.dtype)
    for t in itertools.product(*[range(x) for x in td]):
        sl = [slice(None)] * n
        for i, v in zip(tr, t):
            sl[i] = v
        out += T[tuple(sl) + tuple(sl)]
    N1 = int(np.prod(kd)) if kd else 1
    return out.reshape(N1, N1)


def close(a, b, tol):
    a = np.asarray(a); b = np.asarray(b)
    if a.shape != b.shape:
        return False
    return bool(np.all(np.abs(a - b) <= tol * max(1.0, float(np.max(np.abs(b))) if b.size else 1.0)))


def explicit_reduction(psi, basis, dimA, dimB, k):
    """embed with the Dicke basis and trace out k-1 copies explicitly (tensordot, no numqi code)"""
    Psi = (psi @ basis).reshape(dimA, dimB, dimB ** (k - 1))
    rho = np.tensordot(Psi, Psi.conj(), axes=([2], [2]))       # (A,B,A',B')
    return rho.reshape(dimA * dimB, dimA * dimB)


def corpus_replay(ctx):
    """/verif/corpus/C17/*.json: the recorded failing input of every repaired defect, replayed first on every run (both tiers)"""
    import glob, json, os, numqi
    for path in sorted(glob.glob(os.path.join(common.VERIF, 'corpus', 'C17', '*.json'))):
        tag = os.path.basename(path)[:-5]
        for e in json.load(open(path))['entries']:
            if e.get('kind') != 'partial_trace':
                continue
            dims = tuple(e['dims']); D = int(np.prod(dims))
            keep = {'set': set, 'list': list, 'tuple': tuple}[e['keep_type']](e['keep'])
            rho = (np.arange(D * D).reshape(D, D) + 1j * np.arange(D * D)[::-1].reshape(D, D)).astype(np.complex128)
            got = guarded(lambda: numqi.utils.partial_trace(rho, dims, keep))
            rep = dict(op='partial_trace', corpus=tag, dims=list(dims), keep_index=repr(keep))
            key = EMPTY_KEEP_KEY if len(e['keep']) == 0 else 'partial_trace-contraction'
            if isinstance(got, str):
                ctx.fail(key, f'[corpus {tag}] partial_trace(rho, dim={dims}, keep_index={keep!r}) raises {got}', rep)
            elif not np.array_equal(got, explicit_partial_trace(rho, dims, e['keep'])):
                ctx.fail(key, f'[corpus {tag}] partial_trace(rho, dim={dims}, keep_index={keep!r}) != explicit contraction', rep)
            else:
                ctx.probe_ok(('corpus', tag, dims, e['keep_type']))


def probe_reuse(ctx):
    """input class "buffer reuse across calls" (harness/c12.py `reuse_check`): two different inputs of the same size; the first result must
    survive the second call, share no memory with the second result, and overwriting it must not poison later calls.  Functions: partial_trace,
    get_dicke_klist, get_dicke_basis, Dicke, get_partial_trace_ABk_to_AB_index (list and tensor form), get_qubit_dicke_partial_trace,
    partial_trace_ABk_to_AB (numpy, torch), PureBosonicExt.forward on two interleaved objects of the same size"""
    import numqi, torch
    D = numqi.dicke
    r = np.random.default_rng(2468)
    for dims, keep in (((2, 2), (0,)), ((2, 3), (1,)), ((2, 2, 2), (0, 2)), ((3, 2), ())):
        n = int(np.prod(dims))
        A = r.normal(size=(n, n)) + 1j * r.normal(size=(n, n)); B = r.normal(size=(n, n)) + 1j * r.normal(size=(n, n))
        reuse_check(ctx, f'partial_trace[{dims},{keep}]', lambda x: numqi.utils.partial_trace(x, dims, set(keep)), (A,), (B,))
    # (2,3) and (5,2) have the same number of Dicke vectors (6): tables / lists of the same size for different inputs
    for a, b in (((2, 3), (5, 2)), ((2, 2), (2, 2 + 0)), ((3, 2), (1, 4))):
        if a == b:
            continue
        d = dict(A=f'(n,d)={a}', B=f'(n,d)={b}')
        reuse_check(ctx, 'get_dicke_klist', lambda nd: [list(k) for k in D.get_dicke_klist(*nd)], (a,), (b,), describe=d)
        reuse_check(ctx, 'get_partial_trace_ABk_to_AB_index', lambda nd: [[np.asarray(y) for y in x] for x in D.get_partial_trace_ABk_to_AB_index(*nd)], (a,), (b,), describe=d)
        reuse_check(ctx, 'get_partial_trace_ABk_to_AB_index[return_tensor]', lambda nd: D.get_partial_trace_ABk_to_AB_index(*nd, return_tensor=True), (a,), (b,), describe=d)
        reuse_check(ctx, 'get_dicke_basis', lambda nd: D.get_dicke_basis(*nd), (a,), (b,), describe=d)
    reuse_check(ctx, 'Dicke', lambda k: D.Dicke(*k), ((2, 0, 1),), ((1, 1, 1),), describe=dict(A='klist (2,0,1)', B='klist (1,1,1)'))
    reuse_check(ctx, 'get_qubit_dicke_partial_trace', lambda n: list(D.get_qubit_dicke_partial_trace(n)), (4,), (5,), describe=dict(A='n=4', B='n=5'))
    for dimA, dimB, k in ((2, 2, 2), (2, 3, 2)):
        tab = D.get_partial_trace_ABk_to_AB_index(k, dimB); L = D.get_dicke_number(k, dimB)
        pA = r.normal(size=(dimA, L)) + 1j * r.normal(size=(dimA, L)); pB = r.normal(size=(dimA, L)) + 1j * r.normal(size=(dimA, L))
        reuse_check(ctx, f'partial_trace_ABk_to_AB[{dimA},{dimB},{k}]', lambda x: D.partial_trace_ABk_to_AB(x, tab), (pA,), (pB,))
        ttab = [[torch.tensor(np.asarray(y)) for y in x] for x in tab]
        reuse_check(ctx, f'partial_trace_ABk_to_AB[torch][{dimA},{dimB},{k}]', lambda x: D.partial_trace_ABk_to_AB(x, ttab), (torch.tensor(pA),), (torch.tensor(pB),))
        # two stateful objects of the same size, interleaved forward calls
        hist = dict(op='PureBosonicExt.forward', history=['m1()', 'm2()', 'm1.dm_torch'], dimA=dimA, dimB=dimB, k=k)
        try:
            torch.manual_seed(1); m1 = numqi.entangle.PureBosonicExt(dimA, dimB, k); m2 = numqi.entangle.PureBosonicExt(dimA, dimB, k)
            for m_ in (m1, m2):
                m_.set_dm_target(np.eye(dimA * dimB) / (dimA * dimB))
            with torch.no_grad():
                m1(); d1 = m1.dm_torch; c1 = d1.clone()
                m2(); d2 = m2.dm_torch
                ok = torch.equal(d1, c1) and not _shares(d1, d2) and not torch.equal(d1, d2)
                m1(); again = torch.equal(m1.dm_torch, c1)
        except Exception as e:
            ctx.fail('PureBosonicExt.forward:reuse-check-raises', f'{type(e).__name__}: {e}', hist); continue
        if not ok or not again:
            ctx.fail('PureBosonicExt.forward:result-overwritten-by-next-call', 'the reduced state stored by one PureBosonicExt object changed (or shares memory) after the forward pass of '
                     'another object of the same size', hist)
        else:
            ctx.probe_ok(('reuse', 'PureBosonicExt', dimA, dimB, k)); ctx.count('reuse-check')


def probe(ctx):
    import numqi, torch
    corpus_replay(ctx)
    probe_reuse(ctx)
    rng = ctx.rng
    nrng = np.random.default_rng(ctx.np_seed + 2)
    # (a) partial trace = explicit contraction, trace preserved, two steps = one step
    lists = list(all_dim_lists([2, 3])) + rng.sample(list(all_dim_lists([4, 5])), 6 if ctx.quick() else 60)
    for dims in lists:
        n = len(dims); D = int(np.prod(dims))
        if D > 300:
            continue
        rho = nrng.normal(size=(D, D)) + 1j * nrng.normal(size=(D, D))
        subsets = [c for r in range(n + 1) for c in itertools.combinations(range(n), r)]
        if len(subsets) > 8:
            subsets = rng.sample(subsets, 8)
        for keep in subsets:
            kv = keep_variants(rng, keep, n)       # set / shuffled list / tuple with duplicates / bare int
            rep = dict(op='partial_trace', dims=list(dims), keep=list(keep), keep_index_passed=repr(kv), rho_seed=ctx.np_seed + 2)
            got = guarded(lambda: numqi.utils.partial_trace(rho, dims, kv))
            if isinstance(got, str) and len(keep) == 0:
                ctx.fail(EMPTY_KEEP_KEY, f'partial_trace(rho, dim={dims!r}, keep_index={kv!r}) raises {got[6:]} instead of returning [[trace]]', rep); continue
            if isinstance(got, str):
                ctx.fail('partial_trace-raises', f'partial_trace raises {got} for dims={dims}, keep={keep}', rep); continue
            want = explicit_partial_trace(rho, dims, keep)
            if not close(got, want, 1e-12):
                ctx.fail('partial_trace-contraction', f'partial_trace != explicit contraction for dims={dims}, keep={keep}', rep)
            elif abs(np.trace(got) - np.trace(rho)) > 1e-10 * D:
                ctx.fail('partial_trace-trace', f'trace changed for dims={dims}, keep={keep}', rep)
            else:
                ctx.probe_ok(('pt', dims, keep))
            if len(keep) >= 2:
                sub = sorted(rng.sample(range(len(keep)), rng.randint(1, len(keep) - 1)))
                kd = tuple(dims[i] for i in keep)
                two = guarded(lambda: numqi.utils.partial_trace(got, kd, sub))
                one = guarded(lambda: numqi.utils.partial_trace(rho, dims, [keep[i] for i in sub]))
                if isinstance(two, str) or isinstance(one, str) or not close(two, one, 1e-12):
                    ctx.fail('partial_trace-twice', f'two-step trace != one-step for dims={dims}, keep={keep}, then {sub}',
                             dict(rep, second=sub))
                else:
                    ctx.probe_ok(('pt2', dims, keep, tuple(sub)))
    # (b) Dicke basis: orthonormal, permutation invariant, spans the symmetric subspace
    D_ = numqi.dicke
    for n, d in [(n, d) for n in range(1, 6) for d in range(2, 5) if d ** n <= (300 if ctx.quick() else 1100)]:
        rep = dict(op='get_dicke_basis', n=n, d=d)
        B = guarded(lambda: D_.get_dicke_basis(n, d))
        if isinstance(B, str):
            ctx.fail('dicke-basis-raises', f'get_dicke_basis({n},{d}) raises {B}', rep); continue
        ok = B.shape == (math.comb(n + d - 1, d - 1), d ** n)
        ok = ok and close(B @ B.T, np.eye(B.shape[0]), 1e-12)
        if not ok:
            ctx.fail('dicke-orthonormal', f'Dicke basis not orthonormal / wrong count for n={n}, d={d}', rep); continue
        T = B.reshape((-1,) + (d,) * n)
        inv = True
        for perm in ([tuple(range(1, n)) + (0,), (1, 0) + tuple(range(2, n))] if n >= 2 else []):
            inv = inv and np.array_equal(np.transpose(T, (0,) + tuple(p + 1 for p in perm)), T)
        if not inv:
            ctx.fail('dicke-perm-invariant', f'Dicke vectors not permutation invariant for n={n}, d={d}', rep); continue
        if n <= 4 and d ** n <= 300:
            # projector on the symmetric subspace = (1/n!) sum of permutation operators
            N = d ** n
            P = np.zeros((N, N))
            I = np.eye(N).reshape((d,) * n + (N,))
            for perm in itertools.permutations(range(n)):
                P += np.transpose(I, perm + (n,)).reshape(N, N)
            P /= math.factorial(n)
            if not close(B.T @ B, P, 1e-12):
                ctx.fail('dicke-span', f'Dicke basis does not span Sym^{n}(C^{d})', rep); continue
        ctx.probe_ok(('basis', n, d))
    # (c) fast reduction = explicit embedding + explicit trace; numpy and torch; (d) return_tensor; (e) PureBosonicExt
    triples = [(a, b, k) for a in (2, 3, 4) for b in (2, 3, 4) for k in range(1, 6) if b ** k <= (260 if ctx.quick() else 1100)]
    for dimA, dimB, k in triples:
        rep = dict(op='partial_trace_ABk_to_AB', dimA=dimA, dimB=dimB, k=k, seed=ctx.np_seed + 2)
        try:
            Bij = D_.get_partial_trace_ABk_to_AB_index(k, dimB)
            basis = D_.get_dicke_basis(k, dimB)
            L = basis.shape[0]
            psi = nrng.normal(size=(dimA, L)) + 1j * nrng.normal(size=(dimA, L))
            psi /= np.linalg.norm(psi)
            # the reduction is a sesquilinear map of the coefficients, not only of normalised ones: every other case is an unnormalised vector
            if (dimA + dimB + k) % 2 == 0:
                psi = psi * 1.75
            want = explicit_reduction(psi, basis, dimA, dimB, k)
            got = D_.partial_trace_ABk_to_AB(psi, Bij)
            Bt = [[torch.tensor(y0, dtype=y1) for y0, y1 in zip(x, [torch.int64, torch.int64, torch.complex128])] for x in Bij]
            got_t = D_.partial_trace_ABk_to_AB(torch.tensor(psi), Bt).numpy()
            Brsab = D_.get_partial_trace_ABk_to_AB_index(k, dimB, return_tensor=True)
            Tb = basis.reshape(L, dimB, -1)
            want_B = np.einsum('arx,bsx->rsab', Tb, Tb)
        except Exception as e:
            ctx.fail('dicke-reduction-raises', f'{type(e).__name__} for dimA={dimA}, dimB={dimB}, k={k}', rep); continue
        if not close(got, want, 1e-12):
            ctx.fail('dicke-reduction', f'partial_trace_ABk_to_AB (numpy) != explicit embedding for dimA={dimA}, dimB={dimB}, k={k}', rep)
        elif not close(got_t, want, 1e-12):
            ctx.fail('dicke-reduction-torch', f'partial_trace_ABk_to_AB (torch) != explicit embedding for dimA={dimA}, dimB={dimB}, k={k}', rep)
        elif not close(Brsab, want_B, 1e-12):
            ctx.fail('dicke-tensor', f'get_partial_trace_ABk_to_AB_index(return_tensor=True) != <r|D_a><D_b|s> for dimB={dimB}, k={k}', rep)
        else:
            ctx.probe_ok(('red', dimA, dimB, k))
    # (e2) get_ABk_gellmann_preimage_op, UNPATCHED: <psi|preimage(G)|psi> = Tr(G rho_AB) with rho_AB from the explicit embedding (boson)
    #      resp. the average over the copies of explicit partial traces (symmetric)
    import numqi.maximum_entropy._internal as ME
    for dimA, dimB, k in ([(2, 2, 2), (2, 3, 2), (2, 2, 3)] if ctx.quick() else [(2, 2, 2), (2, 3, 2), (3, 2, 2), (2, 2, 3), (2, 3, 3), (2, 2, 4)]):
        rep = dict(op='get_ABk_gellmann_preimage_op', dimA=dimA, dimB=dimB, kext=k, seed=ctx.np_seed + 2)
        try:
            Gm = numqi.gellmann.all_gellmann_matrix(dimA * dimB, with_I=False)
            basis = D_.get_dicke_basis(k, dimB); L = basis.shape[0]
            psi = nrng.normal(size=(dimA, L)) + 1j * nrng.normal(size=(dimA, L)); psi /= np.linalg.norm(psi)
            rho = explicit_reduction(psi, basis, dimA, dimB, k)
            opb = ME.get_ABk_gellmann_preimage_op(dimA, dimB, k, kind='boson')
            eb = max(abs(np.vdot(psi.reshape(-1), opb[g] @ psi.reshape(-1)) - np.trace(Gm[g] @ rho)) for g in range(Gm.shape[0]))
            N = dimA * dimB ** k
            Psi = nrng.normal(size=N) + 1j * nrng.normal(size=N); Psi /= np.linalg.norm(Psi)
            big = np.outer(Psi, Psi.conj())
            dims = (dimA,) + (dimB,) * k
            rhos = [explicit_partial_trace(big, dims, [0, c]) for c in range(1, k + 1)]
            ops_ = ME.get_ABk_gellmann_preimage_op(dimA, dimB, k, kind='symmetric')
            es = max(abs(np.vdot(Psi, ops_[g] @ Psi) - sum(np.trace(Gm[g] @ r) for r in rhos) / k) for g in range(Gm.shape[0]))
            shape_ok = opb.shape == (Gm.shape[0], dimA * L, dimA * L) and ops_.shape == (Gm.shape[0], N, N)
        except Exception as e:
            ctx.fail('preimage-op-raises', f'{type(e).__name__}: {e}', rep); continue
        if not shape_ok or eb > 1e-12:
            ctx.fail('preimage-op-boson', f"<psi|preimage(G)|psi> != Tr(G rho_AB) for kind='boson' (error {eb:.3e}, dimA={dimA}, dimB={dimB}, kext={k})", rep)
        elif es > 1e-12:
            ctx.fail('preimage-op-symmetric', f"<Psi|preimage(G)|Psi> != mean_c Tr(G rho_(A,B_c)) for kind='symmetric' (error {es:.3e}, dimA={dimA}, dimB={dimB}, kext={k})", rep)
        else:
            ctx.probe_ok(('preimage', dimA, dimB, k))
    # (f) history of calls: the index tables are rebuilt on every call (no lru_cache in dicke.py); results must not alias each
    # other, so mutating a returned array cannot corrupt a later call (interleaved with other (n,d) and with the tensor form)
    hist = []
    try:
        ref = {}
        seq = [(3, 2), (2, 3), (3, 2), (4, 2), (2, 3), (3, 2), (1, 2), (3, 2)]
        bad = None
        for step, (n, d) in enumerate(seq):
            Bij = D_.get_partial_trace_ABk_to_AB_index(n, d)
            T = D_.get_partial_trace_ABk_to_AB_index(n, d, return_tensor=True)
            kl = D_.get_dicke_klist(n, d)
            snap = ([(a.copy(), b.copy(), c.copy()) for a, b, c in Bij], T.copy(), list(kl))
            if (n, d) in ref:
                r0 = ref[(n, d)]
                same = all(np.array_equal(x, y) for t0, t1 in zip(r0[0], snap[0]) for x, y in zip(t0, t1)) and np.array_equal(r0[1], snap[1]) and r0[2] == snap[2]
                if not same:
                    bad = (step, n, d); break
            else:
                ref[(n, d)] = snap
            hist.append((n, d))
            # vandalise everything that was returned
            for a, b, c in Bij:
                a += 1; b += 1; c *= -3.0
            T *= 0
            if isinstance(kl, list):
                kl.clear()
        if bad:
            ctx.fail('dicke-index-history', f'get_partial_trace_ABk_to_AB_index / get_dicke_klist returned different data at call #{bad[0]} for (n,d)=({bad[1]},{bad[2]}) after earlier results were mutated (aliasing through a cache)',
                     dict(op='call-history', sequence=seq, failing_step=bad[0]))
        else:
            ctx.probe_ok(('history', tuple(seq)))
    except Exception as e:
        ctx.fail('dicke-index-history-raises', f'{type(e).__name__}: {e}', dict(op='call-history', calls=hist))
    for dimA, dimB, k in [(2, 2, 2), (2, 3, 3), (3, 2, 4)]:
        rep = dict(op='PureBosonicExt.forward', dimA=dimA, dimB=dimB, k=k)
        try:
            model = numqi.entangle.PureBosonicExt(dimA, dimB, k)
            model.set_dm_target(np.eye(dimA * dimB) / (dimA * dimB))
            torch.manual_seed(ctx.np_seed)
            with torch.no_grad():
                model()
                vec = model.manifold().numpy().reshape(dimA, -1)
            want = explicit_reduction(vec, D_.get_dicke_basis(k, dimB), dimA, dimB, k)
            good = close(model.dm_torch.numpy(), want, 1e-12)
        except Exception as e:
            ctx.fail('pureb-raises', f'{type(e).__name__}: {e}', rep); continue
        if not good:
            ctx.fail('pureb-reduction', f'PureBosonicExt reduced state != explicit reduction for {dimA},{dimB},{k}', rep)
        else:
            ctx.probe_ok(('pureb', dimA, dimB, k))
        # expectation branch: the loss is Re tr(op rho_AB) for a complex Hermitian op; both distance kinds give the same reduced state
        try:
            N = dimA * dimB
            r2 = np.random.default_rng(ctx.np_seed + 17 + N)
            H = r2.normal(size=(N, N)) + 1j * r2.normal(size=(N, N)); H = H + H.conj().T
            H0 = H.copy()
            model.set_expectation_op(H)
            with torch.no_grad():
                loss = float(model())
                rho_ab = model.dm_torch.numpy()
            want_loss = float(np.trace(H0 @ rho_ab).real)
            m2 = numqi.entangle.PureBosonicExt(dimA, dimB, k, distance_kind='gellmann')
            m2.manifold = model.manifold
            m2.set_dm_target(np.eye(N) / N)
            with torch.no_grad():
                m2()
            same = close(m2.dm_torch.numpy(), rho_ab, 1e-12)
        except Exception as e:
            ctx.fail('pureb-raises', f'{type(e).__name__}: {e}', dict(rep, branch='expectation')); continue
        if abs(loss - want_loss) > 1e-12 * max(1.0, abs(want_loss)) or not np.array_equal(H, H0):
            ctx.fail('pureb-expectation', f'PureBosonicExt expectation loss {loss} != Re tr(op rho_AB) = {want_loss} for {dimA},{dimB},{k} (op modified: {not np.array_equal(H, H0)})',
                     dict(rep, branch='expectation', op_seed=ctx.np_seed + 17 + N))
        elif not same:
            ctx.fail('pureb-reduction', f"distance_kind='gellmann' gives a different reduced state than 'ree' for {dimA},{dimB},{k}", dict(rep, branch='gellmann'))
        else:
            ctx.probe_ok(('pureb-expectation', dimA, dimB, k))
    ctx.assumptions.append('float probe tolerance 1e-12 (relative to max entry, inputs O(1), sums of at most 1100 products: rounding <= 1100*2.2e-16*O(1) ~ 3e-13)')


def search(ctx, hints):
    """the probe already evaluates the statement on the generator range; additionally replay the disagreeing
    partial-trace ops against the explicit contraction"""
    import numqi
    for dd in hints[:100]:
        t = dd['op'].split(' ')
        if len(t) >= 5 and t[1] == 'pt':
            dims = tuple(int(x) for x in t[2].split(';'))
            keep = [] if t[3] == '-' else [int(x) for x in t[3].split(';')]
            if any(k < 0 or k >= len(dims) for k in keep):
                continue
            D = int(np.prod(dims))
            rho = np.array([complex(*map(int, e.split(','))) for e in t[4].split(';')]).reshape(D, D)
            kv = VARIANTS.get(dd['op'], keep)
            got = guarded(lambda: numqi.utils.partial_trace(rho, dims, kv))
            if isinstance(got, str) or not np.array_equal(got, explicit_partial_trace(rho, dims, keep)):
                ctx.fail('partial_trace-contraction', f'partial_trace != explicit contraction for dims={dims}, keep_index={kv!r}',
                         dict(op='partial_trace', dims=list(dims), keep=keep, keep_index_passed=repr(kv), rho=t[4]))
