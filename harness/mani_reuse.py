"""Hardening class "buffer reuse across calls" (shared by harness/c01.py, c02.py, c16.py).

r1 = f(A); c1 = deep copy; r2 = f(B) with B != A of the same size/shape  =>  (i) r1 == c1 bit for bit, (ii) r1 and r2 are distinct objects that do
not share memory, (iii) r1 still satisfies the property for A.  Then f(A) -> overwrite the result in place -> f(B), f(A): both as before.
A failure is reported with the history [f(A), f(B)] as failing input under the key `<fn>:result-overwritten-by-next-call`.
"""
import numpy as np


def _leaves(x):
    """arrays / tensors contained in a result (array, tensor, scalar, tuple / list / dict of those)"""
    import torch
    if isinstance(x, (np.ndarray, torch.Tensor)):
        return [x]
    if isinstance(x, (tuple, list)):
        return [l for y in x for l in _leaves(y)]
    if isinstance(x, dict):
        return [l for y in x.values() for l in _leaves(y)]
    return []


def _np(x):
    import torch
    return x.detach().cpu().numpy() if isinstance(x, torch.Tensor) else np.asarray(x)


def snapshot(x):
    import torch
    if isinstance(x, (np.ndarray, torch.Tensor)):
        return _np(x).copy()
    if isinstance(x, (tuple, list)):
        return [snapshot(y) for y in x]
    if isinstance(x, dict):
        return {k: snapshot(v) for k, v in x.items()}
    return x


def same(x, snap):
    import torch
    if isinstance(x, (np.ndarray, torch.Tensor)):
        a = _np(x)
        return isinstance(snap, np.ndarray) and a.shape == snap.shape and a.dtype == snap.dtype and bool(np.array_equal(a, snap, equal_nan=True))
    if isinstance(x, (tuple, list)):
        return isinstance(snap, list) and len(x) == len(snap) and all(same(y, s) for y, s in zip(x, snap))
    if isinstance(x, dict):
        return isinstance(snap, dict) and x.keys() == snap.keys() and all(same(x[k], snap[k]) for k in x)
    if isinstance(x, float) and isinstance(snap, float) and np.isnan(x) and np.isnan(snap):
        return True
    return type(x) is type(snap) and x == snap


def shares(r1, r2):
    """True iff some array / tensor of r1 shares memory with one of r2 (or is the same object)"""
    for a in _leaves(r1):
        for b in _leaves(r2):
            if a is b:
                return True
            na, nb = _np(a), _np(b)
            if na.size and nb.size and np.shares_memory(na, nb):
                return True
    return False


def scribble(r):
    """overwrite every writable array / tensor of the result in place; returns False if nothing could be written"""
    import torch
    done = False
    for a in _leaves(r):
        try:
            if isinstance(a, torch.Tensor):
                with torch.no_grad():
                    a.fill_(7.25) if not a.is_complex() else a.fill_(complex(7.25, -3.5))
            else:
                if not a.flags.writeable:
                    continue
                a[...] = 7.25
            done = True
        except Exception:
            pass
    return done


def check(ctx, fn, callA, callB, valid=None, history=None, same_input_cached=False):
    """callA / callB: zero-argument callables evaluating f on (fresh copies of) A resp. B.  valid(r) -> None or a description of what is wrong with
    f(A).  `same_input_cached`: the function is known to hand out one cached object for the SAME input (recorded observation): the
    overwrite step is then skipped."""
    key = f'{fn}:result-overwritten-by-next-call'
    rp = dict(fn=fn, history=history or [])
    try:
        r1 = callA(); c1 = snapshot(r1)
        r2 = callB(); c2 = snapshot(r2)
    except Exception as e:
        ctx.fail(f'{fn}:raises', f'{fn}: {type(e).__name__} during the history f(A), f(B)', rp); return False
    bad = None
    if not same(r1, c1):
        bad = 'the result of f(A) held by the caller changed when f(B) was evaluated'
    elif _leaves(r1) and shares(r1, r2):
        bad = 'f(A) and f(B) share memory (or are the same object)'
    else:
        w = valid(r1) if valid is not None else None
        if w:
            bad = f'after f(B) the result of f(A) no longer satisfies the property: {w}'
    if bad is None and same_input_cached:
        # the function hands out ONE cached object per input (recorded observation): overwriting it would corrupt the library's own table for the
        # rest of the process, so the overwrite step is not applied to it
        ctx.count('buffer-reuse:same-input-cached-object(observation)')
    elif bad is None:
        try:
            r = callA()
            if scribble(r):
                r2b = callB()
                if not same(r2b, c2):
                    bad = 'f(B) after the caller overwrote the result of f(A) in place differs from f(B) before'
                else:
                    r1b = callA()
                    if not same(r1b, c1):
                        bad = 'f(A) after the caller overwrote an earlier result of f(A) in place differs from the first f(A)'
        except Exception as e:
            bad = f'{type(e).__name__} in the history f(A), overwrite, f(B), f(A)'
    ctx.count('buffer-reuse')
    if bad:
        ctx.fail(key, f'{fn}: {bad}', rp)
        return False
    ctx.probe_ok(('buffer-reuse', fn, repr(history)[:200]))
    return True
