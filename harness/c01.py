"""C01 — every trivialization map lands on its manifold.

Model: lean/NumqiModel/Manifold.lean (Float instance run by lean/Driver/C01.lean).  Theorems: lean/NumqiProps/C01.lean.
Correspondence: model vs numqi.manifold.to_* on numpy and torch, float32/float64 parameters (complex64/complex128
outputs), batch shapes (), (1,), (k,), (k,l); floats cross as bit patterns; tolerance 1e-9 (float64) / 2e-4 (float32),
relative to max(1,|value|).  Probe: the defining constraints evaluated directly on the implementation's outputs.
"""
import math, struct, itertools
import numpy as np
from . import common

THEOREM_FILES = ['NumqiProps/C01.lean']
LEVEL = 'proof'
RULE = ('one op = one (map, options, dims, theta) evaluated by the Float model and by numqi.manifold.to_*; every theta is evaluated on BOTH '
        'backends (numpy, torch) with float32 or float64 parameters and batch shape (), (1,), (k,), (k,l) (per spec: one float32 and one float64 '
        'pick at least, batched shapes preferred; thorough: all 8 combinations, four passes). Rows: generic (scale*normal with scale log-uniform '
        'in [1e-8, bound], per-entry log-uniform magnitudes, uniform O(1), the zero vector where legal) and extreme-but-in-range rows (all '
        'entries within 2% of +bound / of -bound, per-row constant offsets in [-bound,bound], near-bound magnitudes with random signs); batches '
        'of >= 2 samples are with probability 0.6 extreme batches (a +bound row and a -bound row in the same batch, the rest at per-row offsets). '
        'Bounds: 1e2; 10 for choleskyL; 80 for exp and 10 for the exp/Cayley charts in float32. Inputs whose pre-factor matrix is ill-conditioned '
        '(cond > 1e3, > 20 in float32) are redrawn for the maps that orthonormalise through LAPACK. dims 2..6, all ranks, every method. '
        'The evidence histogram input-* counts the row kinds. distinct = distinct (op line, backend, dtype, batch rank). '
        'Stiefel(method=so-exp|so-cayley) is driven as a module (spec stiefel-so, op stso). Exact (Gaussian-integer) ops: abkh, abk2, abkperm, abk2sum '
        '(ABk2localHermitian.forward against the table-free sum of embeddings), abktoab. sogen: the generator captured at the entry of '
        'scipy.linalg.expm / torch.linalg.matrix_exp.')
TRUSTED = ['Lean 4.33 kernel', 'axioms: propext, Classical.choice, Quot.sound', 'Lean compiler and the C math library behind Float.exp/log/sin/cos/sqrt',
           'textbook numerics of NumqiModel.Manifold.Num (Gauss-Jordan inverse, Cholesky, scaling-and-squaring expm, Denman-Beavers inverse square root, '
           'Gram-Schmidt QR) — used by the driver only, a defect there shows as a disagreement',
           'harness/c01.py canonicalisation (bit patterns, tolerance comparison, QR column-phase canonicalisation)',
           'modelled, not verified: numqi/manifold/_internal.py, _stiefel.py, _compose.py; LAPACK/scipy/torch routines are contracts (hypotheses of the theorems)']

TOL64 = 1e-9
TOL32 = 2e-4
PROBE64 = 1e-9
PROBE32 = 1e-4


# ---------------------------------------------------------------------------
# bit-pattern protocol
# ---------------------------------------------------------------------------
def fbits(x):
    return str(struct.unpack('<Q', struct.pack('<d', float(x)))[0])


def tbits(theta):
    return ';'.join(fbits(x) for x in np.asarray(theta, dtype=np.float64).reshape(-1))


def cbits(z):
    return ';'.join(f'{fbits(v.real)},{fbits(v.imag)}' for v in np.asarray(z, dtype=np.complex128).reshape(-1))


def unbits(s):
    return struct.unpack('<d', struct.pack('<Q', int(s)))[0]


def parse_out(line):
    if ',' in line:
        return np.array([complex(unbits(a), unbits(b)) for a, b in (t.split(',') for t in line.split(';'))])
    return np.array([unbits(t) for t in line.split(';')], dtype=np.float64)


def to_np(x):
    import torch
    if isinstance(x, torch.Tensor):
        return x.detach().cpu().numpy()
    return np.asarray(x)


def guarded(f):
    try:
        return f()
    except AssertionError:
        return 'error:assert'
    except (ValueError, TypeError, IndexError, KeyError, RuntimeError, np.linalg.LinAlgError) as e:
        return 'error:' + type(e).__name__


# ---------------------------------------------------------------------------
# map specifications
# ---------------------------------------------------------------------------
def herm(x):
    return np.conj(np.swapaxes(x, -1, -2))


class Spec:
    """one trivialization map with fixed options"""
    name = ''
    bound = 1e2
    elementwise = False
    zero_ok = True      # theta = 0 is a legal input (no guard in the theorem)

    def __init__(self, **kw):
        self.__dict__.update(kw)

    def key(self):
        return self.name

    def bound_for(self, f32):
        return self.bound

    def wellcond(self, th, f32=False):
        return True

    def guard_ok(self, th):
        """the guard of the theorem (documented exclusions such as theta != 0 for the quotient maps)"""
        return True

    def accept(self, th, f32, for_tie):
        return self.wellcond(th, f32) and self.guard_ok(th)

    def columns(self):
        """index sets of theta that form one column of the pre-factor matrix (for the zero-column patterns)"""
        return []


def M():
    import numqi
    return numqi.manifold


class Softplus(Spec):
    name = 'softplus'; elementwise = True
    def nparam(self): return self.n
    def call(self, th): return M().to_positive_real_softplus(th)
    def op(self, th): return f'C01 softplus {tbits(th)}'
    def out_shape(self): return (self.n,)
    def checks(self, th, y, tol):
        yield 'positive_real:softplus>0', bool(np.all(y.real > 0)) and not np.iscomplexobj(y), f'min {y.real.min()}'


class ExpMap(Softplus):
    name = 'exp'
    def bound_for(self, f32): return 80.0 if f32 else 100.0
    def call(self, th): return M().to_positive_real_exp(th)
    def op(self, th): return f'C01 exp {tbits(th)}'
    def checks(self, th, y, tol):
        yield 'positive_real:exp>0', bool(np.all(y.real > 0)) and not np.iscomplexobj(y), f'min {y.real.min()}'


class Interval(Spec):
    name = 'interval'; elementwise = True
    def nparam(self): return self.n
    def call(self, th):
        import torch
        return M().to_open_interval(th, self.lower, self.upper)
    def op(self, th): return f'C01 interval {tbits([self.lower, self.upper])} {tbits(th)}'
    def out_shape(self): return (self.n,)
    def key(self): return f'interval[{self.lower},{self.upper}]'
    def checks(self, th, y, tol):
        # floats saturate (sigmoid(40.) == 1.0): the closed interval is demanded on floats, the open one is the theorem
        yield 'open_interval:in[lower,upper]', bool(np.all((y >= self.lower - tol * max(1, abs(self.lower))) & (y <= self.upper + tol * max(1, abs(self.upper))))), f'range [{y.min()},{y.max()}] for ({self.lower},{self.upper})'


class VecMap(Spec):
    """maps R^n -> vector; rc in {'r','c'}"""
    def nparam(self): return self.n
    def is_real(self): return self.rc == 'r'
    def key(self): return f'{self.name}-{self.rc}-n{self.n}'
    def op(self, th): return f'C01 {self.opname} {self.rc} {tbits(th)}'


class Ball(VecMap):
    name = 'ball'; opname = 'ball'
    def call(self, th): return M().to_ball(th, self.is_real())
    def out_shape(self): return (self.n if self.is_real() else self.n // 2,)
    def checks(self, th, y, tol):
        nr = float(np.linalg.norm(y))
        nt = float(np.linalg.norm(th))
        # strictly inside for the exact map; floats may round to norm 1 only for |theta| > 1/eps, far outside the bound
        yield 'to_ball:norm<1', nr < 1, f'norm {nr!r}'
        yield 'to_ball:norm=|t|/(1+|t|)', abs(nr - nt / (1 + nt)) <= tol, f'norm {nr!r} vs {nt / (1 + nt)!r}'


class SphereQ(VecMap):
    name = 'sphere-quotient'; opname = 'sphq'
    zero_ok = False
    def guard_ok(self, th): return bool(np.any(np.asarray(th) != 0))
    def call(self, th): return M().to_sphere_quotient(th, self.is_real())
    def out_shape(self): return (self.n if self.is_real() else self.n // 2,)
    def checks(self, th, y, tol):
        yield 'sphere:quotient:norm=1', abs(float(np.linalg.norm(y)) - 1) <= tol, f'norm {np.linalg.norm(y)!r}'


class SphereC(VecMap):
    name = 'sphere-coordinate'; opname = 'sphc'
    def call(self, th): return M().to_sphere_coordinate(th, self.is_real())
    def out_shape(self): return (self.n + 1 if self.is_real() else (self.n + 1) // 2,)
    def checks(self, th, y, tol):
        yield 'sphere:coordinate:norm=1', abs(float(np.linalg.norm(y)) - 1) <= tol, f'norm {np.linalg.norm(y)!r}'


class Softmax(VecMap):
    name = 'prob-softmax'; opname = 'softmax'
    def call(self, th): return M().to_discrete_probability_softmax(th)
    def out_shape(self): return (self.n,)
    def checks(self, th, y, tol):
        yield 'probability:softmax:>=0', bool(np.all(y >= 0)) and not np.iscomplexobj(y), f'min {y.min()}'
        yield 'probability:softmax:sum=1', abs(float(y.sum()) - 1) <= tol, f'sum {y.sum()!r}'


class ProbSphere(Softmax):
    name = 'prob-sphere'; opname = 'psphere'
    zero_ok = False
    def guard_ok(self, th): return bool(np.any(np.asarray(th) != 0))
    def call(self, th): return M().to_discrete_probability_sphere(th)
    def checks(self, th, y, tol):
        yield 'probability:sphere:>=0', bool(np.all(y >= 0)) and not np.iscomplexobj(y), f'min {y.min()}'
        yield 'probability:sphere:sum=1', abs(float(y.sum()) - 1) <= tol, f'sum {y.sum()!r}'


class MatMap(Spec):
    def is_real(self): return self.rc == 'r'
    def key(self): return f'{self.name}-{self.rc}-d{self.dim}' + (f'-r{self.rank}' if hasattr(self, 'rank') else '')


def psd_checks(tag, dim, rank, is_real, y, tol):
    yield f'{tag}:hermitian', float(np.abs(y - herm(y)).max()) <= tol, f'|A-A^H| {np.abs(y - herm(y)).max():.3e}'
    if is_real:
        yield f'{tag}:real', not np.iscomplexobj(y) or float(np.abs(y.imag).max()) == 0, 'complex output for real parameters'
    ev = np.linalg.eigvalsh((y + herm(y)) / 2)
    yield f'{tag}:psd', float(ev.min()) >= -tol, f'min eigenvalue {ev.min():.3e}'
    yield f'{tag}:trace=1', abs(complex(np.trace(y)) - 1) <= tol, f'trace {np.trace(y)!r}'
    yield f'{tag}:rank<={"r"}', int(np.sum(ev > max(tol, 1e-7 if tol > 1e-6 else 1e-10))) <= rank, f'eigenvalues {ev}'


class PsdChol(MatMap):
    name = 'trace1psd-cholesky'
    zero_ok = True
    def nparam(self):
        N0 = self.rank * (2 * self.dim - self.rank + 1) // 2
        return N0 if self.is_real() else 2 * N0 - self.rank
    def call(self, th): return M().to_trace1_psd_cholesky(th, self.dim, self.rank)
    def op(self, th): return f'C01 psdchol {self.dim} {self.rank} {self.rc} {tbits(th)}'
    def out_shape(self): return (self.dim, self.dim)
    def checks(self, th, y, tol):
        yield from psd_checks('trace1psd:cholesky', self.dim, self.rank, self.is_real(), y, tol)


class PsdEns(PsdChol):
    name = 'trace1psd-ensemble'
    zero_ok = False
    def guard_ok(self, th):
        m = (1 if self.is_real() else 2) * self.dim
        b = np.asarray(th)[self.rank:].reshape(self.rank, m)
        return bool(np.all(np.any(b != 0, axis=1)))
    def nparam(self): return self.rank + (1 if self.is_real() else 2) * self.dim * self.rank
    def call(self, th): return M().to_trace1_psd_ensemble(th, self.dim, self.rank)
    def op(self, th): return f'C01 psdens {self.dim} {self.rank} {self.rc} {tbits(th)}'
    def checks(self, th, y, tol):
        yield from psd_checks('trace1psd:ensemble', self.dim, self.rank, self.is_real(), y, tol)


class SymMat(MatMap):
    name = 'symmetric'
    @property
    def zero_ok(self): return not self.n1
    def guard_ok(self, th): return (not self.n1) or bool(np.any(np.asarray(th) != 0))
    def key(self): return f'symmetric-{self.rc}-d{self.dim}-t{int(self.t0)}-n{int(self.n1)}'
    def nparam(self):
        return (self.dim * (self.dim + 1) // 2 if self.is_real() else self.dim * self.dim) - int(self.t0)
    def call(self, th): return M().to_symmetric_matrix(th, self.dim, self.t0, self.n1)
    def op(self, th): return f'C01 sym {self.dim} {self.rc} {int(self.t0)} {int(self.n1)} {tbits(th)}'
    def out_shape(self): return (self.dim, self.dim)
    def checks(self, th, y, tol):
        sc = max(1.0, float(np.abs(y).max()))
        yield 'symmetric:hermitian', float(np.abs(y - herm(y)).max()) == 0 or float(np.abs(y - herm(y)).max()) <= tol * sc * 1e-3, f'|A-A^H| {np.abs(y - herm(y)).max():.3e}'
        if self.is_real():
            yield 'symmetric:real', not np.iscomplexobj(y), 'complex output for the real option'
        if self.t0:
            yield 'symmetric:trace=0', abs(complex(np.trace(y))) <= tol * sc * self.dim, f'trace {np.trace(y)!r}'
        if self.n1:
            yield 'symmetric:norm=1', abs(float(np.linalg.norm(y)) - 1) <= tol, f'Frobenius norm {np.linalg.norm(y)!r}'


def unitary_checks(tag, is_real, y, tol, det_one=True):
    d = y.shape[-1]
    e = float(np.abs(herm(y) @ y - np.eye(d)).max())
    yield f'{tag}:unitary', e <= tol, f'|U^H U - 1| {e:.3e}'
    if is_real:
        yield f'{tag}:real', not np.iscomplexobj(y) or float(np.abs(y.imag).max()) == 0, 'complex output for real parameters'
    if det_one:
        dt = complex(np.linalg.det(y))
        yield f'{tag}:det=1', abs(dt - 1) <= tol * d, f'det {dt!r}'


class SoExp(MatMap):
    name = 'so-exp'
    def bound_for(self, f32): return 10.0 if f32 else 100.0
    def nparam(self): return self.dim * (self.dim - 1) // 2 if self.is_real() else self.dim * self.dim - 1
    def call(self, th): return M().to_special_orthogonal_exp(th, self.dim)
    def op(self, th): return f'C01 soexp {self.dim} {self.rc} {tbits(th)}'
    def out_shape(self): return (self.dim, self.dim)
    def checks(self, th, y, tol):
        sc = max(1.0, float(np.abs(th).max(initial=0)) * self.dim / 10)   # expm error grows with |A|
        yield from unitary_checks('special_orthogonal:exp', self.is_real(), y, tol * sc)


class SoCayley(SoExp):
    name = 'so-cayley'
    def key(self): return f'so-cayley-{self.rc}-d{self.dim}-o{self.order}'
    def call(self, th): return M().to_special_orthogonal_cayley(th, self.dim, self.order)
    def op(self, th): return f'C01 socay {self.dim} {self.order} {self.rc} {tbits(th)}'
    def checks(self, th, y, tol):
        sc = max(1.0, float(np.abs(th).max(initial=0)) * self.dim / 10) * self.order
        # the Cayley transform of a traceless skew-Hermitian matrix is unitary; det = 1 only in the real case
        yield from unitary_checks('special_orthogonal:cayley', self.is_real(), y, tol * sc, det_one=self.is_real())


class StSO(SoExp):
    """`Stiefel(dim, rank, batch_size, method='so-exp'|'so-cayley', dtype)()` — the nn.Module itself: forward() takes the first `rank` columns of the
    SO/SU chart (`_stiefel.py:68-71`, Cayley order = the default 2).  The parameter is assigned to `module.theta` (a batch `shp` becomes
    `batch_size = prod(shp)`); model constant `soColumns` (op `stso`)."""
    name = 'stiefel-so'
    def key(self): return f'stiefel-so-{self.meth}-{self.rc}-d{self.dim}-r{self.rank}'
    def call(self, th):
        import torch
        t = th if isinstance(th, torch.Tensor) else torch.as_tensor(np.asarray(th))
        f32 = t.dtype == torch.float32
        dt = {('r', True): torch.float32, ('r', False): torch.float64, ('c', True): torch.complex64, ('c', False): torch.complex128}[(self.rc, f32)]
        shp = tuple(t.shape[:-1])
        bs = None if len(shp) == 0 else int(np.prod(shp))
        m = M().Stiefel(self.dim, self.rank, bs, 'so-' + self.meth, dtype=dt)
        assert tuple(m.theta.shape) == ((self.nparam(),) if bs is None else (bs, self.nparam())), f'theta shape {tuple(m.theta.shape)}'
        assert m.theta.dtype == (torch.float32 if f32 else torch.float64)
        with torch.no_grad():
            m.theta.data = t.reshape(m.theta.shape)
            y = m()
        return y.reshape(shp + (self.dim, self.rank))
    def op(self, th): return f'C01 stso {self.dim} {self.rank} {self.rc} {self.meth} {tbits(th)}'
    def out_shape(self): return (self.dim, self.rank)
    def checks(self, th, y, tol):
        sc = max(1.0, float(np.abs(th).max(initial=0)) * self.dim / 10) * 2
        yield from stiefel_checks('stiefel:so-' + self.meth, self.is_real(), y, tol * sc)


def stiefel_mat(dim, rank, is_real, th):
    if is_real:
        return th.reshape(dim, rank).astype(np.float64)
    t = th.reshape(2, dim, rank).astype(np.float64)
    return t[0] + 1j * t[1]


def stiefel_checks(tag, is_real, y, tol):
    r = y.shape[-1]
    e = float(np.abs(herm(y) @ y - np.eye(r)).max())
    yield f'{tag}:X^H X=1', e <= tol, f'|X^H X - 1| {e:.3e}'
    if is_real:
        yield f'{tag}:real', not np.iscomplexobj(y) or float(np.abs(y.imag).max()) == 0, 'complex output for real parameters'


class StPolar(MatMap):
    name = 'stiefel-polar'
    zero_ok = False
    def columns(self):
        base = [np.arange(self.dim) * self.rank + c for c in range(self.rank)]
        return base if self.is_real() else [np.concatenate([b, b + self.dim * self.rank]) for b in base]
    def nparam(self): return (1 if self.is_real() else 2) * self.dim * self.rank
    def call(self, th): return M().to_stiefel_polar(th, self.dim, self.rank)
    def op(self, th): return f'C01 stpolar {self.dim} {self.rank} {self.rc} {tbits(th)}'
    def out_shape(self): return (self.dim, self.rank)
    def wellcond(self, th, f32=False):
        return np.linalg.cond(stiefel_mat(self.dim, self.rank, self.is_real(), np.asarray(th, dtype=np.float64))) <= (20 if f32 else 1e3)
    def checks(self, th, y, tol):
        yield from stiefel_checks('stiefel:polar', self.is_real(), y, tol)


class StQR(StPolar):
    name = 'stiefel-qr'
    def accept(self, th, f32, for_tie):
        # LAPACK's Q has orthonormal columns for EVERY theta (zero or dependent columns included); only the comparison of Q itself with the
        # model needs a well-conditioned matrix.  The probe therefore takes every theta, the tie only well-conditioned ones.
        return self.wellcond(th, f32) if for_tie else True
    def call(self, th): return M().to_stiefel_qr(th, self.dim, self.rank)
    def op(self, th): return f'C01 stqr {self.dim} {self.rank} {self.rc} {tbits(th)}'
    def canon(self, th, y):
        """QR is unique up to column phases: fix them by making diag(Q^H M) positive (the model's convention)"""
        Mx = stiefel_mat(self.dim, self.rank, self.is_real(), np.asarray(th, dtype=np.float64))
        dg = np.einsum('ij,ij->j', np.conj(y), Mx)
        ph = np.where(np.abs(dg) > 0, dg / np.abs(dg), 1)
        return y * ph
    def checks(self, th, y, tol):
        yield from stiefel_checks('stiefel:qr', self.is_real(), y, tol)


def chol_l_mat(dim, rank, is_real, th):
    """matL of to_stiefel_choleskyL, rebuilt here only to measure its conditioning (input selection, never a verdict)"""
    th = np.asarray(th, dtype=np.float64)
    N1 = rank * (rank + 1) // 2 - rank
    L = np.eye(rank, dtype=np.complex128)
    il = np.tril_indices(rank, -1)
    if is_real:
        L[il] = th[:N1]
        B = th[N1:].reshape(dim - rank, rank)
    else:
        L[il] = th[:N1] + 1j * th[N1:2 * N1]
        t = th[2 * N1:].reshape(2, dim - rank, rank)
        B = t[0] + 1j * t[1]
    return np.concatenate([L, B], axis=0)


class StCholL(MatMap):
    name = 'stiefel-choleskyL'
    bound = 10.0
    def nparam(self): return (1 if self.is_real() else 2) * (self.dim * self.rank - self.rank * (self.rank + 1) // 2)
    def call(self, th): return M().to_stiefel_choleskyL(th, self.dim, self.rank)
    def op(self, th): return f'C01 stchol {self.dim} {self.rank} {self.rc} {tbits(th)}'
    def out_shape(self): return (self.dim, self.rank)
    def wellcond(self, th, f32=False):
        return np.linalg.cond(chol_l_mat(self.dim, self.rank, self.is_real(), th)) <= (20 if f32 else 1e3)
    def checks(self, th, y, tol):
        yield from stiefel_checks('stiefel:choleskyL', self.is_real(), y, tol)


class StEuler(MatMap):
    name = 'stiefel-euler'
    def key(self): return f'stiefel-euler-{self.rc}-d{self.dim}-r{self.rank}-p{int(self.phase)}'
    def nparam(self):
        n = self.dim * self.rank - self.rank * (self.rank + 1) // 2
        return n if self.is_real() else (2 * n + self.rank if self.phase else 2 * n)
    def call(self, th): return M().to_stiefel_euler(th, self.dim, self.rank, self.phase)
    def op(self, th): return f'C01 steuler {self.dim} {self.rank} {self.rc} {int(self.phase)} {tbits(th)}'
    def out_shape(self): return (self.dim, self.rank)
    def checks(self, th, y, tol):
        yield from stiefel_checks('stiefel:euler', self.is_real(), y, tol)


def all_specs(ctx, rng):
    """the option lattice; quick tier samples it, thorough tier enumerates it"""
    specs = []
    dims = [2, 3, 4, 5, 6]
    for n in ([1, 4] if ctx.quick() else [1, 3, 7]):
        specs += [Softplus(n=n), ExpMap(n=n)]
        lo = float(rng.integers(-5, 5)) / 2
        specs.append(Interval(n=n, lower=lo, upper=lo + float(rng.integers(1, 9)) / 4))
    for d in dims:
        for rc in 'rc':
            m = d if rc == 'r' else 2 * d
            specs += [Ball(n=m, rc=rc), SphereQ(n=m, rc=rc), SphereC(n=(d - 1 if rc == 'r' else 2 * d - 1), rc=rc)]
        specs += [Softmax(n=d, rc='r'), ProbSphere(n=d, rc='r')]
        for rc in 'rc':
            for r in range(1, d + 1):
                specs += [PsdChol(dim=d, rank=r, rc=rc), PsdEns(dim=d, rank=r, rc=rc), StPolar(dim=d, rank=r, rc=rc), StQR(dim=d, rank=r, rc=rc)]
                if d * r - r * (r + 1) // 2 > 0:
                    specs.append(StCholL(dim=d, rank=r, rc=rc))
                    specs.append(StEuler(dim=d, rank=r, rc=rc, phase=False))
                if rc == 'c':
                    specs.append(StEuler(dim=d, rank=r, rc=rc, phase=True))
            for t0 in (False, True):
                for n1 in (False, True):
                    specs.append(SymMat(dim=d, rc=rc, t0=t0, n1=n1))
            specs.append(SoExp(dim=d, rc=rc))
            for r in (sorted({1, d // 2 + 1, d}) if ctx.quick() else range(1, d + 1)):      # rank = d makes the column selection the identity: keep an interior rank
                specs += [StSO(dim=d, rank=r, rc=rc, meth='exp'), StSO(dim=d, rank=r, rc=rc, meth='cayley')]
            for order in (1, 2, 3):
                specs.append(SoCayley(dim=d, rc=rc, order=order))
    return specs


def draw_row(rng, spec, n, B, f32, kind, for_tie=True):
    """one parameter vector of the requested kind, |theta_i| <= B, accepted only if the pre-factor is well conditioned;
    kinds: generic (scale*normal with scale log-uniform in [1e-8, B] | per-entry log-uniform | uniform O(1)),
    hi / lo (every entry within 2% of +B / -B), offset (row constant c in [-B,B] plus a spread of 1.5), signs (|theta_i| within 2% of B, random signs)"""
    def gen(kind):
        if kind == 'hi':
            return B * (1 - 0.02 * rng.random(n))
        if kind == 'lo':
            return -B * (1 - 0.02 * rng.random(n))
        if kind == 'signs':
            return B * (1 - 0.02 * rng.random(n)) * rng.choice([-1.0, 1.0], size=n)
        if kind == 'offset':
            return np.clip(rng.uniform(-B, B) + rng.uniform(-1.5, 1.5, size=n), -B, B)
        if kind == 'zeros':
            # exactly-zero entries: sparse / masked / one-hot parameter vectors, empty columns or blocks, the zero vector
            th = gen('generic' if rng.random() < 0.7 else 'signs').copy()
            pat = rng.integers(0, 5)
            cols = spec.columns()
            if pat == 0:
                th[rng.random(n) < 0.3] = 0
            elif pat == 1 and n > 0:
                a = int(rng.integers(0, n)); th[a:a + int(rng.integers(1, n + 1))] = 0
            elif pat == 2 and cols:
                th[cols[int(rng.integers(0, len(cols)))]] = 0
            elif pat == 3 and n > 0:
                keep = int(rng.integers(0, n)); v = th[keep]; th[:] = 0; th[keep] = v      # one-hot
            else:
                th[:] = 0
            return th
        mode = rng.integers(0, 3)
        if mode == 0:
            s = 10 ** rng.uniform(-8, math.log10(B))
            return np.clip(s * rng.normal(size=n) / 3, -B, B)
        if mode == 1:
            return 10 ** rng.uniform(-3, math.log10(B), size=n) * rng.choice([-1.0, 1.0], size=n)
        return rng.uniform(-1, 1, size=n) * min(B, 3.0)
    plan = [kind] * 8 + (['signs'] * 8 if kind in ('hi', 'lo', 'offset') else []) + ['generic'] * 60
    th = None
    for k in plan:
        th = gen(k)
        if f32:
            th = th.astype(np.float32).astype(np.float64)
        if spec.accept(th, f32, for_tie) and (n == 0 or np.any(th != 0) or (k == 'zeros' and (spec.zero_ok or (isinstance(spec, StQR) and not for_tie)))):
            return th, k
    while True:    # practically never reached: uniform O(1) entries are well conditioned with high probability
        th = rng.uniform(-1, 1, size=n)
        if f32:
            th = th.astype(np.float32).astype(np.float64)
        if spec.accept(th, f32, for_tie):
            return th, 'generic'


def draw_theta(rng, spec, shape, f32, kinds_out=None, for_tie=True):
    """theta of shape `shape + (n,)`.  Batches of >= 2 samples are, with probability 0.6, *extreme batches*: one row near +bound, one row near
    -bound, the others at per-row constant offsets — all inside the bound of the map; otherwise every row is drawn independently
    (60% generic incl. tiny scales down to 1e-8, 25% hi/lo/offset/signs, 15% rows with exactly-zero entries: random masks, zero blocks, zero
    columns of the pre-factor, one-hot vectors, the zero vector — always subject to the guard of the map)."""
    n = spec.nparam()
    B = spec.bound_for(f32)
    cnt = int(np.prod(shape)) if shape else 1
    if cnt >= 2 and rng.random() < 0.6:
        kinds = ['hi', 'lo'] + ['offset'] * (cnt - 2)
        kinds = [kinds[i] for i in rng.permutation(cnt)]
    else:
        kinds = [str(rng.choice(['generic', 'hi', 'lo', 'offset', 'signs', 'zeros'], p=[0.6, 0.06, 0.06, 0.07, 0.06, 0.15])) for _ in range(cnt)]
    rows = []
    for k in range(cnt):
        if spec.zero_ok and kinds[k] == 'generic' and k == 0 and rng.integers(0, 6) == 0 and spec.wellcond(np.zeros(n), f32):
            rows.append(np.zeros(n))
            if kinds_out is not None: kinds_out.append('zero')
            continue
        th, used = draw_row(rng, spec, n, B, f32, kinds[k], for_tie)
        rows.append(th)
        if kinds_out is not None: kinds_out.append(used)
    return np.array(rows).reshape(tuple(shape) + (n,))


BACKENDS = [('np', False), ('np', True), ('torch', False), ('torch', True)]


def to_backend(th, backend, f32):
    import torch
    a = np.ascontiguousarray(th.astype(np.float32 if f32 else np.float64))
    return torch.tensor(a) if backend == 'torch' else a


def batch_shapes(rng):
    return [(), (1,), (int(rng.integers(2, 4)),), (int(rng.integers(2, 3)), int(rng.integers(2, 4)))]


def rel_err(a, b):
    return float(np.max(np.abs(a - b) / np.maximum(1.0, np.abs(b)), initial=0.0))


def to_backend_view(th, backend, f32, noncontig):
    """theta in the backend; `noncontig`: a strided view (every second entry of a twice as long buffer) instead of a contiguous array"""
    import torch
    dt = np.float32 if f32 else np.float64
    if not noncontig:
        a = np.ascontiguousarray(th.astype(dt))
        return torch.tensor(a) if backend == 'torch' else a
    base = np.zeros(th.shape[:-1] + (2 * th.shape[-1],), dtype=dt)
    base[..., ::2] = th
    base[..., 1::2] = 7.0          # must never be read
    if backend == 'torch':
        return torch.tensor(base)[..., ::2]
    return base[..., ::2]


def same_bits(a, b):
    a = to_np(a); b = to_np(b)
    return a.shape == b.shape and a.dtype == b.dtype and bool(np.array_equal(a, b, equal_nan=True))


def run_specs(ctx, specs, rng, per_spec, for_tie=True):
    """shared by correspondence and probe.  For every spec a number of (dtype, batch shape) picks — stratified: one float32 and one float64 pick
    at least, batched shapes preferred — and for every pick ONE theta that is evaluated on BOTH backends.
    Returns records dict(spec, backend, f32, shp, th, y, gid, x, x0, y2, degenerate): `x` is the very object passed to the map (a contiguous array
    or, in a third of the probe picks, a non-contiguous view), `x0` its snapshot before the call, `y2` a second call on the same object."""
    recs = []
    gid = 0
    for spec in specs:
        shapes_ = batch_shapes(rng)
        if per_spec is None:
            pick = [(f, s) for f in (False, True) for s in shapes_]
        else:
            pick = []
            for i in range(per_spec):
                f32 = [True, False][i % 2] if i < 2 else bool(rng.integers(0, 2))
                shp = shapes_[int(rng.choice([2, 3]))] if rng.random() < 0.7 else shapes_[int(rng.integers(0, 4))]
                pick.append((f32, shp))
        for f32, shp in pick:
            kinds = []
            th = draw_theta(rng, spec, shp, f32, kinds, for_tie)
            for k in kinds:
                ctx.count('input-' + k)
            gid += 1
            noncontig = (not for_tie) and rng.random() < 0.33
            degenerate = not all(spec.wellcond(r, f32) for r in th.reshape(-1, spec.nparam()))
            for backend in ('np', 'torch'):
                x = to_backend_view(th, backend, f32, noncontig)
                x0 = to_np(x).copy()
                y = guarded(lambda: to_np(spec.call(x)))
                y2 = None if for_tie else guarded(lambda: to_np(spec.call(x)))
                recs.append(dict(spec=spec, backend=backend, f32=f32, shp=shp, th=th, y=y, gid=gid, x=x, x0=x0, y2=y2,
                                 degenerate=degenerate, noncontig=noncontig))
    return recs


def correspondence(ctx):
    rng = np.random.default_rng(ctx.np_seed)
    specs = all_specs(ctx, rng)
    recs = run_specs(ctx, specs, rng, 2 if ctx.quick() else None)
    if not ctx.quick():
        for _ in range(3):      # thorough: four passes over the full option lattice
            recs += run_specs(ctx, specs, rng, None)
    ops, meta = [], []
    for rec in recs:
        spec, backend, f32, shp, th, y = (rec[k] for k in ('spec', 'backend', 'f32', 'shp', 'th', 'y'))
        n = spec.nparam()
        rows = th.reshape(-1, n)
        osz = int(np.prod(spec.out_shape()))
        for s in range(rows.shape[0]):
            ops.append(spec.op(rows[s]))
            if isinstance(y, str):
                meta.append((spec, backend, f32, shp, rows[s], y))
            elif y.shape != tuple(shp) + spec.out_shape():
                meta.append((spec, backend, f32, shp, rows[s], f'error:shape{y.shape}'))
            else:
                meta.append((spec, backend, f32, shp, rows[s], y.reshape(-1, osz)[s].reshape(spec.out_shape())))
    out = common.run_model(ops)
    worst = {}
    for op, (spec, backend, f32, shp, th, y), line in zip(ops, meta, out):
        tag = f'{spec.name}-{backend}-{"f32" if f32 else "f64"}-b{len(shp)}'
        ctx.count(tag)
        tol = TOL32 if f32 else TOL64
        if isinstance(y, str) or line == 'bad-op':
            ctx.disagree(op[:1500], line[:300], y if isinstance(y, str) else 'array')
            continue
        if f32_subnormal_factor(spec, f32, th):
            ctx.count('float32-subnormal-factor(value tie not applicable)')
            continue
        m = parse_out(line)
        yv = np.asarray(y)
        if isinstance(spec, StQR):
            yv = spec.canon(th, yv)
        yv = yv.reshape(-1).astype(np.complex128)
        m = m.astype(np.complex128)
        if m.shape != yv.shape:
            ctx.disagree(op[:1500], line[:300], f'shape {yv.shape}')
            continue
        err = rel_err(yv, m)
        if not np.isfinite(err) or err > tol:
            k = int(np.argmax(np.abs(yv - m)))
            ctx.disagree(op[:1500], f'entry {k}: {m[k]!r}', f'entry {k}: {yv[k]!r} (rel. diff {err:.3e} > {tol:.0e}; {backend}, {"float32" if f32 else "float64"}, batch {shp})')
        else:
            worst[spec.name] = max(worst.get(spec.name, 0.0), err / tol)
            ctx.agree(op, (spec.key(), backend, f32, len(shp), op))
    for op, line in list(zip(ops, out))[:3]:
        ctx.sample({'op': op[:160], 'model': line[:120]})
    abk_tie(ctx, rng)
    sogen_tie(ctx, rng)
    ctx.extra['worst_error_over_tolerance'] = {k: round(v, 6) for k, v in sorted(worst.items())}
    ctx.extra['tolerance'] = f'rel. (to max(1,|value|)) <= {TOL64} for float64 parameters, {TOL32} for float32 parameters'
    ctx.extra['exhaustive'] = False


# ---------------------------------------------------------------------------
# probe
# ---------------------------------------------------------------------------
def replay_of(spec, backend, f32, shp, th):
    d = {k: v for k, v in spec.__dict__.items()}
    return dict(map=spec.name, options=d, backend=backend, dtype='float32' if f32 else 'float64', batch_shape=list(shp),
                theta=[float(x) for x in np.asarray(th).reshape(-1)])


def f32_underflow(spec, f32, row):
    """float32 only: the normaliser of to_trace1_psd_cholesky squares softplus(theta) — below 1e-19 the square leaves the float32 range"""
    if not (f32 and isinstance(spec, PsdChol) and not isinstance(spec, PsdEns)):
        return False
    row = np.asarray(row, dtype=np.float64)
    sp = np.logaddexp(0.0, row[:spec.rank])
    return float(np.sum(sp ** 2) + np.sum(row[spec.rank:] ** 2)) < 1e-36


def f32_subnormal_factor(spec, f32, row):
    """float32 only: every entry of the Cholesky factor of to_trace1_psd_cholesky (softplus(theta[:rank]) on the diagonal, theta[rank:] below it) is a
    float32 SUBNORMAL number (< 2^-126 ~ 1.2e-38, e.g. softplus(-99) = 1e-43): the entries carry only log2(x / 2^-149) bits, so the normalised output - still
    a trace-one PSD matrix, which the probe keeps checking - differs from the exact value by up to 2^-149/x (1e-2 at 1e-43).  The VALUE tie at 2e-4 is not
    applicable to such a row (found by the seed sweep, VERIF_SEED=10: theta = (-99.6, -99.8, -98.9, 0, 0, 0))."""
    if not (f32 and isinstance(spec, PsdChol) and not isinstance(spec, PsdEns)):
        return False
    row = np.asarray(row, dtype=np.float64)
    big = max(float(np.logaddexp(0.0, row[:spec.rank]).max(initial=0.0)), float(np.abs(row[spec.rank:]).max(initial=0.0)))
    return big < 2.0 ** -126


def cross_backend(ctx, recs):
    """numpy == torch on exactly the same theta (same dtype, same batch)"""
    by = {}
    for rec in recs:
        if rec['degenerate'] and isinstance(rec['spec'], StQR):
            continue    # Q is not unique for dependent / zero columns: only its orthonormality is claimed
        by.setdefault(rec['gid'], {})[rec['backend']] = (rec['spec'], rec['f32'], rec['shp'], rec['th'], rec['y'])
    for gid, d in by.items():
        if 'np' not in d or 'torch' not in d:
            continue
        spec, f32, shp, th, a = d['np']
        b = d['torch'][4]
        if isinstance(a, str) or isinstance(b, str):
            if a != b:
                ctx.fail(f'{spec.name}:numpy==torch', f'{spec.key()}: numpy -> {a if isinstance(a, str) else "array"}, torch -> {b if isinstance(b, str) else "array"} '
                                                      f'({"float32" if f32 else "float64"}, batch {shp})', replay_of(spec, 'np+torch', f32, shp, th))
            continue
        a = np.asarray(a).astype(np.complex128); b = np.asarray(b).astype(np.complex128)
        if a.shape != b.shape:
            ctx.fail(f'{spec.name}:numpy==torch', f'{spec.key()}: shapes {a.shape} vs {b.shape}', replay_of(spec, 'np+torch', f32, shp, th)); continue
        if isinstance(spec, StQR):
            rows = th.reshape(-1, spec.nparam())
            a = np.stack([spec.canon(rows[s], x) for s, x in enumerate(a.reshape((-1,) + spec.out_shape()))])
            b = np.stack([spec.canon(rows[s], x) for s, x in enumerate(b.reshape((-1,) + spec.out_shape()))])
        tol = TOL32 if f32 else TOL64
        if isinstance(spec, (SoExp, SoCayley)):
            tol *= max(1.0, float(np.abs(th).max(initial=0)) * spec.dim / 10) * getattr(spec, 'order', 1)
        fa, fb = np.isfinite(a), np.isfinite(b)
        err = rel_err(a[fa & fb], b[fa & fb]) if np.any(fa & fb) else 0.0
        if not np.array_equal(fa, fb) or err > tol:
            ctx.fail(f'{spec.name}:numpy==torch', f'{spec.key()}: numpy and torch outputs differ (rel. diff {err:.3e}, non-finite entries numpy {int((~fa).sum())} / torch {int((~fb).sum())}; '
                                                  f'{"float32" if f32 else "float64"}, batch {shp})', replay_of(spec, 'np+torch', f32, shp, th))
        else:
            ctx.probe_ok()


def probe_constraints(ctx, rng):
    specs = all_specs(ctx, rng)
    recs = run_specs(ctx, specs, rng, 3 if ctx.quick() else None, for_tie=False)
    if not ctx.quick():
        for _ in range(3):
            recs += run_specs(ctx, specs, rng, None, for_tie=False)
    cross_backend(ctx, recs)
    for rec in recs:
        spec, backend, f32, shp, th, y = (rec[k] for k in ('spec', 'backend', 'f32', 'shp', 'th', 'y'))
        x = rec['x']
        view = 'non-contiguous view' if rec['noncontig'] else 'contiguous'
        # (i) the caller's theta must not be modified, (ii) two calls on the same object agree bit for bit
        if not same_bits(x, rec['x0']):
            ctx.fail(f'{spec.name}:theta-modified', f'{spec.key()} modifies the caller\'s theta in place ({backend}, {"float32" if f32 else "float64"}, batch {shp}, {view})', replay_of(spec, backend, f32, shp, th))
        elif isinstance(y, str) != isinstance(rec['y2'], str) or (not isinstance(y, str) and not same_bits(y, rec['y2'])):
            ctx.fail(f'{spec.name}:not-reproducible', f'{spec.key()}: two calls on the same theta object give different results ({backend}, batch {shp}, {view})', replay_of(spec, backend, f32, shp, th))
        else:
            ctx.probe_ok()
        tol = PROBE32 if f32 else PROBE64
        n = spec.nparam()
        rows = th.reshape(-1, n)
        if isinstance(y, str):
            ctx.fail(f'{spec.name}:raises', f'{spec.key()} raised {y} ({backend}, {"float32" if f32 else "float64"}, batch {shp})', replay_of(spec, backend, f32, shp, th))
            continue
        if y.shape != tuple(shp) + spec.out_shape():
            ctx.fail(f'{spec.name}:shape', f'{spec.key()} returned shape {y.shape}, expected {tuple(shp) + spec.out_shape()}', replay_of(spec, backend, f32, shp, th))
            continue
        ys = y.reshape((-1,) + spec.out_shape())
        for s in range(rows.shape[0]):
            ok_all = True
            yy = ys[s].astype(np.complex128 if np.iscomplexobj(ys[s]) else np.float64)
            if not np.all(np.isfinite(yy)) and f32_underflow(spec, f32, rows[s]):
                ctx.fail('trace1psd-cholesky:float32-underflow', f'{spec.key()} returns non-finite values in float32 when softplus(theta)^2 underflows ({backend}, batch {shp})', replay_of(spec, backend, f32, (), rows[s]))
                continue
            if not np.all(np.isfinite(yy)):
                ctx.fail(f'{spec.name}:finite', f'{spec.key()} returned non-finite values ({backend}, batch {shp})', replay_of(spec, backend, f32, (), rows[s]))
                continue
            for key, ok, what in spec.checks(rows[s], yy, tol):
                if not ok:
                    ok_all = False
                    ctx.fail(key, f'{spec.key()} ({backend}, {"float32" if f32 else "float64"}, batch {shp}): {what}', replay_of(spec, backend, f32, (), rows[s]))
            if ok_all:
                ctx.probe_ok((spec.key(), backend, f32, len(shp), s))
        # batched == stacked per-sample calls (code vs code)
        # (iii) on the SAME array object that was passed to the batched call (no copies in between)
        if shp:
            flat = x.reshape(-1, n)
            per = guarded(lambda: np.stack([to_np(spec.call(flat[s])) for s in range(rows.shape[0])]))
            # matrix-exponential / linear-solve charts: a library that batches expm / inv internally (torch.linalg.matrix_exp on a stack) differs
            # from per-sample calls by ~1e-10; the elementwise maps stay at 1e-12
            tolb = (1e-5 if f32 else (TOL64 if isinstance(spec, SoExp) else 1e-12))
            if rec['degenerate'] and isinstance(spec, StQR):
                tolb = float('inf') if isinstance(per, str) is False else tolb      # non-unique Q: only existence of the per-sample result is required
            if isinstance(per, str) or (np.isfinite(tolb) and rel_err(per.reshape(ys.shape), ys) > tolb):
                ctx.fail(f'{spec.name}:batch==single', f'{spec.key()}: batched call differs from stacked per-sample calls ({backend}, batch {shp})', replay_of(spec, backend, f32, shp, th))
            else:
                ctx.probe_ok()


def module_cases(ctx, rng):
    """(description, constructor kwargs -> module, functional call on module.theta)"""
    import torch
    Mm = M()
    cases = []
    dts = [torch.float32, torch.float64, torch.complex64, torch.complex128]
    rdt = [torch.float32, torch.float64]
    for bs in (None, 1, 3):
        for dt in rdt:
            for meth in ('softplus', 'exp'):
                cases.append((f'PositiveReal({meth},{bs},{dt})', lambda bs=bs, dt=dt, meth=meth: Mm.PositiveReal(bs, meth, dtype=dt),
                              lambda m, meth=meth: (Mm.to_positive_real_softplus if meth == 'softplus' else Mm.to_positive_real_exp)(m.theta)))
            cases.append((f'OpenInterval({bs},{dt})', lambda bs=bs, dt=dt: Mm.OpenInterval(-0.5, 2.0, bs, dtype=dt),
                          lambda m: Mm.to_open_interval(m.theta[0] if m.batch_size is None else m.theta, m.lower, m.upper)))
            for meth in ('softmax', 'sphere'):
                cases.append((f'DiscreteProbability({meth},{bs},{dt})', lambda bs=bs, dt=dt, meth=meth: Mm.DiscreteProbability(4, bs, meth, dtype=dt),
                              lambda m, meth=meth: (Mm.to_discrete_probability_softmax if meth == 'softmax' else Mm.to_discrete_probability_sphere)(m.theta)))
        for dt in dts:
            d = int(rng.integers(2, 6))
            r = int(rng.integers(1, d + 1))
            cases.append((f'Ball({d},{bs},{dt})', lambda d=d, bs=bs, dt=dt: Mm.Ball(d, bs, dtype=dt), lambda m: Mm.to_ball(m.theta, m.is_real)))
            for meth in ('quotient', 'coordinate'):
                cases.append((f'Sphere({d},{meth},{bs},{dt})', lambda d=d, bs=bs, dt=dt, meth=meth: Mm.Sphere(d, bs, meth, dtype=dt),
                              lambda m, meth=meth: (Mm.to_sphere_quotient if meth == 'quotient' else Mm.to_sphere_coordinate)(m.theta, m.is_real)))
            for meth in ('cholesky', 'ensemble'):
                cases.append((f'Trace1PSD({d},{r},{meth},{bs},{dt})', lambda d=d, r=r, bs=bs, dt=dt, meth=meth: Mm.Trace1PSD(d, r, bs, meth, dtype=dt),
                              lambda m, meth=meth: (Mm.to_trace1_psd_cholesky if meth == 'cholesky' else Mm.to_trace1_psd_ensemble)(m.theta, m.dim, m.rank)))
            for t0 in (False, True):
                for n1 in (False, True):
                    cases.append((f'SymmetricMatrix({d},{t0},{n1},{bs},{dt})', lambda d=d, bs=bs, dt=dt, t0=t0, n1=n1: Mm.SymmetricMatrix(d, bs, t0, n1, dtype=dt),
                                  lambda m: Mm.to_symmetric_matrix(m.theta, m.dim, m.is_trace0, m.is_norm1)))
            cases.append((f'SpecialOrthogonal({d},exp,{bs},{dt})', lambda d=d, bs=bs, dt=dt: Mm.SpecialOrthogonal(d, bs, 'exp', dtype=dt),
                          lambda m: Mm.to_special_orthogonal_exp(m.theta, m.dim)))
            co = int(rng.integers(1, 4))
            cases.append((f'SpecialOrthogonal({d},cayley{co},{bs},{dt})', lambda d=d, bs=bs, dt=dt, co=co: Mm.SpecialOrthogonal(d, bs, 'cayley', co, dtype=dt),
                          lambda m: Mm.to_special_orthogonal_cayley(m.theta, m.dim, m.cayley_order)))
            for meth in ('choleskyL', 'qr', 'polar', 'so-exp', 'so-cayley', 'euler'):
                for ph in ((False, True) if meth == 'euler' else (False,)):
                    if meth in ('choleskyL', 'euler') and d * r - r * (r + 1) // 2 == 0 and not (meth == 'euler' and ph and dt in (torch.complex64, torch.complex128)):
                        continue
                    def fn(m, meth=meth):
                        if meth == 'choleskyL': return Mm.to_stiefel_choleskyL(m.theta, m.dim, m.rank)
                        if meth == 'qr': return Mm.to_stiefel_qr(m.theta, m.dim, m.rank)
                        if meth == 'polar': return Mm.to_stiefel_polar(m.theta, m.dim, m.rank)
                        if meth == 'so-exp': return Mm.to_special_orthogonal_exp(m.theta, m.dim)[..., :m.rank]
                        if meth == 'so-cayley': return Mm.to_special_orthogonal_cayley(m.theta, m.dim)[..., :m.rank]
                        return Mm.to_stiefel_euler(m.theta, m.dim, m.rank, m.euler_with_phase)
                    cases.append((f'Stiefel({d},{r},{meth},{ph},{bs},{dt})', lambda d=d, r=r, bs=bs, dt=dt, meth=meth, ph=ph: Mm.Stiefel(d, r, bs, meth, ph, dtype=dt), fn))
    # round 6: the wrappers of _compose.py (positional forwarding only) and the documented defaults (rank=None, dtype defaults, method defaults)
    def same_as(direct):
        def chk(m):
            dm = direct()
            bad = [k for k, v in vars(dm).items() if not k.startswith('_') and not isinstance(v, torch.Tensor) and vars(m).get(k) != v]
            assert type(m) is type(dm) and m.theta.shape == dm.theta.shape and m.theta.dtype == dm.theta.dtype and not bad, f'differs from the direct constructor: {bad}'
        return chk
    for bs in (None, 2):
        for cdt in (torch.complex128, torch.complex64):
            d = int(rng.integers(2, 6)); r = int(rng.integers(1, d + 1)); co = int(rng.integers(1, 4))
            for meth in ('quotient', 'coordinate'):
                cases.append((f'quantum_state({d},{bs},{meth},{cdt})', lambda d=d, bs=bs, meth=meth, cdt=cdt: Mm.quantum_state(d, bs, meth, dtype=cdt),
                              lambda m, meth=meth: (Mm.to_sphere_quotient if meth == 'quotient' else Mm.to_sphere_coordinate)(m.theta, m.is_real),
                              same_as(lambda d=d, bs=bs, meth=meth, cdt=cdt: Mm.Sphere(d, bs, meth, dtype=cdt))))
            for meth in ('cholesky', 'ensemble'):
                for rr in (None, r):
                    cases.append((f'density_matrix({d},{rr},{bs},{meth},{cdt})', lambda d=d, rr=rr, bs=bs, meth=meth, cdt=cdt: Mm.density_matrix(d, rr, bs, meth, dtype=cdt),
                                  lambda m, meth=meth: (Mm.to_trace1_psd_cholesky if meth == 'cholesky' else Mm.to_trace1_psd_ensemble)(m.theta, m.dim, m.rank),
                                  same_as(lambda d=d, rr=rr, bs=bs, meth=meth, cdt=cdt: Mm.Trace1PSD(d, (d if rr is None else rr), bs, meth, dtype=cdt))))
            cases.append((f'quantum_gate({d},{bs},exp,{cdt})', lambda d=d, bs=bs, cdt=cdt: Mm.quantum_gate(d, bs, 'exp', dtype=cdt),
                          lambda m: Mm.to_special_orthogonal_exp(m.theta, m.dim), same_as(lambda d=d, bs=bs, cdt=cdt: Mm.SpecialOrthogonal(d, bs, 'exp', dtype=cdt))))
            cases.append((f'quantum_gate({d},{bs},cayley{co},{cdt})', lambda d=d, bs=bs, cdt=cdt, co=co: Mm.quantum_gate(d, bs, 'cayley', co, dtype=cdt),
                          lambda m: Mm.to_special_orthogonal_cayley(m.theta, m.dim, m.cayley_order),
                          same_as(lambda d=d, bs=bs, cdt=cdt, co=co: Mm.SpecialOrthogonal(d, bs, 'cayley', co, dtype=cdt))))
    d = int(rng.integers(2, 6))
    # every constructor with ONLY its required arguments: the documented defaults (wrappers: complex128; classes: float64; rank=None -> dim; …)
    cases += [
        (f'quantum_state({d})', lambda: Mm.quantum_state(d), lambda m: Mm.to_sphere_quotient(m.theta, False), same_as(lambda: Mm.Sphere(d, None, 'quotient', dtype=torch.complex128))),
        (f'density_matrix({d})', lambda: Mm.density_matrix(d), lambda m: Mm.to_trace1_psd_cholesky(m.theta, d), same_as(lambda: Mm.Trace1PSD(d, d, None, 'cholesky', dtype=torch.complex128))),
        (f'quantum_gate({d})', lambda: Mm.quantum_gate(d), lambda m: Mm.to_special_orthogonal_exp(m.theta, d), same_as(lambda: Mm.SpecialOrthogonal(d, None, 'exp', 2, dtype=torch.complex128))),
        ('PositiveReal()', lambda: Mm.PositiveReal(), lambda m: Mm.to_positive_real_softplus(m.theta), same_as(lambda: Mm.PositiveReal(None, 'softplus', dtype=torch.float64))),
        (f'DiscreteProbability({d})', lambda: Mm.DiscreteProbability(d), lambda m: Mm.to_discrete_probability_softmax(m.theta), same_as(lambda: Mm.DiscreteProbability(d, None, 'softmax', dtype=torch.float64))),
        (f'Ball({d})', lambda: Mm.Ball(d), lambda m: Mm.to_ball(m.theta, True), same_as(lambda: Mm.Ball(d, None, dtype=torch.float64))),
        (f'Sphere({d})', lambda: Mm.Sphere(d), lambda m: Mm.to_sphere_quotient(m.theta, True), same_as(lambda: Mm.Sphere(d, None, 'quotient', dtype=torch.float64))),
        (f'Trace1PSD({d})', lambda: Mm.Trace1PSD(d), lambda m: Mm.to_trace1_psd_cholesky(m.theta, d), same_as(lambda: Mm.Trace1PSD(d, d, None, 'cholesky', dtype=torch.float64))),
        (f'Trace1PSD({d},None,2,ensemble)', lambda: Mm.Trace1PSD(d, None, 2, 'ensemble'), lambda m: Mm.to_trace1_psd_ensemble(m.theta, d), same_as(lambda: Mm.Trace1PSD(d, d, 2, 'ensemble', dtype=torch.float64))),
        (f'SymmetricMatrix({d})', lambda: Mm.SymmetricMatrix(d), lambda m: Mm.to_symmetric_matrix(m.theta, d, m.is_trace0, m.is_norm1), same_as(lambda: Mm.SymmetricMatrix(d, None, False, False, dtype=torch.float64))),
        (f'SpecialOrthogonal({d})', lambda: Mm.SpecialOrthogonal(d), lambda m: Mm.to_special_orthogonal_exp(m.theta, d), same_as(lambda: Mm.SpecialOrthogonal(d, None, 'exp', 2, dtype=torch.float64))),
        (f'Stiefel({d},1)', lambda: Mm.Stiefel(d, 1), lambda m: Mm.to_stiefel_polar(m.theta, d, 1), same_as(lambda: Mm.Stiefel(d, 1, None, 'polar', False, dtype=torch.float64))),
    ]
    return cases


def probe_modules(ctx, rng):
    """nn.Module wrappers: forward() == functional map on module.theta (exactly), outputs satisfy the Stiefel/… constraints"""
    import torch
    cases = module_cases(ctx, rng)
    if ctx.quick():
        extra = [c for c in cases if len(c) > 3]      # wrappers / defaults: always
        cases = [c for c in cases if len(c) == 3]
        idx = rng.choice(len(cases), size=min(len(cases), 260), replace=False)
        cases = [cases[i] for i in sorted(idx)] + extra
    for case in cases:
        desc, mk, fn = case[:3]
        torch.manual_seed(int(rng.integers(1 << 30)))
        m = guarded(mk)
        if isinstance(m, str):
            ctx.fail('module:constructor', f'{desc} raised {m}', dict(module=desc)); continue
        if len(case) > 3:
            try:
                case[3](m); ctx.probe_ok(('module-defaults', desc))
            except AssertionError as e:
                ctx.fail('module:wrapper!=class', f'{desc}: {e}', dict(module=desc)); continue
        with torch.no_grad():
            a = guarded(lambda: m())
            b = guarded(lambda: fn(m))
        if isinstance(a, str) or isinstance(b, str):
            ctx.fail('module:forward-raises', f'{desc}: forward -> {a if isinstance(a, str) else "ok"}, functional -> {b if isinstance(b, str) else "ok"}',
                     dict(module=desc, theta=[float(x) for x in m.theta.detach().reshape(-1)]))
            continue
        if a.shape != b.shape or a.dtype != b.dtype or not torch.equal(a, b):
            ctx.fail('module:forward!=functional', f'{desc}: forward() differs from the functional map on module.theta', dict(module=desc, theta=[float(x) for x in m.theta.detach().reshape(-1)]))
        else:
            ctx.probe_ok(('module', desc))
        # (iv) the NumPy functional map on the parameter's own memory (module.theta.detach().numpy() shares it), then the module again
        import types
        th0 = m.theta.detach().clone()
        ns = types.SimpleNamespace(**{k: (float(v) if isinstance(v, torch.Tensor) and v.ndim == 0 else v) for k, v in vars(m).items() if not k.startswith('_')})
        ns.theta = m.theta.detach().numpy()
        guarded(lambda: fn(ns))
        with torch.no_grad():
            c = guarded(lambda: m())
        if not torch.equal(m.theta.detach(), th0):
            ctx.fail('module:theta-modified', f'{desc}: the NumPy functional map called on module.theta.detach().numpy() changed the module\'s parameters',
                     dict(module=desc, theta=[float(x) for x in th0.reshape(-1)]))
        elif isinstance(c, str) or not torch.equal(c, a):
            ctx.fail('module:history-dependent', f'{desc}: forward() after a NumPy functional call on the shared parameter memory differs from forward() before it',
                     dict(module=desc, theta=[float(x) for x in th0.reshape(-1)]))
        else:
            ctx.probe_ok()
        want = {torch.float32: torch.float32, torch.float64: torch.float64, torch.complex64: torch.complex64, torch.complex128: torch.complex128}
        dt = getattr(m, 'dtype', None)
        if dt is not None and a.dtype != want[dt]:
            ctx.fail('module:dtype', f'{desc}: output dtype {a.dtype}', dict(module=desc))


def probe_compose(ctx, rng):
    """QuantumChannel / SeparableDensityMatrix: complete Kraus sets, CPTP Choi operators, convex mixtures of product projectors;
    tied to the model's krausOfStiefel/choiOfKraus/separableDM as well"""
    import torch, numqi
    Mm = M()
    ops, expect, tols = [], [], []
    # systematic: every Stiefel method x (d_in, d_out) incl. d_in != d_out x every admissible choi_rank 1..d_in*d_out; batch / dtype / phase alternate
    chan_cfgs = []
    dimsets = [(2, 2), (2, 3), (3, 2)] + ([] if ctx.quick() else [(3, 3), (2, 4), (4, 2)])
    for meth in ['qr', 'polar', 'so-exp', 'so-cayley', 'euler', 'choleskyL']:
        for din, dout in dimsets:
            for cr in range(1, din * dout + 1):
                if cr * dout >= din:
                    chan_cfgs.append((meth, din, dout, cr))
    # round 6: the documented default `choi_rank=None` (-> dim_in*dim_out), and the all-defaults constructor (method 'qr', kind 'kraus', complex128)
    for din, dout in dimsets:
        for meth in ['qr', 'polar', 'so-exp', 'euler']:
            chan_cfgs.append((meth, din, dout, None))
    for rep, (meth, din, dout, cr_arg) in enumerate(chan_cfgs):
        cr = din * dout if cr_arg is None else cr_arg
        bs = [None, 2][rep % 2]
        dt = [torch.complex128, torch.complex64][(rep // 2) % 2]
        all_defaults = cr_arg is None and meth == 'qr'
        if all_defaults:
            bs, dt = None, torch.complex128
        tol = PROBE64 if dt == torch.complex128 else PROBE32
        for kind in ('kraus', 'choi'):
            torch.manual_seed(int(rng.integers(1 << 30)))
            desc = f'QuantumChannel({din},{dout},{cr_arg},{bs},{meth},{kind},{dt})' + ('[defaults]' if all_defaults and kind == 'kraus' else '')
            if all_defaults and kind == 'kraus':
                ch = guarded(lambda: Mm.QuantumChannel(din, dout))
            else:
                ch = guarded(lambda: Mm.QuantumChannel(din, dout, cr_arg, bs, meth, euler_with_phase=(rep % 4 == 0), return_kind=kind, dtype=dt))
            if not isinstance(ch, str) and tuple(ch.manifold.theta.shape[-1:]) != (2 * cr * dout * din,) and meth in ('qr', 'polar'):
                ctx.fail('channel:default-choi-rank', f'{desc}: Stiefel parameter count {tuple(ch.manifold.theta.shape)} is not that of choi_rank={cr}', dict(module=desc)); continue
            if isinstance(ch, str):
                ctx.fail('channel:constructor', f'{desc} raised {ch}', dict(module=desc)); continue
            # exactly-zero parameters (zero vector, random mask, an empty column of the QR pre-factor): legal for every method except polar
            if meth != 'polar' and rng.random() < 0.5:
                with torch.no_grad():
                    t = ch.manifold.theta.data
                    pat = int(rng.integers(0, 3))
                    if pat == 0:
                        t.zero_(); desc += '[theta=0]'
                    elif pat == 1 and meth == 'qr':
                        tv = t.view(*t.shape[:-1], 2, cr * dout, din)
                        tv[..., :, int(rng.integers(0, din))] = 0; desc += '[zero column]'
                    else:
                        t[..., torch.tensor(rng.random(t.shape[-1]) < 0.3)] = 0; desc += '[masked]'
            with torch.no_grad():
                out = guarded(lambda: ch())
                X = guarded(lambda: ch.manifold())
            if isinstance(out, str) or isinstance(X, str):
                ctx.fail('channel:forward-raises', f'{desc}: {out if isinstance(out, str) else X}', dict(module=desc)); continue
            o = to_np(out).astype(np.complex128)
            Xn = to_np(X).astype(np.complex128).reshape((-1, cr * dout, din))
            o = o.reshape((Xn.shape[0],) + o.shape[(0 if bs is None else 1):])
            for s in range(Xn.shape[0]):
                rp = dict(module=desc, stiefel_point=[str(z) for z in Xn[s].reshape(-1)])
                if kind == 'kraus':
                    Ks = o[s]
                    if Ks.shape != (cr, dout, din):
                        ctx.fail('channel:kraus-shape', f'{desc}: shape {Ks.shape}', rp); continue
                    e = np.abs(np.einsum('soi,soj->ij', Ks.conj(), Ks) - np.eye(din)).max()
                    if e > tol:
                        ctx.fail('channel:kraus-complete', f'{desc}: |sum K^H K - 1| = {e:.3e}', rp)
                    else:
                        ctx.probe_ok(('kraus', desc, s))
                    ops.append(f'C01 kraus {din} {dout} {cr} {cbits(Xn[s])}'); expect.append(Ks.reshape(-1)); tols.append(TOL64 if dt == torch.complex128 else TOL32)
                else:
                    C = o[s]
                    if C.shape != (dout, din, dout, din):
                        ctx.fail('channel:choi-shape', f'{desc}: shape {C.shape}', rp); continue
                    Cm = C.reshape(dout * din, dout * din)
                    ev = np.linalg.eigvalsh((Cm + Cm.conj().T) / 2)
                    e1 = np.abs(Cm - Cm.conj().T).max()
                    e2 = np.abs(np.einsum('oiok->ik', C) - np.eye(din)).max()
                    if e1 > tol or ev.min() < -tol or e2 > tol:
                        ctx.fail('channel:choi-cptp', f'{desc}: |C-C^H|={e1:.2e}, min eig={ev.min():.2e}, |Tr_out C - 1|={e2:.2e}', rp)
                    else:
                        ctx.probe_ok(('choi', desc, s))
                    ops.append(f'C01 choi {din} {dout} {cr} {cbits(Xn[s])}'); expect.append(C.reshape(-1)); tols.append(TOL64 if dt == torch.complex128 else TOL32)
    for rep in range(4 if ctx.quick() else 20):
        dA, dB = int(rng.integers(2, 4)), int(rng.integers(2, 4))
        nc = int(rng.integers(2, 6))
        bs = [None, 2][rep % 2]
        dt = [torch.complex128, torch.complex64][(rep // 2) % 2]
        nc_arg = nc
        if rep % 4 in (0, 3):       # round 6: the documented default num_cha=None (-> 2*dimA*dimB); rep 0: the all-defaults constructor
            nc_arg, nc = None, 2 * dA * dB
        tol = PROBE64 if dt == torch.complex128 else PROBE32
        torch.manual_seed(int(rng.integers(1 << 30)))
        desc = f'SeparableDensityMatrix({dA},{dB},{nc_arg},{bs},{dt})'
        if rep % 4 == 0:
            sm = guarded(lambda: Mm.SeparableDensityMatrix(dA, dB))
        else:
            sm = guarded(lambda: Mm.SeparableDensityMatrix(dA, dB, nc_arg, bs, dtype=dt))
        if not isinstance(sm, str) and sm.num_cha != nc:
            ctx.fail('separable:default-num-cha', f'{desc}: num_cha = {sm.num_cha}, documented default 2*dimA*dimB = {nc}', dict(module=desc)); continue
        if isinstance(sm, str):
            ctx.fail('separable:constructor', f'{desc} raised {sm}', dict(module=desc)); continue
        with torch.no_grad():
            out = guarded(lambda: sm())
        if isinstance(out, str):
            ctx.fail('separable:forward-raises', f'{desc}: {out}', dict(module=desc)); continue
        o = to_np(out).astype(np.complex128)
        nb = 1 if bs is None else bs
        o = o.reshape((nb, dA, dB, dA, dB))
        tp = to_np(sm.manifold_p.theta).astype(np.float64).reshape(nb, nc)
        ta = to_np(sm.manifold_psiA.theta).astype(np.float64).reshape(nb, nc, 2 * dA)
        tb = to_np(sm.manifold_psiB.theta).astype(np.float64).reshape(nb, nc, 2 * dB)
        for s in range(nb):
            R = o[s].reshape(dA * dB, dA * dB)
            # membership: explicit convex mixture of product projectors built from the sub-manifolds' own outputs
            p = np.exp(tp[s] - tp[s].max()); p /= p.sum()
            a = ta[s] / np.linalg.norm(ta[s], axis=1, keepdims=True); a = a[:, :dA] + 1j * a[:, dA:]
            b = tb[s] / np.linalg.norm(tb[s], axis=1, keepdims=True); b = b[:, :dB] + 1j * b[:, dB:]
            want = sum(p[k] * np.kron(np.outer(a[k], a[k].conj()), np.outer(b[k], b[k].conj())) for k in range(nc))
            e = np.abs(R - want).max()
            rp = dict(module=desc, theta_p=tp[s].tolist(), theta_A=ta[s].reshape(-1).tolist(), theta_B=tb[s].reshape(-1).tolist())
            if e > tol or abs(np.trace(R) - 1) > tol:
                ctx.fail('separable:mixture', f'{desc}: output differs from sum_k p_k |a_k><a_k| x |b_k><b_k| by {e:.3e}; trace {np.trace(R)!r}', rp)
            else:
                ctx.probe_ok(('sep', desc, s))
            ops.append(f'C01 sepdm {dA} {dB} {nc} {tbits(tp[s])} {tbits(ta[s])} {tbits(tb[s])}'); expect.append(o[s].reshape(-1)); tols.append(TOL64 if dt == torch.complex128 else TOL32)
    # tie of the composition layer (reshape / einsum index order) to the model
    if ops:
        out = common.run_model(ops)
        for op, e, t, line in zip(ops, expect, tols, out):
            ctx.count('compose-' + op.split(' ')[1])
            if line == 'bad-op':
                ctx.disagree(op[:1500], line, 'array'); continue
            m = parse_out(line).astype(np.complex128)
            err = rel_err(e, m) if m.shape == e.shape else float('inf')
            if err > t:
                ctx.disagree(op[:1500], line[:200], f'rel. diff {err:.3e}')
            else:
                ctx.agree(op, ('compose', op))


# ---------------------------------------------------------------------------
# _ABk.py: symmetric-extension Hermitian manifolds — pure index bookkeeping, exact tie on integer parameters
# ---------------------------------------------------------------------------
def _ints(a):
    return ';'.join(str(int(x)) for x in np.asarray(a).reshape(-1)) or '-'


def _gints(z):
    z = np.asarray(z).reshape(-1)
    return ';'.join(f'{int(round(v.real))},{int(round(v.imag))}' for v in z)


def sogen_tie(ctx, rng):
    """the generator (skew-Hermitian matrix) that to_special_orthogonal_exp hands to scipy.linalg.expm / torch.linalg.matrix_exp — captured by wrapping
    the library routine during the call — against the model's `soGenerator` (op `sogen`): ties the placement `theta -> generator` on its own, before
    the matrix exponential"""
    import torch, scipy.linalg
    ops, expect = [], []
    cap = []
    skipped = [0]
    o_np, o_t = scipy.linalg.expm, torch.linalg.matrix_exp
    def w_np(a, *k, **kw):
        cap.append(np.array(a)); return o_np(a, *k, **kw)
    def w_t(a, *k, **kw):
        cap.append(a.detach().cpu().numpy().copy()); return o_t(a, *k, **kw)
    try:
        scipy.linalg.expm, torch.linalg.matrix_exp = w_np, w_t
        for d in ([2, 3, 4, 5] if ctx.quick() else [2, 3, 4, 5, 6, 7]):
            for rc in 'rc':
                n = d * (d - 1) // 2 if rc == 'r' else d * d - 1
                for backend in ('np', 'torch'):
                    th = rng.normal(size=(2, n)) * float(10 ** rng.uniform(-1, 1))
                    del cap[:]
                    y = guarded(lambda: M().to_special_orthogonal_exp(to_backend(th, backend, False), d))
                    # however the library calls the routine (once per sample, once on the stack, …): all captured arguments, in call order
                    try:
                        mats = np.concatenate([np.asarray(c).reshape(-1, d, d) for c in cap]) if cap else np.zeros((0, d, d))
                    except ValueError:
                        mats = np.zeros((0, d, d))
                    if not isinstance(y, str) and mats.shape[0] != 2:
                        # the generator did not pass through the wrapped routine in a recognisable form (other entry point, own Padé code, …):
                        # not a property of the map — the tie is not applicable for this call
                        skipped[0] += 1
                        continue
                    for s_ in range(2):
                        ops.append(f'C01 sogen {d} {rc} {tbits(th[s_])}')
                        expect.append((backend, y if isinstance(y, str) else mats[s_]))
    finally:
        scipy.linalg.expm, torch.linalg.matrix_exp = o_np, o_t
    if skipped[0]:
        for _ in range(skipped[0]):
            ctx.count('sogen-capture-unavailable')
        ctx.note(f'sogen tie: for {skipped[0]} calls the generator did not reach scipy.linalg.expm / torch.linalg.matrix_exp in a recognisable form; '
                 'the placement is then covered by the soexp / socay / stso ties and the theorems placement_so_* only')
    out = common.run_model(ops) if ops else []
    for op, (backend, e), line in zip(ops, expect, out):
        ctx.count('sogen-' + backend)
        if isinstance(e, str) or line == 'bad-op':
            ctx.disagree(op[:600], line[:200], e if isinstance(e, str) else 'array'); continue
        m = parse_out(line).astype(np.complex128)
        ev = np.asarray(e).reshape(-1).astype(np.complex128)
        err = rel_err(ev, m) if m.shape == ev.shape else float('inf')
        if not (err <= TOL64):
            ctx.disagree(op[:600], line[:200], f'generator handed to expm differs: rel. diff {err:.3e} ({backend})')
        else:
            ctx.agree(op, ('sogen', backend, op))


def abk_cases(ctx):
    cases = [(1, 2, 1), (2, 2, 1), (2, 2, 2), (1, 2, 3), (2, 3, 2), (3, 2, 2), (2, 2, 3)]
    if not ctx.quick():
        cases += [(1, 3, 3), (3, 3, 2), (2, 2, 4), (1, 2, 4), (3, 2, 3)]
    return cases


def abk_tie(ctx, rng):
    import torch, numqi
    A = numqi.manifold._ABk
    ops, expect = [], []
    for dimA, dimB, kext in abk_cases(ctx):
        N = dimA * dimB ** kext
        d = dimA * dimB
        for dt in (torch.float64, torch.float32):
            m = numqi.manifold.ABkHermitian(dimA, dimB, kext, dtype=dt)
            with torch.no_grad():
                m.theta_sym.data = torch.tensor(rng.integers(-9, 10, size=m.theta_sym.shape), dtype=dt)
                m.theta_skew_sym.data = torch.tensor(rng.integers(-9, 10, size=m.theta_skew_sym.shape), dtype=dt)
                out = to_np(m())
            ops.append(f'C01 abkh {N} {_ints(to_np(m.index_sym))} {_ints(to_np(m.index_skew))} {_ints(to_np(m.factor_skew))} '
                       f'{_ints(to_np(m.theta_sym))} {_ints(to_np(m.theta_skew_sym))}')
            expect.append(_gints(out))
            m2 = numqi.manifold.ABk2localHermitian(dimA, dimB, kext, dtype=dt)
            with torch.no_grad():
                m2.matAB_real.data = torch.tensor(rng.integers(-9, 10, size=(d, d)), dtype=dt)
                out2 = to_np(m2())
            ops.append(f'C01 abk2 {d} {N} {_ints(to_np(m2.coeff_sym))} {_ints(to_np(m2.index_sym))} {_ints(to_np(m2.coeff_skew_sym))} '
                       f'{_ints(to_np(m2.index_skew_sym))} {_ints(to_np(m2.matAB_real))}')
            expect.append(_gints(out2))
            # round 6: the same forward pass against the TABLE-FREE model (sum over the B copies of the embedded H_AB; only dimA, dimB, kext and the
            # parameter matrix cross the protocol — ABk_2local_symmetry_index / ABk_2local_skew_symmetry_index / unique_index_set are not consulted)
            ops.append(f'C01 abk2sum {dimA} {dimB} {kext} {_ints(to_np(m2.matAB_real))}')
            expect.append(_gints(out2))
            ops.append(f'C01 abktoab {d} {_ints(to_np(m2.matAB_real))}')
            expect.append(_gints(m2.to_AB()))
        mat = np.arange(N * N, dtype=np.int64).reshape(N, N)
        for i in range(kext):
            for j in range(i + 1, kext):
                P = A.ABk_permutate(mat, i, j, dimA, dimB, kext)
                ops.append(f'C01 abkperm {dimA} {dimB} {kext} {i} {j}')
                # ret[r,c] = mat[pi r, pi c]: the row permutation is read off the first column, and must explain the whole matrix
                pi = P[:, 0] // N
                expect.append(_ints(pi) if np.array_equal(P, mat[np.ix_(pi, pi)]) else 'not-a-simultaneous-row-column-permutation')
    g = guarded(lambda: numqi.manifold.ABk2localHermitian(2, 2, 0))
    ops.append('C01 abk2sum 2 2 0 ' + _ints(np.zeros((4, 4))))
    expect.append(g if isinstance(g, str) else 'module')
    out = common.run_model(ops)
    for op, e, line in zip(ops, expect, out):
        ctx.count('abk-' + op.split(' ')[1])
        if e == line:
            ctx.agree(op[:300], ('abk', op[:300]))
        else:
            ctx.disagree(op[:1500], line[:400], e[:400])


def abk_probe(ctx, rng):
    """ABkHermitian: Hermitian and invariant under every exchange of two B copies; ABk2localHermitian: Hermitian and equal to the sum over the
    B copies of H_AB (to_AB) embedded; plus the table hypotheses of the Lean theorems, checked exactly on the live tables"""
    import torch, numqi
    A = numqi.manifold._ABk
    for dimA, dimB, kext in abk_cases(ctx):
        N = dimA * dimB ** kext
        desc = f'({dimA},{dimB},{kext})'
        pairs = [(i, j) for i in range(kext) for j in range(i + 1, kext)]
        m = numqi.manifold.ABkHermitian(dimA, dimB, kext)
        H = to_np(m())
        isym, iskew, fac = to_np(m.index_sym), to_np(m.index_skew), to_np(m.factor_skew)
        rp = dict(module=f'ABkHermitian{desc}', theta_sym=to_np(m.theta_sym).tolist(), theta_skew_sym=to_np(m.theta_skew_sym).tolist())
        if np.abs(H - H.conj().T).max() > 0:
            ctx.fail('abk:hermitian', f'ABkHermitian{desc}() is not Hermitian (|H-H^H| = {np.abs(H - H.conj().T).max():.3e})', rp)
        else:
            ctx.probe_ok(('abkh', desc))
        for i, j in pairs:
            if np.abs(H - A.ABk_permutate(H, i, j, dimA, dimB, kext)).max() > 0:
                ctx.fail('abk:permutation-invariant', f'ABkHermitian{desc}() changes under the exchange of B copies {i},{j}', rp)
            else:
                ctx.probe_ok()
        hyp = (np.array_equal(isym, isym.T) and np.array_equal(iskew, iskew.T) and np.array_equal(fac, -fac.T)
               and all(np.array_equal(t, A.ABk_permutate(t, i, j, dimA, dimB, kext)) for t in (isym, iskew, fac) for i, j in pairs))
        if not hyp:
            ctx.fail('abk:table-hypotheses', f'get_ABk_symmetry_index{desc}: tables are not (anti)symmetric / permutation invariant (hypotheses of abkHermitian_hermitian)', dict(dimA=dimA, dimB=dimB, kext=kext))
        else:
            ctx.probe_ok()
        m2 = numqi.manifold.ABk2localHermitian(dimA, dimB, kext)
        H2 = to_np(m2())
        HAB = m2.to_AB()
        rp = dict(module=f'ABk2localHermitian{desc}', matAB_real=to_np(m2.matAB_real).tolist())
        t0 = np.kron(HAB, np.eye(dimB ** (kext - 1)))
        want = t0 + sum(A.ABk_permutate(t0, 0, x, dimA, dimB, kext) for x in range(1, kext))
        if np.abs(H2 - H2.conj().T).max() > 1e-12 or np.abs(H2 - want).max() > 1e-10:
            ctx.fail('abk2local:sum-of-embeddings', f'ABk2localHermitian{desc}(): |H-H^H| = {np.abs(H2 - H2.conj().T).max():.2e}, |H - sum_i H_AB(i)| = {np.abs(H2 - want).max():.2e}', rp)
        else:
            ctx.probe_ok(('abk2', desc))
        for i, j in pairs:
            dlt = float(np.abs(H2 - A.ABk_permutate(H2, i, j, dimA, dimB, kext)).max())
            if dlt > 1e-12:
                ctx.fail('abk2local:permutation-invariant', f'ABk2localHermitian{desc}() changes by {dlt:.2e} under the exchange of B copies {i},{j}', rp)
            else:
                ctx.probe_ok()
        cS, iS, cK, iK = (to_np(x) for x in (m2.coeff_sym, m2.index_sym, m2.coeff_skew_sym, m2.index_skew_sym))
        if not (np.array_equal(cS[iS], cS[iS.T]) and np.array_equal(cK[iK], -cK[iK.T])):
            ctx.fail('abk2local:table-hypotheses', f'ABk_2local_*_symmetry_index{desc}: coefficient rows not (anti)symmetric under transposition (hypotheses of abk2local_hermitian)', dict(dimA=dimA, dimB=dimB, kext=kext))
        else:
            ctx.probe_ok()


def probe_sym2psd(ctx, rng):
    """symmetric_matrix_to_trace1PSD (exp(A)/tr exp(A), computed with a spectral shift): lands on the trace-one PSD matrices and equals the independent
    oracle V diag(softmax(w)) V^H from numpy.linalg.eigh; dims 1 (constant branch), 2..5 (eigvalsh branch), 6,7 (eigsh branch); documented batch
    dimensions; numpy and torch; real symmetric and complex Hermitian.  Probe only (the map is expm on LAPACK eigenvalues: nothing cheap to model)."""
    import torch
    for d in ([1, 2, 5, 6] if ctx.quick() else [1, 2, 3, 4, 5, 6, 7]):
        for cplx in (False, True):
            for shp in ((), (3,), (2, 2)):
                for backend in ('np', 'torch'):
                    A = rng.normal(size=shp + (d, d)) * float(10 ** rng.uniform(-2, 1.3))
                    if cplx:
                        A = A + 1j * rng.normal(size=shp + (d, d))
                    A = (A + np.conj(np.swapaxes(A, -1, -2))) / 2
                    x = torch.tensor(A) if backend == 'torch' else A.copy()
                    y = guarded(lambda: to_np(M().symmetric_matrix_to_trace1PSD(x)))
                    rp = dict(fn='symmetric_matrix_to_trace1PSD', backend=backend, shape=list(A.shape), matA=[str(z) for z in A.reshape(-1)])
                    if isinstance(y, str) or y.shape != A.shape:
                        ctx.fail('sym2psd:raises', f'symmetric_matrix_to_trace1PSD raised/shape {y if isinstance(y, str) else y.shape} on a {"Hermitian" if cplx else "symmetric"} batch {A.shape} ({backend})', rp); continue
                    if not same_bits(x, A):
                        ctx.fail('sym2psd:input-modified', f'symmetric_matrix_to_trace1PSD modified its argument ({backend}, {A.shape})', rp); continue
                    w, V = np.linalg.eigh(A)
                    e = np.exp(w - w.max(axis=-1, keepdims=True)); e = e / e.sum(axis=-1, keepdims=True)
                    want = np.einsum('...ik,...k,...jk->...ij', V, e, V.conj())
                    ok = True
                    for Y, W in zip(y.reshape(-1, d, d), want.reshape(-1, d, d)):
                        for key, good, what in psd_checks('sym2psd', d, d, not cplx, Y, PROBE64):
                            if not good:
                                ctx.fail(key, f'symmetric_matrix_to_trace1PSD ({backend}, d={d}, batch {shp}): {what}', rp); ok = False
                        if float(np.abs(Y - W).max()) > 1e-9:
                            ctx.fail('sym2psd:value', f'symmetric_matrix_to_trace1PSD ({backend}, d={d}, batch {shp}) differs from exp(A)/tr exp(A) by {np.abs(Y - W).max():.3e}', rp); ok = False
                    if ok:
                        ctx.probe_ok(('sym2psd', d, cplx, shp, backend))


def probe_buffer_reuse(ctx):
    """hardening class "buffer reuse across calls" (harness/mani_reuse.py): r1 = f(A); r2 = f(B), B != A of the same shape => r1 unchanged bit for bit, no
    shared memory, r1 still on the manifold; then f(A) -> result overwritten in place -> f(B), f(A) unchanged.  Deterministic (own generator), quick tier.
    Covered: every to_* map (numpy and torch, unbatched and batch (2,)), symmetric_matrix_to_trace1PSD, forward() of two modules of the same shape for
    every class of numqi.manifold incl. QuantumChannel, SeparableDensityMatrix, ABkHermitian, ABk2localHermitian (interleaved calls)."""
    import torch
    from . import mani_reuse as MR
    rng = np.random.default_rng(20260930)
    Mm = M()
    specs = [Softplus(n=3), ExpMap(n=3), Interval(n=3, lower=-0.5, upper=2.0), Ball(n=3, rc='r'), Ball(n=4, rc='c'), SphereQ(n=3, rc='r'), SphereQ(n=4, rc='c'),
             SphereC(n=2, rc='r'), SphereC(n=3, rc='c'), Softmax(n=3, rc='r'), ProbSphere(n=3, rc='r')]
    for rc in 'rc':
        specs += [PsdChol(dim=3, rank=2, rc=rc), PsdEns(dim=3, rank=2, rc=rc), StPolar(dim=3, rank=2, rc=rc), StQR(dim=3, rank=2, rc=rc),
                  StCholL(dim=3, rank=2, rc=rc), StEuler(dim=3, rank=2, rc=rc, phase=False), SymMat(dim=3, rc=rc, t0=False, n1=False),
                  SymMat(dim=3, rc=rc, t0=True, n1=True), SoExp(dim=3, rc=rc), SoCayley(dim=3, rc=rc, order=2), StSO(dim=3, rank=2, rc=rc, meth='exp')]
    specs.append(StEuler(dim=3, rank=2, rc='c', phase=True))
    for spec in specs:
        n = spec.nparam()
        for shp in ((), (2,)):
            A = rng.normal(size=shp + (n,)); B = rng.normal(size=shp + (n,))
            for backend in ('np', 'torch'):
                def valid(r, spec=spec, A=A):
                    y = to_np(r).reshape((-1,) + spec.out_shape())
                    for row, yy in zip(A.reshape(-1, spec.nparam()), y):
                        for key, ok, what in spec.checks(row, yy.astype(np.complex128 if np.iscomplexobj(yy) else np.float64), PROBE64):
                            if not ok:
                                return f'{key}: {what}'
                    return None
                MR.check(ctx, f'{spec.name}[{spec.key()},{backend},batch{list(shp)}]',
                         lambda spec=spec, A=A, backend=backend: spec.call(to_backend(A, backend, False)),
                         lambda spec=spec, B=B, backend=backend: spec.call(to_backend(B, backend, False)), valid,
                         history=[dict(map=spec.name, options=dict(spec.__dict__), backend=backend, theta=A.reshape(-1).tolist()),
                                  dict(map=spec.name, options=dict(spec.__dict__), backend=backend, theta=B.reshape(-1).tolist())])
    for d in (1, 3, 5):       # d >= 6 goes through scipy's eigsh with a random start vector: not bit-repeatable, hence not usable for a bitwise history
        for backend in ('np', 'torch'):
            H = [(lambda a: (a + a.conj().T) / 2)(rng.normal(size=(d, d)) + 1j * rng.normal(size=(d, d))) for _ in range(2)]
            conv = (lambda a: torch.tensor(a)) if backend == 'torch' else (lambda a: a.copy())
            MR.check(ctx, f'symmetric_matrix_to_trace1PSD[d={d},{backend}]', lambda: Mm.symmetric_matrix_to_trace1PSD(conv(H[0])),
                     lambda: Mm.symmetric_matrix_to_trace1PSD(conv(H[1])), history=[dict(matA=[str(z) for z in h.reshape(-1)]) for h in H])
    # forward() of two modules of the same shape, interleaved
    import numqi
    mods = [('PositiveReal(3)', lambda: Mm.PositiveReal(3)), ('OpenInterval(-1,2,3)', lambda: Mm.OpenInterval(-1.0, 2.0, 3)),
            ('DiscreteProbability(4,softmax)', lambda: Mm.DiscreteProbability(4)), ('DiscreteProbability(4,sphere)', lambda: Mm.DiscreteProbability(4, method='sphere')),
            ('Ball(3)', lambda: Mm.Ball(3)), ('Ball(3,complex)', lambda: Mm.Ball(3, dtype=torch.complex128)),
            ('Sphere(3,quotient)', lambda: Mm.Sphere(3)), ('Sphere(3,coordinate,complex,bs2)', lambda: Mm.Sphere(3, 2, 'coordinate', dtype=torch.complex128)),
            ('Trace1PSD(3,2,cholesky)', lambda: Mm.Trace1PSD(3, 2)), ('Trace1PSD(3,2,ensemble,complex)', lambda: Mm.Trace1PSD(3, 2, method='ensemble', dtype=torch.complex128)),
            ('SymmetricMatrix(3)', lambda: Mm.SymmetricMatrix(3)), ('SymmetricMatrix(3,trace0,norm1,complex)', lambda: Mm.SymmetricMatrix(3, None, True, True, dtype=torch.complex128)),
            ('SpecialOrthogonal(3,exp)', lambda: Mm.SpecialOrthogonal(3)), ('SpecialOrthogonal(3,cayley,complex)', lambda: Mm.SpecialOrthogonal(3, None, 'cayley', dtype=torch.complex128))]
    for meth in ('choleskyL', 'qr', 'polar', 'so-exp', 'so-cayley', 'euler'):
        mods.append((f'Stiefel(3,2,{meth})', lambda meth=meth: Mm.Stiefel(3, 2, None, meth)))
        mods.append((f'Stiefel(3,2,{meth},complex,bs2)', lambda meth=meth: Mm.Stiefel(3, 2, 2, meth, dtype=torch.complex128)))
    mods += [('QuantumChannel(2,2,kraus)', lambda: Mm.QuantumChannel(2, 2)), ('QuantumChannel(2,3,2,choi)', lambda: Mm.QuantumChannel(2, 3, 2, return_kind='choi')),
             ('SeparableDensityMatrix(2,2,3)', lambda: Mm.SeparableDensityMatrix(2, 2, 3)), ('ABkHermitian(2,2,2)', lambda: Mm.ABkHermitian(2, 2, 2)),
             ('ABk2localHermitian(2,2,2)', lambda: Mm.ABk2localHermitian(2, 2, 2)), ('ABk2localHermitian(1,2,3)', lambda: Mm.ABk2localHermitian(1, 2, 3)),
             ('quantum_state(3)', lambda: Mm.quantum_state(3)), ('density_matrix(3)', lambda: Mm.density_matrix(3)), ('quantum_gate(3)', lambda: Mm.quantum_gate(3))]
    for name, mk in mods:
        torch.manual_seed(int(rng.integers(1 << 30)))
        m1, m2 = guarded(mk), guarded(mk)
        if isinstance(m1, str) or isinstance(m2, str):
            ctx.fail('module:constructor', f'{name} raised {m1 if isinstance(m1, str) else m2}', dict(module=name)); continue
        def fw(m):
            with torch.no_grad():
                return m()
        pars = lambda m: [[float(x) for x in p.detach().reshape(-1)] for p in m.parameters()]
        MR.check(ctx, f'{name}.forward', lambda m1=m1: fw(m1), lambda m2=m2: fw(m2), history=[dict(module=name, parameters=pars(m1)), dict(module=name, parameters=pars(m2))])


def probe_dtype_readonly(ctx, rng):
    """integer-dtype and read-only parameter vectors: wherever the clean tree accepts them the result must be the map of the same values in
    float64 (no silent truncation / no write into the caller's array); a rejection (exception) of an integer dtype is counted, not failed"""
    import torch
    specs = all_specs(ctx, rng)
    if ctx.quick():
        specs = [specs[i] for i in sorted(rng.choice(len(specs), size=min(len(specs), 150), replace=False))]
    for spec in specs:
        n = spec.nparam()
        for attempt in range(30):
            th = rng.integers(-3, 4, size=n).astype(np.float64)
            if spec.accept(th, False, True) and (n == 0 or np.any(th != 0)):
                break
        else:
            continue
        shp = (2,) if rng.random() < 0.5 and not isinstance(spec, StEuler) else ()
        th = np.broadcast_to(th, shp + (n,)).copy()
        ref = guarded(lambda: to_np(spec.call(th.copy())))
        if isinstance(ref, str):
            continue
        variants = {
            'np-int64': lambda: th.astype(np.int64), 'np-int32': lambda: th.astype(np.int32),
            'torch-int64': lambda: torch.tensor(th.astype(np.int64)), 'torch-int32': lambda: torch.tensor(th.astype(np.int32)),
        }
        for vname, mk in variants.items():
            x = mk(); x0 = to_np(x).copy()
            y = guarded(lambda: to_np(spec.call(x)))
            rp = replay_of(spec, vname, False, shp, th)
            if not same_bits(x, x0):
                ctx.fail(f'{spec.name}:theta-modified', f'{spec.key()} modifies an integer theta in place ({vname})', rp); continue
            if isinstance(y, str):
                ctx.count('int-dtype-rejected-' + vname); ctx.probe_ok(); continue
            ctx.count('int-dtype-accepted-' + vname)
            yc = np.asarray(y).astype(np.complex128); rc = np.asarray(ref).astype(np.complex128)
            if isinstance(spec, StQR):
                rows = th.reshape(-1, n)
                yc = np.stack([spec.canon(rows[k], v) for k, v in enumerate(yc.reshape((-1,) + spec.out_shape()))]).reshape(rc.shape)
                rc = np.stack([spec.canon(rows[k], v) for k, v in enumerate(rc.reshape((-1,) + spec.out_shape()))]).reshape(rc.shape)
            if yc.shape != rc.shape or not np.all(np.isfinite(yc)) or rel_err(yc, rc) > TOL32:
                ctx.fail(f'{spec.name}:integer-dtype', f'{spec.key()}: integer theta ({vname}) is accepted but the result differs from the float64 call '
                                                       f'(rel. diff {rel_err(yc, rc) if yc.shape == rc.shape else "shape"})', rp)
            else:
                ctx.probe_ok()
        # read-only float64 array: the call must succeed and give the same bits (a write into the caller's memory would raise here)
        xr = th.copy(); xr.setflags(write=False)
        y = guarded(lambda: to_np(spec.call(xr)))
        rp = replay_of(spec, 'np-readonly', False, shp, th)
        if isinstance(y, str):
            ctx.fail(f'{spec.name}:readonly-input', f'{spec.key()} raised {y} on a read-only float64 array (it writes into its argument?)', rp)
        elif not same_bits(y, ref):
            ctx.fail(f'{spec.name}:readonly-input', f'{spec.key()}: result on a read-only array differs from the writable one', rp)
        else:
            ctx.probe_ok()


def probe_weighted(ctx, rng):
    """class-level option DiscreteProbability(weight=…): the output lies on the weighted simplex (sum_i w_i p_i = 1, p >= 0) for float and integer
    weights given as numpy arrays or torch tensors; forward() is tied to the model's weightedProb"""
    import torch
    Mm = M()
    ops, expect, tols = [], [], []
    for d in (2, 3, 4, 5):
        weights = {
            'float64': np.linspace(0.5, 2.5, d), 'float32': np.linspace(0.5, 2.5, d).astype(np.float32),
            'int64': np.arange(1, d + 1, dtype=np.int64), 'int32': (np.arange(d, dtype=np.int32) % 3 + 1), 'int-all-2': np.full(d, 2, dtype=np.int64),
            'torch-float64': torch.linspace(0.5, 2.5, d, dtype=torch.float64), 'torch-float32': torch.linspace(0.5, 2.5, d, dtype=torch.float32),
            'torch-int64': torch.arange(1, d + 1, dtype=torch.int64), 'torch-int32': torch.arange(1, d + 1, dtype=torch.int32),
        }
        for wname, w in weights.items():
            for meth in ('softmax', 'sphere'):
                for bs in (None, 3):
                    for dt in (torch.float64, torch.float32):
                        desc = f'DiscreteProbability({d},{meth},weight={wname},batch_size={bs},{dt})'
                        torch.manual_seed(int(rng.integers(1 << 30)))
                        m = guarded(lambda: Mm.DiscreteProbability(d, bs, meth, weight=w, dtype=dt))
                        if isinstance(m, str):
                            ctx.fail('weighted-probability:constructor', f'{desc} raised {m}', dict(module=desc)); continue
                        with torch.no_grad():
                            if rng.random() < 0.5:   # also away from the constructor's U(-0.5,0.5)
                                m.theta.data = torch.tensor(rng.normal(size=tuple(m.theta.shape)) * 10 ** rng.uniform(-2, 1.5), dtype=dt)
                            out = guarded(lambda: to_np(m()))
                        if isinstance(out, str):
                            ctx.fail('weighted-probability:forward-raises', f'{desc}: {out}', dict(module=desc)); continue
                        wn = to_np(w).astype(np.float64)
                        th = to_np(m.theta).astype(np.float64).reshape(-1, d)
                        o = out.astype(np.float64).reshape(-1, d)
                        w32 = 'float32' in wname      # the reciprocal of a float32 weight is formed in float32
                        tol = PROBE64 if (dt == torch.float64 and not w32) else PROBE32
                        rp = dict(module=desc, weight=wn.tolist(), theta=th.reshape(-1).tolist())
                        if not np.all(np.isfinite(o)) or o.min() < 0 or np.abs(o @ wn - 1).max() > tol:
                            ctx.fail('weighted-probability:sum_w_p=1', f'{desc}: p = {o[0]}, sum_i w_i p_i = {(o @ wn)[0]!r} (required 1, p >= 0)', rp)
                        else:
                            ctx.probe_ok(('wprob', desc))
                        for s in range(th.shape[0]):
                            ops.append(f'C01 wprob {"softmax" if meth == "softmax" else "psphere"} {tbits(wn)} {tbits(th[s])}')
                            expect.append(o[s]); tols.append(TOL64 if (dt == torch.float64 and not w32) else TOL32)
    out = common.run_model(ops)
    for op, e, t, line in zip(ops, expect, tols, out):
        ctx.count('weighted-probability')
        if line == 'bad-op':
            ctx.disagree(op[:600], line, 'array'); continue
        mvals = parse_out(line)
        err = rel_err(e, mvals) if mvals.shape == e.shape else float('inf')
        if not (err <= t):
            ctx.disagree(op[:600], line[:200], f'{e} (rel. diff {err:.3e})')
        else:
            ctx.agree(op, ('wprob', op))


def corpus_replay(ctx):
    """regression corpus /verif/corpus/C01/*.json: the recorded failing input of every repaired defect, replayed first on every run (both tiers)
    through the same oracles as the probe, so that a revert of a repair is re-detected deterministically"""
    import glob, json, os, torch
    Mm = M()
    classes = {c.name: c for c in (Softplus, ExpMap, Interval, Ball, SphereQ, SphereC, Softmax, ProbSphere, PsdChol, PsdEns, SymMat, SoExp, SoCayley, StSO,
                                   StPolar, StQR, StCholL, StEuler)}
    files = sorted(glob.glob(os.path.join(common.VERIF, 'corpus', 'C01', '*.json')))
    n = 0
    for f in files:
        doc = json.load(open(f))
        for e in doc['entries']:
            n += 1
            tag = os.path.basename(f)
            if e['kind'] == 'map':
                spec = classes[e['map']](**e['options'])
                f32 = e['dtype'] == 'float32'
                shp = tuple(e['batch_shape'])
                th = np.array(e['theta'], dtype=np.float64).reshape(shp + (spec.nparam(),))
                x = to_backend(th, e['backend'], f32)
                y = guarded(lambda: to_np(spec.call(x)))
                rp = replay_of(spec, e['backend'], f32, shp, th); rp['corpus'] = tag
                if isinstance(y, str):
                    key = 'stiefel-euler:batch-ndim>2' if (isinstance(spec, StEuler) and len(shp) > 1) else f'{spec.name}:raises'
                    ctx.fail(key, f'[corpus {tag}] {spec.key()} raised {y} ({e["backend"]}, {e["dtype"]}, batch {shp})', rp); continue
                if y.shape != shp + spec.out_shape():
                    ctx.fail(f'{spec.name}:shape', f'[corpus {tag}] {spec.key()} returned shape {y.shape}', rp); continue
                ok = True
                rows = th.reshape(-1, spec.nparam())
                for s_, yy in enumerate(y.reshape((-1,) + spec.out_shape())):
                    yy = yy.astype(np.complex128 if np.iscomplexobj(yy) else np.float64)
                    if not np.all(np.isfinite(yy)):
                        key = 'trace1psd-cholesky:float32-underflow' if f32_underflow(spec, f32, rows[s_]) else f'{spec.name}:finite'
                        ctx.fail(key, f'[corpus {tag}] {spec.key()} returned non-finite values ({e["backend"]}, {e["dtype"]}, theta={rows[s_].tolist()})', rp); ok = False; continue
                    for key, good, what in spec.checks(rows[s_], yy, PROBE32 if f32 else PROBE64):
                        if not good:
                            ctx.fail(key, f'[corpus {tag}] {spec.key()} ({e["backend"]}, {e["dtype"]}, theta={rows[s_].tolist()}): {what}', rp); ok = False
                if ok:
                    ctx.probe_ok(('corpus', tag, n))
            elif e['kind'] == 'separable':
                dt = getattr(torch, e['dtype'])
                desc = f'SeparableDensityMatrix({e["dimA"]},{e["dimB"]},{e["num_cha"]},{e["batch_size"]},{dt})'
                torch.manual_seed(n)
                sm = guarded(lambda: Mm.SeparableDensityMatrix(e['dimA'], e['dimB'], e['num_cha'], e['batch_size'], dtype=dt))
                with torch.no_grad():
                    out = sm if isinstance(sm, str) else guarded(lambda: sm())
                if isinstance(out, str):
                    ctx.fail('separable:forward-raises', f'[corpus {tag}] {desc}: {out}', dict(module=desc, corpus=tag)); continue
                R = to_np(out).astype(np.complex128).reshape(-1, e['dimA'] * e['dimB'], e['dimA'] * e['dimB'])
                if any(abs(np.trace(r) - 1) > PROBE32 or np.abs(r - r.conj().T).max() > PROBE32 or np.linalg.eigvalsh((r + r.conj().T) / 2).min() < -PROBE32 for r in R):
                    ctx.fail('separable:mixture', f'[corpus {tag}] {desc}: output is not a density matrix', dict(module=desc, corpus=tag))
                else:
                    ctx.probe_ok(('corpus', tag, n))
            elif e['kind'] == 'weighted':
                wt = {'torch-int64': lambda v: torch.tensor(v, dtype=torch.int64), 'torch-int32': lambda v: torch.tensor(v, dtype=torch.int32),
                      'int64': lambda v: np.array(v, dtype=np.int64), 'float64': lambda v: np.array(v, dtype=np.float64)}[e['weight_type']](e['weight'])
                dt = getattr(torch, e['dtype'])
                desc = f'DiscreteProbability({e["dim"]},{e["method"]},weight={e["weight_type"]}{e["weight"]},batch_size={e["batch_size"]},{dt})'
                torch.manual_seed(n)
                m = guarded(lambda: Mm.DiscreteProbability(e['dim'], e['batch_size'], e['method'], weight=wt, dtype=dt))
                with torch.no_grad():
                    out = m if isinstance(m, str) else guarded(lambda: to_np(m()))
                if isinstance(out, str):
                    ctx.fail('weighted-probability:forward-raises', f'[corpus {tag}] {desc}: {out}', dict(module=desc, corpus=tag)); continue
                o = out.astype(np.float64).reshape(-1, e['dim'])
                wn = np.array(e['weight'], dtype=np.float64)
                tol = PROBE64 if dt == torch.float64 else PROBE32
                if not np.all(np.isfinite(o)) or o.min() < 0 or np.abs(o @ wn - 1).max() > tol:
                    ctx.fail('weighted-probability:sum_w_p=1', f'[corpus {tag}] {desc}: sum_i w_i p_i = {(o @ wn)[0]!r} (required 1 to {tol})',
                             dict(module=desc, weight=e['weight'], theta=to_np(m.theta).reshape(-1).tolist(), corpus=tag))
                else:
                    ctx.probe_ok(('corpus', tag, n))
    ctx.extra['corpus_entries_replayed'] = n


def probe(ctx):
    rng = np.random.default_rng(ctx.np_seed + 17)
    corpus_replay(ctx)
    probe_constraints(ctx, rng)
    probe_modules(ctx, rng)
    probe_compose(ctx, rng)
    probe_dtype_readonly(ctx, rng)
    probe_weighted(ctx, rng)
    abk_probe(ctx, rng)
    probe_sym2psd(ctx, rng)
    probe_buffer_reuse(ctx)
    ctx.extra['statements_not_proved'] = []
    ctx.extra['probe_tolerance'] = f'constraints: {PROBE64} (float64), {PROBE32} (float32); exp/cayley unitarity scaled by max(1,|theta|_max*dim/10)*order'
    # documented batch shapes of to_stiefel_euler ("the rest dimensions will be batch dimensions"; quantifier of the property: (k,l) for every map);
    # repaired in /repo 3915563 (the (k,l) shapes are also driven by run_specs like for every other map, and by corpus/C01/3915563_euler_batch.json)
    for backend in ('np', 'torch'):
        th = rng.uniform(0.1, 1.4, size=(2, 3, 3))
        y = guarded(lambda: to_np(M().to_stiefel_euler(to_backend(th, backend, False), 3, 2)))
        if isinstance(y, str):
            ctx.fail('stiefel-euler:batch-ndim>2', f'to_stiefel_euler(theta of shape (2,3,3), dim=3, rank=2) raised {y} ({backend}): the docstring promises '
                     f'"the rest dimensions will be batch dimensions" and every other to_* map accepts a (k,l) batch',
                     dict(map='stiefel-euler', options=dict(dim=3, rank=2, rc='r', phase=False), backend=backend, dtype='float64', batch_shape=[2, 3],
                          theta=[float(x) for x in th.reshape(-1)]))
        else:
            per = np.stack([to_np(M().to_stiefel_euler(to_backend(r_, backend, False), 3, 2)) for r_ in th.reshape(-1, 3)]).reshape(2, 3, 3, 2)
            if y.shape != (2, 3, 3, 2) or not np.array_equal(y, per):
                ctx.fail('stiefel-euler:batch==single', f'to_stiefel_euler on a (2,3) batch differs from the per-sample calls ({backend})', dict(backend=backend))
            else:
                ctx.probe_ok(('euler-ndim3', backend))
    ctx.assumptions.append('inputs of stiefel polar/qr/choleskyL are restricted to pre-factor matrices with condition number <= 1e3 (<= 20 for float32 parameters): the orthonormalisation error of LAPACK grows with cond^2*eps')


def search(ctx, hints):
    """re-evaluate the constraints on exactly the disagreeing inputs (float64 numpy call)"""
    rng = np.random.default_rng(ctx.np_seed)
    by_op = {}
    for spec in all_specs(ctx, rng):
        by_op.setdefault(spec.op(np.zeros(spec.nparam())).rsplit(' ', 1)[0], spec)
    for h in hints[:300]:
        op = h['op']
        head, _, t = op.rpartition(' ')
        spec = by_op.get(head)
        if spec is None or not t:
            continue
        try:
            th = np.array([unbits(x) for x in t.split(';')])
        except Exception:
            continue
        import torch
        cands = [th] + ([np.zeros_like(th)] if spec.zero_ok else [])
        for t in cands:
            for backend in ('np', 'torch'):
                x = t if backend == 'np' else torch.tensor(t)
                y = guarded(lambda: to_np(spec.call(x)))
                if isinstance(y, str):
                    ctx.fail(f'{spec.name}:raises', f'{spec.key()} raised {y} ({backend})', replay_of(spec, backend, False, (), t)); continue
                if not np.all(np.isfinite(y)):
                    ctx.fail(f'{spec.name}:finite', f'{spec.key()} returned non-finite values ({backend})', replay_of(spec, backend, False, (), t)); continue
                for key, ok, what in spec.checks(t, y.astype(np.complex128 if np.iscomplexobj(y) else np.float64), PROBE64):
                    if not ok:
                        ctx.fail(key, f'{spec.key()} ({backend}): {what}', replay_of(spec, backend, False, (), t))


def replay(ctx, payload):
    """re-run the probe with the seed/tier recorded in the replay file and report whether the recorded key fails again"""
    c2 = common.Ctx(ctx.pid, payload.get('tier', 'quick'), int(payload.get('seed', 0)))
    probe(c2)
    hit = [f for f in c2.failures if f['key'] == payload.get('key')]
    if hit:
        print(f"replay: {payload.get('key')} still fails: {hit[0]['what']}")
        import sys
        path = sys.argv[sys.argv.index('--replay') + 1] if '--replay' in sys.argv else ''
        print(f'VIOLATION property={ctx.pid} replay={path}')
        return 1
    print(f"replay: {payload.get('key')} no longer fails ({c2.probe_evals} probe evaluations)")
    return 0
