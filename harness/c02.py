"""C02 — trivializations are locally onto: full-rank differential.  CLAIMED PARTIAL.

What is proved (lean/NumqiProps/C02.lean): the parameter-count formulas of every module constructor equal the
manifold dimension plus the stated number of gauge directions (all d, r); the linear placements (generators of
SO/SU, traceless symmetric/Hermitian matrices, Stiefel pre-factors) are injective; the differentials of exp and of
the Cayley transform at 0 are id and -2 id.  What is only probed: the rank of the differential at a generic point
(autograd Jacobian, singular-value criterion) — search, not proof.

Correspondence (exact): `theta.shape[-1]` of every class/option vs the model's count, and the model's claimed rank vs
the formula of the property statement.
"""
import itertools, math
import numpy as np
from . import common

THEOREM_FILES = ['NumqiProps/C02.lean']
LEVEL = 'proof'
RULE = ('correspondence: one op = one (class, options, dim, rank): constructor parameter count read from Class(...).theta.shape[-1] and the '
        'functional map accepting exactly that length, against the Lean count; plus the claimed rank against the formula of the property '
        'statement; exhaustive over dims 2..8, all ranks, all options. Probe: autograd Jacobian at random normal theta (3 draws, 5 in thorough) '
        'for dims 2..5, all ranks, real/complex, every method; distinct = distinct (config, draw).')
TRUSTED = ['Lean 4.33 kernel', 'axioms: propext, Classical.choice, Quot.sound', 'Lean compiler for the driver executable',
           'harness/c02.py (exact integer comparison; singular-value rank criterion of the probe)',
           'NOT PROVED, probed only: rank of the differential at generic theta (real-analytic maps: rank at a generic point = maximal rank) and the '
           'differentials of the normalising maps; torch.autograd is trusted to differentiate the implementation']

RANK_REL = 1e-8      # singular values below RANK_REL*sigma_1 count as zero
CLEAN_HI = 1e-6      # a draw is 'clean' when sigma_k >= CLEAN_HI*sigma_1 …
CLEAN_LO = 1e-10     # … and sigma_{k+1} <= CLEAN_LO*sigma_1


def M():
    import numqi
    return numqi.manifold


def guarded(f):
    try:
        return f()
    except AssertionError:
        return 'error:assert'
    except (ValueError, TypeError, IndexError, KeyError, RuntimeError) as e:
        return 'error:' + type(e).__name__


# ---------------------------------------------------------------------------
# configurations: (op line for the model, constructor, functional map theta->array, expected rank by the property statement)
# ---------------------------------------------------------------------------
def tri(r):
    return r * (r + 1) // 2


def stiefel_dim(d, r, real):
    return d * r - tri(r) if real else 2 * d * r - r * r


def psd_dim(d, r, real):
    return d * r - r * (r - 1) // 2 - 1 if real else 2 * d * r - r * r - 1


def configs(dims):
    import torch
    Mm = M()
    out = []
    cdt = {True: torch.float64, False: torch.complex128}
    for d in dims:
        for real in (True, False):
            rc = 'r' if real else 'c'
            out.append(dict(op=f'C02 ball {d} {rc}', name=f'Ball({d},{rc})', mk=lambda d=d, real=real: Mm.Ball(d, dtype=cdt[real]),
                            fn=lambda t, real=real: Mm.to_ball(t, real), rank=(d if real else 2 * d)))
            for q in (True, False):
                meth = 'quotient' if q else 'coordinate'
                out.append(dict(op=f'C02 sphere {d} {rc} {int(q)}', name=f'Sphere({d},{rc},{meth})', mk=lambda d=d, real=real, meth=meth: Mm.Sphere(d, method=meth, dtype=cdt[real]),
                                fn=lambda t, real=real, q=q: (Mm.to_sphere_quotient if q else Mm.to_sphere_coordinate)(t, real), rank=(d - 1 if real else 2 * d - 1)))
            for r in range(1, d + 1):
                for chol in (True, False):
                    meth = 'cholesky' if chol else 'ensemble'
                    out.append(dict(op=f'C02 psd {d} {r} {rc} {int(chol)}', name=f'Trace1PSD({d},{r},{rc},{meth})',
                                    mk=lambda d=d, r=r, real=real, meth=meth: Mm.Trace1PSD(d, r, method=meth, dtype=cdt[real]),
                                    fn=lambda t, d=d, r=r, chol=chol: (Mm.to_trace1_psd_cholesky if chol else Mm.to_trace1_psd_ensemble)(t, d, r), rank=psd_dim(d, r, real)))
                for meth in ('choleskyL', 'qr', 'polar', 'so-exp', 'so-cayley', 'euler'):
                    for ph in ((False, True) if (meth == 'euler' and not real) else (False,)):
                        if meth in ('so-exp', 'so-cayley'):
                            rk = (d * d - 1) if (not real and r == d) else stiefel_dim(d, r, real)
                        elif meth == 'choleskyL':
                            rk = (d * r - tri(r)) * (1 if real else 2)
                        elif meth == 'euler':
                            rk = d * r - tri(r) if real else (2 * d * r - r * r if ph else 2 * d * r - r * (r + 1))
                        else:
                            rk = stiefel_dim(d, r, real)
                        def fn(t, d=d, r=r, meth=meth, ph=ph):
                            if meth == 'choleskyL': return Mm.to_stiefel_choleskyL(t, d, r)
                            if meth == 'qr': return Mm.to_stiefel_qr(t, d, r)
                            if meth == 'polar': return Mm.to_stiefel_polar(t, d, r)
                            if meth == 'so-exp': return Mm.to_special_orthogonal_exp(t, d)[..., :r]
                            if meth == 'so-cayley': return Mm.to_special_orthogonal_cayley(t, d)[..., :r]
                            return Mm.to_stiefel_euler(t, d, r, ph)
                        out.append(dict(op=f'C02 stiefel {d} {r} {rc} {meth} {int(ph)}', name=f'Stiefel({d},{r},{rc},{meth},phase={ph})',
                                        mk=lambda d=d, r=r, real=real, meth=meth, ph=ph: Mm.Stiefel(d, r, method=meth, euler_with_phase=ph, dtype=cdt[real]), fn=fn, rank=rk))
            for t0 in (False, True):
                for n1 in (False, True):
                    npar = (d * (d + 1) // 2 if real else d * d) - int(t0)
                    out.append(dict(op=f'C02 sym {d} {rc} {int(t0)} {int(n1)}', name=f'SymmetricMatrix({d},{rc},trace0={t0},norm1={n1})',
                                    mk=lambda d=d, real=real, t0=t0, n1=n1: Mm.SymmetricMatrix(d, is_trace0=t0, is_norm1=n1, dtype=cdt[real]),
                                    fn=lambda t, d=d, t0=t0, n1=n1: Mm.to_symmetric_matrix(t, d, t0, n1), rank=npar - int(n1)))
            sod = d * (d - 1) // 2 if real else d * d - 1
            out.append(dict(op=f'C02 so {d} {rc}', name=f'SpecialOrthogonal({d},{rc},exp)', mk=lambda d=d, real=real: Mm.SpecialOrthogonal(d, method='exp', dtype=cdt[real]),
                            fn=lambda t, d=d: Mm.to_special_orthogonal_exp(t, d), rank=sod))
            for order in (1, 2, 3):
                out.append(dict(op=f'C02 so {d} {rc}', name=f'SpecialOrthogonal({d},{rc},cayley{order})',
                                mk=lambda d=d, real=real, order=order: Mm.SpecialOrthogonal(d, method='cayley', cayley_order=order, dtype=cdt[real]),
                                fn=lambda t, d=d, order=order: Mm.to_special_orthogonal_cayley(t, d, order), rank=sod))
        for meth in ('softmax', 'sphere'):
            out.append(dict(op=f'C02 prob {d}', name=f'DiscreteProbability({d},{meth})', mk=lambda d=d, meth=meth: Mm.DiscreteProbability(d, method=meth),
                            fn=lambda t, meth=meth: (Mm.to_discrete_probability_softmax if meth == 'softmax' else Mm.to_discrete_probability_sphere)(t), rank=d - 1))
    return out


def correspondence(ctx):
    import torch
    dims = list(range(2, 7)) if ctx.quick() else list(range(2, 9))
    cfgs = configs(dims)
    ops = [c['op'] for c in cfgs]
    out = common.run_model(ops)
    for c, line in zip(cfgs, out):
        ctx.count(c['op'].split(' ')[1])
        m = guarded(c['mk'])
        if isinstance(m, str):
            ctx.disagree(c['op'], line, f"{c['name']} constructor raised {m}"); continue
        n_impl = int(m.theta.shape[-1])
        # the functional map accepts exactly this length (and rejects one more)
        with torch.no_grad():
            ok = guarded(lambda: c['fn'](torch.randn(n_impl, dtype=torch.float64)))
        accept = not isinstance(ok, str)
        impl = f'{n_impl} {c["rank"]}' if accept else f'{n_impl} functional map raised {ok}'
        if line == impl:
            ctx.agree(c['op'] + ' ' + c['name'], c['name'])
        else:
            ctx.disagree(c['op'] + ' ' + c['name'], line, impl)
    for c, line in list(zip(cfgs, out))[:3]:
        ctx.sample({'op': c['op'], 'class': c['name'], 'model(count rank)': line})
    ctx.extra['exhaustive'] = True
    ctx.extra['exhaustive_domain'] = f'every class/option, dims {dims[0]}..{dims[-1]}, all ranks: constructor parameter count and claimed rank'


# ---------------------------------------------------------------------------
# probe: autograd Jacobian rank
# ---------------------------------------------------------------------------
def jacobian(fn, theta):
    import torch
    def f(t):
        y = fn(t)
        if torch.is_complex(y):
            y = torch.view_as_real(y)
        return y.reshape(-1)
    J = torch.autograd.functional.jacobian(f, theta, vectorize=False)
    return J.detach().numpy()


def rank_of(J, k):
    """(numerical rank, clean?, singular values)"""
    sv = np.linalg.svd(J, compute_uv=False) if J.size else np.zeros(0)
    if sv.size == 0 or sv[0] < 1e-13:
        return 0, True, sv
    s1 = sv[0]
    r = int(np.sum(sv > RANK_REL * s1))
    hi_ok = (k == 0) or (k <= sv.size and sv[k - 1] >= CLEAN_HI * s1)
    lo_ok = (k >= sv.size) or (sv[k] <= CLEAN_LO * s1)
    return r, bool(hi_ok and lo_ok), sv


def probe(ctx):
    import torch
    rng = np.random.default_rng(ctx.np_seed + 5)
    dims = [2, 3, 4, 5]
    cfgs = configs(dims)
    draws = 3 if ctx.quick() else 5
    if ctx.quick():
        # all configurations for d <= 4 and a seeded half of d = 5 (thorough: everything)
        keep = []
        for c in cfgs:
            d = int(c['op'].split(' ')[2])
            p = 1.0 if d <= 4 else 0.5
            if rng.random() < p or 'cayley' in c['name'] and ',r,' in c['name']:
                keep.append(c)
        cfgs = keep
    ambiguous = 0
    for c in cfgs:
        m = guarded(c['mk'])
        if isinstance(m, str):
            ctx.fail('constructor', f"{c['name']} raised {m}", dict(cls=c['name'])); continue
        n = int(m.theta.shape[-1])
        k = c['rank']
        results = []
        attempts = 0
        while len(results) < draws and attempts < draws * 3:
            attempts += 1
            th = torch.tensor(rng.normal(size=n), dtype=torch.float64)
            J = guarded(lambda: jacobian(c['fn'], th))
            if isinstance(J, str):
                ctx.fail('jacobian-raises', f"{c['name']}: autograd Jacobian raised {J}", dict(cls=c['name'], theta=th.tolist())); break
            r, clean, sv = rank_of(J, k)
            if not clean and r == k:
                ambiguous += 1
                continue            # redraw: a singular value sits between the two thresholds
            results.append((r, th, sv))
        if not results:
            continue
        bad = [(r, th, sv) for (r, th, sv) in results if r != k]
        if len(bad) * 2 > len(results):
            r, th, sv = bad[0]
            key = 'rank-deficient' if r < k else 'rank-excess'
            if r == 0:
                key = 'constant-map'
            ctx.fail(key, f"{c['name']}: differential has rank {r} at a generic point, the property claims {k} "
                          f"(singular values {np.array2string(sv[:min(len(sv), k + 2)], precision=3)})",
                     dict(cls=c['name'], n_param=n, expected_rank=k, observed_rank=r, theta=th.tolist(), singular_values=sv.tolist()))
        else:
            for r, th, sv in results:
                ctx.probe_ok((c['name'], tuple(np.round(th.numpy()[:3], 6))))
    ctx.extra['rank_criterion'] = (f'rank = #(sigma_i > {RANK_REL}*sigma_1) of the float64 autograd Jacobian (real and imaginary parts stacked); a draw is used when '
                                   f'sigma_k >= {CLEAN_HI}*sigma_1 and sigma_(k+1) <= {CLEAN_LO}*sigma_1 or when the rank differs from the claim; verdict by majority over the draws')
    ctx.extra['ambiguous_draws_redrawn'] = ambiguous
    ctx.note('PARTIAL: the generic-point rank is searched numerically, not proved; the theorems cover counting, linear injectivity of the placements and the base-point differentials')
    ctx.assumptions.append('generic point = standard normal theta; expected rank = manifold dimension of the property statement (parameter count for the minimal complex charts choleskyL / euler without phase; d^2-1 for SU(d) columns with rank = dim)')


def search(ctx, hints):
    # a count disagreement has no input-level failing point beyond the configuration itself: evaluate the Jacobian of the hinted configurations
    import torch
    rng = np.random.default_rng(ctx.np_seed + 6)
    names = {h['op'].split(' ', 2)[-1] if False else h['op'] for h in hints}
    for c in configs([2, 3, 4]):
        if not any(c['name'] in n for n in names):
            continue
        m = guarded(c['mk'])
        if isinstance(m, str):
            ctx.fail('constructor', f"{c['name']} raised {m}", dict(cls=c['name'])); continue
        n = int(m.theta.shape[-1])
        th = torch.tensor(rng.normal(size=n), dtype=torch.float64)
        J = guarded(lambda: jacobian(c['fn'], th))
        if isinstance(J, str):
            ctx.fail('jacobian-raises', f"{c['name']}: the functional map does not accept the module's parameter vector ({J})", dict(cls=c['name'], n_param=n)); continue
        r, clean, sv = rank_of(J, c['rank'])
        if r != c['rank']:
            ctx.fail('rank-deficient' if r < c['rank'] else 'rank-excess', f"{c['name']}: rank {r}, claimed {c['rank']}", dict(cls=c['name'], theta=th.tolist(), singular_values=sv.tolist()))


def replay(ctx, payload):
    """re-run the probe with the seed/tier recorded in the replay file and report whether the recorded key fails again"""
    c2 = common.Ctx(ctx.pid, payload.get('tier', 'quick'), int(payload.get('seed', 0)))
    probe(c2)
    hit = [f for f in c2.failures if f['key'] == payload.get('key')]
    if hit:
        print(f"replay: {payload.get('key')} still fails: {hit[0]['what']}")
        import sys
        path = sys.argv[sys.argv.index('--replay') + 1] if '--replay' in sys.argv else ''
        print(f'VIOLATION property={ctx.pid} replay={path}')
        return 1
    print(f"replay: {payload.get('key')} no longer fails ({c2.probe_evals} probe evaluations)")
    return 0
