"""C02 — trivializations are locally onto: full-rank differential.  CLAIMED PARTIAL.

What is proved (lean/NumqiProps/C02.lean): the parameter-count formulas of every module constructor equal the
manifold dimension plus the stated number of gauge directions (all d, r); the linear placements (generators of
SO/SU, traceless symmetric/Hermitian matrices; the Stiefel polar/qr pre-factor `placement_stiefel_injective`, the choleskyL
pre-factor `placement_cholL_injective`, and the PSD Cholesky factor up to its one scale direction
`placement_psd_factor_injective`) are injective; the differentials of exp and of the Cayley transform at 0 are id and
-2 id; the vector charts (sphere, ball, softmax, probability sphere) and the scalar charts (softplus, exp, open interval)
have their differential and its rank proved at every admissible point.  What is only probed: the rank of the differential at a generic point
(autograd Jacobian, singular-value criterion) — search, not proof.

Correspondence (exact): `theta.shape[-1]` of every class/option vs the model's count, and the model's claimed rank vs
the formula of the property statement.  Correspondence (float64, C01 tolerances): the OUTPUT of every functional map
differentiated by the probe (`to_*` of `_internal.py` / `_stiefel.py`) against the Lean model of the same map, sent from here
through the `C02 map <C01 op>` driver prefix — so the probe's Jacobian is the Jacobian of a map that is tied to the model.
"""
import itertools, math
import numpy as np
from . import common

THEOREM_FILES = ['NumqiProps/C02.lean']
LEVEL = 'proof'
RULE = ('correspondence: one op = one (class, options, dim, rank): constructor parameter count read from Class(...).theta.shape[-1] and the '
        'functional map accepting exactly that length, against the Lean count; plus the claimed rank against the formula of the property '
        'statement; exhaustive over dims 2..8, all ranks, all options. Probe: autograd Jacobian at random normal theta (3 draws, 5 in thorough) '
        'for dims 2..5, all ranks, real/complex, every method; distinct = distinct (config, draw). Map tie: every functional map (numpy and torch, float64) '
        'vs the Lean model through `C02 map …` at random theta; PositiveReal / OpenInterval parameter counts for batch_size None, 1, 3.')
TRUSTED = ['Lean 4.33 kernel', 'axioms: propext, Classical.choice, Quot.sound', 'Lean compiler for the driver executable',
           'harness/c02.py (exact integer comparison; singular-value rank criterion of the probe)',
           'NOT PROVED, probed only: rank of the differential at generic theta (real-analytic maps: rank at a generic point = maximal rank) and the '
           'differentials of the normalising maps; torch.autograd is trusted to differentiate the implementation']

RANK_REL = 1e-8      # singular values below RANK_REL*sigma_1 count as zero
CLEAN_HI = 1e-6      # a draw is 'clean' when sigma_k >= CLEAN_HI*sigma_1 …
CLEAN_LO = 1e-10     # … and sigma_{k+1} <= CLEAN_LO*sigma_1


def M():
    import numqi
    return numqi.manifold


def guarded(f):
    try:
        return f()
    except AssertionError:
        return 'error:assert'
    except (ValueError, TypeError, IndexError, KeyError, RuntimeError) as e:
        return 'error:' + type(e).__name__


# ---------------------------------------------------------------------------
# configurations: (op line for the model, constructor, functional map theta->array, expected rank by the property statement)
# ---------------------------------------------------------------------------
def configs(dims, single=False):
    import torch
    Mm = M()
    out = []
    cdt = {True: torch.float32, False: torch.complex64} if single else {True: torch.float64, False: torch.complex128}
    if 2 in dims:
        for meth in ('softplus', 'exp'):
            out.append(dict(op='C02 posreal 2', scalar='posreal', meth=meth, name=f'PositiveReal({meth})', mk=lambda bs=None, meth=meth: Mm.PositiveReal(bs, meth),
                            fn=lambda t, meth=meth: (Mm.to_positive_real_softplus if meth == 'softplus' else Mm.to_positive_real_exp)(t)))
        for lo, hi in ((-0.5, 2.0), (1.0, 1.25), (-3.0, -1.0)):
            out.append(dict(op='C02 interval 2', scalar='interval', lohi=(lo, hi), name=f'OpenInterval({lo},{hi})', mk=lambda bs=None, lo=lo, hi=hi: Mm.OpenInterval(lo, hi, bs),
                            fn=lambda t, lo=lo, hi=hi: Mm.to_open_interval(t, lo, hi)))
    for d in dims:
        for real in (True, False):
            rc = 'r' if real else 'c'
            out.append(dict(op=f'C02 ball {d} {rc}', name=f'Ball({d},{rc})', mk=lambda bs=None, d=d, real=real: Mm.Ball(d, batch_size=bs, dtype=cdt[real]),
                            fn=lambda t, real=real: Mm.to_ball(t, real)))
            for q in (True, False):
                meth = 'quotient' if q else 'coordinate'
                out.append(dict(op=f'C02 sphere {d} {rc} {int(q)}', name=f'Sphere({d},{rc},{meth})', mk=lambda bs=None, d=d, real=real, meth=meth: Mm.Sphere(d, batch_size=bs, method=meth, dtype=cdt[real]),
                                fn=lambda t, real=real, q=q: (Mm.to_sphere_quotient if q else Mm.to_sphere_coordinate)(t, real)))
            for r in range(1, d + 1):
                for chol in (True, False):
                    meth = 'cholesky' if chol else 'ensemble'
                    out.append(dict(op=f'C02 psd {d} {r} {rc} {int(chol)}', name=f'Trace1PSD({d},{r},{rc},{meth})',
                                    mk=lambda bs=None, d=d, r=r, real=real, meth=meth: Mm.Trace1PSD(d, r, batch_size=bs, method=meth, dtype=cdt[real]),
                                    fn=lambda t, d=d, r=r, chol=chol: (Mm.to_trace1_psd_cholesky if chol else Mm.to_trace1_psd_ensemble)(t, d, r)))
                for meth in ('choleskyL', 'qr', 'polar', 'so-exp', 'so-cayley', 'euler'):
                    for ph in ((False, True) if (meth == 'euler' and not real) else (False,)):
                        def fn(t, d=d, r=r, meth=meth, ph=ph):
                            if meth == 'choleskyL': return Mm.to_stiefel_choleskyL(t, d, r)
                            if meth == 'qr': return Mm.to_stiefel_qr(t, d, r)
                            if meth == 'polar': return Mm.to_stiefel_polar(t, d, r)
                            if meth == 'so-exp': return Mm.to_special_orthogonal_exp(t, d)[..., :r]
                            if meth == 'so-cayley': return Mm.to_special_orthogonal_cayley(t, d)[..., :r]
                            return Mm.to_stiefel_euler(t, d, r, ph)
                        out.append(dict(op=f'C02 stiefel {d} {r} {rc} {meth} {int(ph)}', name=f'Stiefel({d},{r},{rc},{meth},phase={ph})',
                                        mk=lambda bs=None, d=d, r=r, real=real, meth=meth, ph=ph: Mm.Stiefel(d, r, batch_size=bs, method=meth, euler_with_phase=ph, dtype=cdt[real]), fn=fn))
            for t0 in (False, True):
                for n1 in (False, True):
                    npar = (d * (d + 1) // 2 if real else d * d) - int(t0)
                    out.append(dict(op=f'C02 sym {d} {rc} {int(t0)} {int(n1)}', name=f'SymmetricMatrix({d},{rc},trace0={t0},norm1={n1})',
                                    mk=lambda bs=None, d=d, real=real, t0=t0, n1=n1: Mm.SymmetricMatrix(d, batch_size=bs, is_trace0=t0, is_norm1=n1, dtype=cdt[real]),
                                    fn=lambda t, d=d, t0=t0, n1=n1: Mm.to_symmetric_matrix(t, d, t0, n1)))
            sod = d * (d - 1) // 2 if real else d * d - 1
            out.append(dict(op=f'C02 so {d} {rc}', name=f'SpecialOrthogonal({d},{rc},exp)', mk=lambda bs=None, d=d, real=real: Mm.SpecialOrthogonal(d, batch_size=bs, method='exp', dtype=cdt[real]),
                            fn=lambda t, d=d: Mm.to_special_orthogonal_exp(t, d)))
            for order in (1, 2, 3):
                out.append(dict(op=f'C02 so {d} {rc}', name=f'SpecialOrthogonal({d},{rc},cayley{order})',
                                mk=lambda bs=None, d=d, real=real, order=order: Mm.SpecialOrthogonal(d, batch_size=bs, method='cayley', cayley_order=order, dtype=cdt[real]),
                                fn=lambda t, d=d, order=order: Mm.to_special_orthogonal_cayley(t, d, order)))
        weights = {
            'None': lambda: None,
            'float64': lambda d=d: np.linspace(0.5, 2.5, d),
            'float32': lambda d=d: np.linspace(0.5, 2.5, d).astype(np.float32),
            'int64': lambda d=d: np.arange(1, d + 1, dtype=np.int64),
            'int32': lambda d=d: (np.arange(d, dtype=np.int32) % 3 + 1),
            'int-all-2': lambda d=d: np.full(d, 2, dtype=np.int64),
            'torch-float64': lambda d=d: torch.linspace(0.5, 2.5, d, dtype=torch.float64),
            'torch-int64': lambda d=d: torch.arange(1, d + 1, dtype=torch.int64),
        }
        for meth in ('softmax', 'sphere'):
            for wname, wf in weights.items():
                out.append(dict(op=f'C02 prob {d}', name=f'DiscreteProbability({d},{meth},weight={wname})',
                                mk=lambda bs=None, d=d, meth=meth, wf=wf: Mm.DiscreteProbability(d, batch_size=bs, method=meth, weight=wf()),
                                fn=lambda t, meth=meth: (Mm.to_discrete_probability_softmax if meth == 'softmax' else Mm.to_discrete_probability_sphere)(t)))
    return out


def model_lines(cfgs):
    """`<parameter count> <rank claimed by the property>` from the Lean model (Count.*), one line per configuration"""
    out = common.run_model([c['op'] for c in cfgs])
    res = []
    for line in out:
        t = line.split(' ')
        res.append((int(t[0]), int(t[1])) if len(t) == 2 and t[0].isdigit() and t[1].isdigit() else None)
    return res


def map_tie(ctx):
    """the map constants whose differentials C02 talks about (ballVec, sphereQuotientVec, sphereCoordVec, softmaxVec, probSphereVec, psdCholesky, psdEnsemble,
    symmetricMatrix, soGenerator/soExp/soCayley, stiefel*, softplus/exp/interval) tied to the real functions from THIS check (torch = the branch that autograd
    differentiates, and numpy), through the C02 driver (`C02 map <op …>` = the same model ops as the C01 driver)"""
    from . import c01
    rng = np.random.default_rng(ctx.np_seed + 11)
    specs = c01.all_specs(ctx, rng)
    ops, meta = [], []
    for spec in specs:
        for backend in ('torch', 'np'):
            shp = () if rng.random() < 0.5 or isinstance(spec, c01.StEuler) else (2,)
            th = c01.draw_theta(rng, spec, shp, False, None, True)
            y = guarded(lambda: c01.to_np(spec.call(c01.to_backend(th, backend, False))))
            rows = th.reshape(-1, spec.nparam())
            osz = int(np.prod(spec.out_shape()))
            for s_ in range(rows.shape[0]):
                ops.append('C02 map ' + spec.op(rows[s_]).split(' ', 1)[1])
                meta.append((spec, backend, rows[s_], y if isinstance(y, str) else np.asarray(y).reshape(-1, osz)[s_].reshape(spec.out_shape())))
    out = common.run_model(ops)
    for op, (spec, backend, th, y), line in zip(ops, meta, out):
        ctx.count('map-' + spec.name)
        if isinstance(y, str) or line == 'bad-op':
            ctx.disagree(op[:800], line[:200], y if isinstance(y, str) else 'array'); continue
        m = c01.parse_out(line).astype(np.complex128)
        yv = spec.canon(th, np.asarray(y)) if isinstance(spec, c01.StQR) else np.asarray(y)
        yv = yv.reshape(-1).astype(np.complex128)
        err = c01.rel_err(yv, m) if m.shape == yv.shape else float('inf')
        if not (err <= c01.TOL64):
            ctx.disagree(op[:800], line[:200], f'rel. diff {err:.3e} ({backend})')
        else:
            ctx.agree(op, ('map', spec.key(), backend, op))


def correspondence(ctx):
    """model count == theta.shape[-1] of the constructor, for every class / option / batch_size, and the functional map accepts exactly that length.
    (The *rank* column of the model is not compared with anything re-typed here: it is confronted with the real Jacobian in the probe.)"""
    import torch
    dims = list(range(2, 7)) if ctx.quick() else list(range(2, 9))
    cfgs = configs(dims)
    ml = model_lines(cfgs)
    for c, m_ in zip(cfgs, ml):
        ctx.count(c['op'].split(' ')[1])
        if m_ is None:
            ctx.disagree(c['op'] + ' ' + c['name'], 'bad-op', 'constructor exists'); continue
        if 'scalar' in c:
            # PositiveReal / OpenInterval: theta has `1 if batch_size is None else batch_size` entries (no parameter axis)
            for bs in (None, 1, 3):
                line = common.run_model([f"C02 {c['scalar']} {bs or 0}"])[0]
                m = guarded(lambda: c['mk'](bs))
                with torch.no_grad():
                    out_ = m if isinstance(m, str) else guarded(lambda: m())
                want = 'constructor/forward raised' if isinstance(out_, str) else f'{int(m.theta.shape[0])} {int(m.theta.shape[0])}'
                shp_ok = (not isinstance(out_, str)) and m.theta.ndim == 1 and tuple(out_.shape) == (() if (bs is None and c['scalar'] == 'interval') else tuple(m.theta.shape))
                # the VALUE of the class's forward() (not only of the functional map) against the model of the chart: a class-level slip
                # (wrong method dispatched, bounds swapped in forward) leaves counts, shapes and ranks unchanged
                val_ok = True
                if shp_ok:
                    from . import c01
                    thv = m.theta.detach().numpy().astype(np.float64).reshape(-1)
                    spec = (c01.Softplus(n=len(thv)) if c.get('meth') == 'softplus' else c01.ExpMap(n=len(thv))) if c['scalar'] == 'posreal' \
                        else c01.Interval(n=len(thv), lower=c['lohi'][0], upper=c['lohi'][1])
                    ml_ = common.run_model(['C02 map ' + spec.op(thv).split(' ', 1)[1]])[0]
                    mv = c01.parse_out(ml_).astype(np.complex128) if ml_ != 'bad-op' else np.zeros(0)
                    ov = out_.detach().numpy().reshape(-1).astype(np.complex128)
                    val_ok = mv.shape == ov.shape and c01.rel_err(ov, mv) <= c01.TOL64
                    if not val_ok:
                        ctx.disagree(f"C02 map {spec.op(thv).split(' ', 1)[1]} [{c['name']}.forward(), batch_size={bs}]", ml_[:200], f'forward() = {ov.real.tolist()}')
                        continue
                if line == want and shp_ok:
                    ctx.agree(f"C02 {c['scalar']} {bs or 0} {c['name']}", (c['name'], bs))
                else:
                    ctx.disagree(f"C02 {c['scalar']} {bs or 0} {c['name']}", line, f'{want} (theta.shape {None if isinstance(m, str) else tuple(m.theta.shape)}, output shape {None if isinstance(out_, str) else tuple(out_.shape)})')
            continue
        for bs in (None, 3):
            m = guarded(lambda: c['mk'](bs))
            if isinstance(m, str):
                ctx.disagree(c['op'] + ' ' + c['name'], str(m_[0]), f"{c['name']} constructor raised {m} (batch_size={bs})"); break
            n_impl = int(m.theta.shape[-1])
            shape_ok = tuple(m.theta.shape) == ((n_impl,) if bs is None else (bs, n_impl))
            with torch.no_grad():
                ok = guarded(lambda: c['fn'](torch.randn(n_impl, dtype=torch.float64)))
            if n_impl == m_[0] and shape_ok and not isinstance(ok, str):
                ctx.agree(f"{c['op']} {c['name']} bs={bs}", (c['name'], bs))
            else:
                ctx.disagree(f"{c['op']} {c['name']} bs={bs}", str(m_[0]), f'{n_impl} (theta.shape {tuple(m.theta.shape)}; functional map: {ok if isinstance(ok, str) else "accepts"})')
    # round 6 — options never driven before: single precision dtypes (float32 / complex64: same counts, float32 parameters, single-precision output),
    # the documented default rank=None of Trace1PSD (-> dim), euler_with_phase=True with a real dtype (no phase parameters are added)
    cfgs32 = [c for c in configs([2, 3, 4] if ctx.quick() else dims, single=True) if 'scalar' not in c and not c['op'].startswith('C02 prob')]
    for c, m_ in zip(cfgs32, model_lines(cfgs32)):
        ctx.count('single-precision')
        m = guarded(lambda: c['mk'](None))
        with torch.no_grad():
            y = m if isinstance(m, str) else guarded(lambda: m())
        if isinstance(y, str) or m_ is None:
            ctx.disagree(c['op'] + ' ' + c['name'] + ' [single precision]', str(m_), f'constructor/forward raised {y}'); continue
        if int(m.theta.shape[-1]) == m_[0] and m.theta.dtype == torch.float32 and y.dtype in (torch.float32, torch.complex64):
            ctx.agree(f"{c['op']} {c['name']} [single precision]", (c['name'], 'single'))
        else:
            ctx.disagree(f"{c['op']} {c['name']} [single precision]", str(m_[0]), f'{int(m.theta.shape[-1])} parameters of dtype {m.theta.dtype}, output {y.dtype}')
    Mm = M()
    extra = []
    for d in dims:
        for real in (True, False):
            rc = 'r' if real else 'c'
            dt = torch.float64 if real else torch.complex128
            for chol in (True, False):
                extra.append((f'C02 psd {d} {d} {rc} {int(chol)}', f'Trace1PSD({d},rank=None,{rc},{"cholesky" if chol else "ensemble"})',
                              lambda d=d, dt=dt, chol=chol: Mm.Trace1PSD(d, method='cholesky' if chol else 'ensemble', dtype=dt)))
        for r in range(1, d + 1):
            extra.append((f'C02 stiefel {d} {r} r euler 0', f'Stiefel({d},{r},r,euler,euler_with_phase=True)',
                          lambda d=d, r=r: Mm.Stiefel(d, r, method='euler', euler_with_phase=True, dtype=torch.float64)))
    for (op, name, mk), line in zip(extra, common.run_model([e[0] for e in extra])):
        ctx.count('default-options')
        m = guarded(mk)
        with torch.no_grad():
            y = m if isinstance(m, str) else guarded(lambda: m())
        got = f'raised {y}' if isinstance(y, str) else str(int(m.theta.shape[-1]))
        if not isinstance(y, str) and line.split(' ')[0] == got:
            ctx.agree(op + ' ' + name, (name, 'default'))
        else:
            ctx.disagree(op + ' ' + name, line, got)
    # sizes given as numpy integers instead of Python ints must give the same constructor (dtype class of the hardening list)
    for d, r in ((3, 2), (4, 4)):
        for name, mk in (('Ball', lambda D, R: Mm.Ball(D)), ('Sphere', lambda D, R: Mm.Sphere(D)), ('DiscreteProbability', lambda D, R: Mm.DiscreteProbability(D)),
                         ('Trace1PSD', lambda D, R: Mm.Trace1PSD(D, R)), ('SymmetricMatrix', lambda D, R: Mm.SymmetricMatrix(D)),
                         ('SpecialOrthogonal', lambda D, R: Mm.SpecialOrthogonal(D)), ('Stiefel', lambda D, R: Mm.Stiefel(D, R)),
                         ('Stiefel-euler', lambda D, R: Mm.Stiefel(D, R, method='euler', dtype=torch.complex128))):
            a = guarded(lambda: mk(d, r)); b = guarded(lambda: mk(np.int64(d), np.int64(r))); c_ = guarded(lambda: mk(np.int32(d), np.int32(r)))
            ctx.count('numpy-int-sizes')
            shp = lambda m: m if isinstance(m, str) else tuple(m.theta.shape)
            if shp(a) == shp(b) == shp(c_) and not isinstance(a, str):
                with torch.no_grad():
                    ok = guarded(lambda: (b().shape, c_().shape))
                if not isinstance(ok, str):
                    ctx.agree(f'{name}({d},{r}) numpy-int sizes', (name, d, r, 'npint')); continue
            ctx.disagree(f'{name}({d},{r}) with np.int64/np.int32 sizes', str(shp(a)), f'{shp(b)} / {shp(c_)}')
    for c, m_ in list(zip(cfgs, ml))[:3]:
        ctx.sample({'op': c['op'], 'class': c['name'], 'model(count, rank)': m_})
    map_tie(ctx)
    ctx.extra['exhaustive'] = True
    ctx.extra['exhaustive_domain'] = f'every class/option (incl. weight= of DiscreteProbability, batch_size None/3), dims {dims[0]}..{dims[-1]}, all ranks: constructor parameter count'


# ---------------------------------------------------------------------------
# probe: autograd Jacobian rank
# ---------------------------------------------------------------------------
def jacobian(fn, theta):
    import torch
    def f(t):
        y = fn(t)
        if torch.is_complex(y):
            y = torch.view_as_real(y)
        return y.reshape(-1)
    J = torch.autograd.functional.jacobian(f, theta, vectorize=False)
    return J.detach().numpy()


def rank_of(J, k):
    """(numerical rank, clean?, singular values)"""
    sv = np.linalg.svd(J, compute_uv=False) if J.size else np.zeros(0)
    if sv.size == 0 or sv[0] < 1e-13:
        return 0, True, sv
    s1 = sv[0]
    r = int(np.sum(sv > RANK_REL * s1))
    hi_ok = (k == 0) or (k <= sv.size and sv[k - 1] >= CLEAN_HI * s1)
    lo_ok = (k >= sv.size) or (sv[k] <= CLEAN_LO * s1)
    return r, bool(hi_ok and lo_ok), sv


def module_jacobian(m, th):
    """Jacobian of module.forward() with respect to module.theta (the map the optimiser actually sees, class-level options included)"""
    import torch
    def f(t):
        y = torch.func.functional_call(m, {'theta': t}, ())
        if torch.is_complex(y):
            y = torch.view_as_real(y)
        return y.reshape(-1)
    return torch.autograd.functional.jacobian(f, th, vectorize=False).detach().numpy().reshape(-1, th.numel())


def probe_buffer_reuse(ctx):
    """hardening class "buffer reuse across calls" (harness/mani_reuse.py) on what this check differentiates: forward() of two modules of the same class /
    options (interleaved) and the functional map on two parameter vectors of the same length, for every configuration with d <= 3: the first result must be
    unchanged bit for bit after the second call, the two must not share memory, and overwriting a result in place must not change later calls.
    Deterministic, quick tier."""
    import torch
    from . import mani_reuse as MR
    rng = np.random.default_rng(20260930)
    for c in configs([2, 3]):
        torch.manual_seed(int(rng.integers(1 << 30)))
        m1, m2 = guarded(lambda: c['mk'](None)), guarded(lambda: c['mk'](None))
        if isinstance(m1, str) or isinstance(m2, str):
            ctx.fail('constructor-raises', f"{c['name']}: {m1 if isinstance(m1, str) else m2}", dict(name=c['name'])); continue
        def fw(m):
            with torch.no_grad():
                return m()
        th = lambda m: [float(x) for x in m.theta.detach().reshape(-1)]
        MR.check(ctx, f"{c['name']}.forward", lambda: fw(m1), lambda: fw(m2), history=[dict(module=c['name'], theta=th(m1)), dict(module=c['name'], theta=th(m2))])
        if 'scalar' not in c:
            n = int(m1.theta.shape[-1])
            tA, tB = torch.randn(n, dtype=torch.float64), torch.randn(n, dtype=torch.float64)
            MR.check(ctx, f"{c['name']}.functional", lambda: c['fn'](tA.clone()), lambda: c['fn'](tB.clone()),
                     history=[dict(map=c['name'], theta=tA.tolist()), dict(map=c['name'], theta=tB.tolist())])


def probe(ctx):
    import torch
    probe_buffer_reuse(ctx)
    rng = np.random.default_rng(ctx.np_seed + 5)
    dims = [2, 3, 4, 5]
    cfgs = configs(dims)
    draws = 3 if ctx.quick() else 5
    if ctx.quick():
        # all configurations for d <= 4 and a seeded half of d = 5 (thorough: everything)
        keep = []
        for c in cfgs:
            d = 2 if 'scalar' in c else int(c['op'].split(' ')[2])
            p = 1.0 if d <= 4 else 0.5
            if rng.random() < p or ('cayley' in c['name'] and ',r,' in c['name']) or 'weight=' in c['name']:
                keep.append(c)
        cfgs = keep
    # regression corpus /verif/corpus/C02/*.json: configurations of repaired defects are always probed (both tiers, every seed)
    import glob, json, os
    must = set()
    for f in sorted(glob.glob(os.path.join(common.VERIF, 'corpus', 'C02', '*.json'))):
        must |= {e['name'] for e in json.load(open(f))['entries'] if e.get('kind') == 'rank'}
    have = {c['name'] for c in cfgs}
    cfgs = [c for c in configs(dims) if c['name'] in must and c['name'] not in have] + cfgs
    ctx.extra['corpus_configurations'] = sorted(must)
    ml = model_lines(cfgs)       # expected rank = the Lean model's Count.* (theorems count_*), NOT a formula re-typed in the harness
    ambiguous = 0
    for c, m_ in zip(cfgs, ml):
        if m_ is None:
            ctx.fail('model-rejects-configuration', f"{c['name']}: the model has no such configuration ({c['op']})", dict(cls=c['name'])); continue
        batch = 2 if rng.random() < (0.15 if ctx.quick() else 0.3) else None
        m = guarded(lambda: c['mk'](batch))
        if isinstance(m, str):
            ctx.fail('constructor', f"{c['name']} raised {m}", dict(cls=c['name'])); continue
        for p_ in m.parameters():
            p_.requires_grad_(False)
        n = int(m.theta.shape[-1])
        k = m_[1] * (1 if batch is None else batch)      # a batched module is `batch` independent copies: block-diagonal Jacobian
        if 'scalar' in c:
            t_ = common.run_model([f"C02 {c['scalar']} {batch or 0}"])[0].split(' ')
            k = int(t_[1]) if len(t_) == 2 and t_[1].isdigit() else -1      # one chart of rank 1 per entry: the model's scalarParam for this batch_size
        name = c['name'] + ('' if batch is None else f'[batch_size={batch}]')
        results = []
        attempts = 0
        while len(results) < draws and attempts < draws * 3:
            attempts += 1
            th = torch.tensor(rng.normal(size=tuple(m.theta.shape)), dtype=m.theta.dtype)
            J = guarded(lambda: module_jacobian(m, th))
            if isinstance(J, str):
                ctx.fail('jacobian-raises', f"{name}: autograd Jacobian of forward() raised {J}", dict(cls=name, theta=th.reshape(-1).tolist())); break
            r, clean, sv = rank_of(J, k)
            if not clean and r == k:
                ambiguous += 1
                continue            # redraw: a singular value sits between the two thresholds
            results.append((r, th, sv))
        if not results:
            continue
        bad = [(r, th, sv) for (r, th, sv) in results if r != k]
        if len(bad) * 2 > len(results):
            r, th, sv = bad[0]
            key = 'rank-deficient' if r < k else 'rank-excess'
            if r == 0:
                key = 'constant-map'
            ctx.fail(key, f"{name}: differential of forward() has rank {r} at a generic point, the property claims {k} "
                          f"(singular values {np.array2string(sv[:min(len(sv), k + 2)], precision=3)})",
                     dict(cls=name, n_param=n, expected_rank=k, observed_rank=r, theta=th.reshape(-1).tolist(), singular_values=sv.tolist()))
        else:
            for r, th, sv in results:
                ctx.probe_ok((name, tuple(np.round(th.reshape(-1).numpy()[:3], 6))))
        # angle charts (Euler-Hurwitz angles and half-phases, sphere coordinates) are periodic: a point whose parameters lie OUTSIDE the principal range
        # (every entry shifted by +-2*pi) is as generic as the point it is equivalent to, and must have the same rank (a saturating clamp of the
        # phases to [-pi,pi] instead of a periodic wrap would zero Jacobian columns there)
        if ('euler' in c['name'] or 'coordinate' in c['name']) and 'scalar' not in c:
            for rep_ in range(2):
                base = rng.normal(size=tuple(m.theta.shape))
                th = torch.tensor(base + 2 * np.pi * rng.choice([-1.0, 1.0], size=base.shape), dtype=m.theta.dtype)
                J = guarded(lambda: module_jacobian(m, th))
                if isinstance(J, str):
                    ctx.fail('jacobian-raises', f"{name}: autograd Jacobian of forward() raised {J} (parameters outside the principal range)", dict(cls=name, theta=th.reshape(-1).tolist())); break
                r, clean, sv = rank_of(J, k)
                J0 = guarded(lambda: module_jacobian(m, torch.tensor(base, dtype=m.theta.dtype)))
                r0 = None if isinstance(J0, str) else rank_of(J0, k)[0]
                if r != k and r0 == k:
                    ctx.fail('rank-deficient' if r < k else 'rank-excess',
                             f"{name}: at theta = theta0 + 2*pi*(+-1) (outside the principal range of the angles) the differential of forward() has rank {r}, "
                             f"at the equivalent point theta0 it has the claimed rank {k}",
                             dict(cls=name, n_param=n, expected_rank=k, observed_rank=r, theta=th.reshape(-1).tolist(), theta_equivalent=base.reshape(-1).tolist(), singular_values=sv.tolist()))
                    break
                ctx.probe_ok((name, 'off-principal-range', rep_))
        # history: differentiating must not change the module (forward twice, parameters untouched)
        th0 = m.theta.detach().clone()
        with torch.no_grad():
            a1 = guarded(lambda: m()); a2 = guarded(lambda: m())
        if isinstance(a1, str) or isinstance(a2, str) or not torch.equal(a1, a2) or not torch.equal(m.theta.detach(), th0):
            ctx.fail('module-state-changed', f"{name}: forward() is not reproducible after the Jacobian evaluations / parameters changed", dict(cls=name))
    ctx.extra['rank_criterion'] = (f'rank = #(sigma_i > {RANK_REL}*sigma_1) of the float64 autograd Jacobian of module.forward() w.r.t. module.theta (real and imaginary parts stacked); '
                                   f'a draw is used when sigma_k >= {CLEAN_HI}*sigma_1 and sigma_(k+1) <= {CLEAN_LO}*sigma_1 or when the rank differs from the claim; verdict by majority over the draws')
    ctx.extra['ambiguous_draws_redrawn'] = ambiguous
    ctx.note('PARTIAL: the generic-point rank of the matrix charts is searched numerically, not proved; expected rank = Lean model Count.* (driver), observed rank = Jacobian of the real module')
    ctx.assumptions.append('generic point = standard normal theta; expected rank = manifold dimension of the property statement as defined in NumqiModel.Manifold.Count (parameter count for the minimal complex charts choleskyL / euler without phase; d^2-1 for SU(d) columns with rank = dim)')


def search(ctx, hints):
    # a count disagreement has no input-level failing point beyond the configuration itself: evaluate the Jacobian of the hinted configurations
    import torch
    rng = np.random.default_rng(ctx.np_seed + 6)
    names = {h['op'] for h in hints}
    cfgs = [c for c in configs([2, 3, 4]) if any(c['name'] in n for n in names)]
    for c, m_ in zip(cfgs, model_lines(cfgs)):
        m = guarded(lambda: c['mk'](None))
        if isinstance(m, str) or m_ is None:
            ctx.fail('constructor', f"{c['name']} raised {m}", dict(cls=c['name'])); continue
        for p_ in m.parameters():
            p_.requires_grad_(False)
        n = int(m.theta.shape[-1])
        th = torch.tensor(rng.normal(size=n), dtype=m.theta.dtype)
        J = guarded(lambda: module_jacobian(m, th))
        J2 = guarded(lambda: jacobian(c['fn'], torch.tensor(rng.normal(size=n), dtype=torch.float64)))
        if isinstance(J2, str):
            ctx.fail('jacobian-raises', f"{c['name']}: the functional map does not accept the module's parameter vector ({J2})", dict(cls=c['name'], n_param=n)); continue
        if isinstance(J, str):
            ctx.fail('jacobian-raises', f"{c['name']}: autograd Jacobian of forward() raised {J}", dict(cls=c['name'], n_param=n)); continue
        r, clean, sv = rank_of(J, m_[1])
        if r != m_[1]:
            ctx.fail('rank-deficient' if r < m_[1] else 'rank-excess', f"{c['name']}: rank {r}, claimed {m_[1]}", dict(cls=c['name'], theta=th.tolist(), singular_values=sv.tolist()))


def replay(ctx, payload):
    """re-run the probe with the seed/tier recorded in the replay file and report whether the recorded key fails again"""
    c2 = common.Ctx(ctx.pid, payload.get('tier', 'quick'), int(payload.get('seed', 0)))
    probe(c2)
    hit = [f for f in c2.failures if f['key'] == payload.get('key')]
    if hit:
        print(f"replay: {payload.get('key')} still fails: {hit[0]['what']}")
        import sys
        path = sys.argv[sys.argv.index('--replay') + 1] if '--replay' in sys.argv else ''
        print(f'VIOLATION property={ctx.pid} replay={path}')
        return 1
    print(f"replay: {payload.get('key')} no longer fails ({c2.probe_evals} probe evaluations)")
    return 0
