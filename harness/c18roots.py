"""Exact tie for the roots-of-unity UPB tables (C18: load_upb kinds gentiles1 / gentiles2 / quadres).

Model: lean/NumqiModel/CatalogueRoots.lean, driver handler lean/Driver/C18Roots.lean (`rootsupb …`).
Every component of a local vector returned by `load_upb` is classified as `.` (exact zero) or `<cls><sign><e>`:
scale class, sign, exponent of the root of unity — with a relative tolerance of 1e-12 on the modulus and 1e-9 rad on the
argument (the numpy values are exp(2πi·k/N)/√M computed in binary64: error < 1e-15; distinct classes / exponents differ by
more than 1e-3 for every tied size), so the comparison with the model's symbolic table is exact.
"""
import numpy as np


def classify(z, scales, order, tol=1e-12):
    """scales: dict cls -> positive modulus; order: order of the root of unity"""
    if z == 0:
        return '.'
    r = abs(z)
    for cls, s in scales.items():
        if abs(r - s) <= tol * max(1.0, s):
            ang = np.angle(z)
            # sign is only used for class 4 (±1/√2); other classes carry the phase in the exponent
            if cls == 4:
                if abs(ang) < 1e-9:
                    return '4+0'
                if abs(abs(ang) - np.pi) < 1e-9:
                    return '4-0'
                return f'?angle{ang}'
            e = ang * order / (2 * np.pi)
            k = int(round(e))
            if abs(e - k) > 1e-9 * order:
                return f'?angle{ang}'
            return f'{cls}+{k % order}'
    return f'?modulus{r}'


def table_str(upb, scalesA, scalesB, order):
    A, B = [np.asarray(x) for x in upb]
    pa = ';'.join(','.join(classify(complex(z), scalesA, order) for z in row) for row in A)
    pb = ';'.join(','.join(classify(complex(z), scalesB, order) for z in row) for row in B)
    return f'{A.shape[0]} {A.shape[1]} {B.shape[1]} {pa} {pb}'


def impl_op(op):
    """op: 'C18 rootsupb <kind> <args…>' -> canonical line computed from the real load_upb"""
    import numqi
    t = op.split(' ')
    kind = t[2]
    if kind == 'gentiles1':
        d = int(t[3])
        upb = numqi.entangle.load_upb('gentiles1', d)
        sc = {1: 1.0, 2: 1 / np.sqrt(d / 2), 3: 1 / np.sqrt(d), 5: 1 / np.sqrt(d)}
        scA = {1: 1.0, 2: sc[2], 3: sc[3]}
        scB = {1: 1.0, 2: sc[2], 5: sc[5]}
        return table_str(upb, scA, scB, d // 2)
    if kind == 'gentiles2':
        m, n = int(t[3]), int(t[4])
        upb = numqi.entangle.load_upb('gentiles2', (m, n))
        scA = {1: 1.0, 4: 1 / np.sqrt(2), 3: 1 / np.sqrt(m)}
        scB = {1: 1.0, 2: 1 / np.sqrt(n - 2), 5: 1 / np.sqrt(n)}
        return table_str(upb, scA, scB, n - 2)
    if kind == 'quadres':
        dim = int(t[3])
        p = 2 * dim - 1
        upb = numqi.entangle.load_upb('quadres', dim)
        q = sorted(set((k * k) % p for k in range(1, p // 2 + 1)))
        sm = float(np.exp(2j * np.pi * np.array(q) / p).sum().real)
        N = max(-sm, 1 + sm)
        nrm = np.sqrt(N + (p - 1) / 2)
        sc = {6: np.sqrt(N) / nrm, 7: 1 / nrm}
        return table_str(upb, sc, sc, p)
    return 'bad-op'


def gen_ops(quick=True):
    ops = []
    for d in ([4, 6, 8] if quick else [4, 6, 8, 10, 12, 16]):
        ops.append(f'C18 rootsupb gentiles1 {d}')
    for m, n in ([(3, 4), (3, 5), (4, 4), (4, 6), (5, 5)] if quick else [(3, 4), (3, 5), (3, 7), (4, 4), (4, 6), (5, 5), (5, 8), (6, 6), (7, 9)]):
        ops.append(f'C18 rootsupb gentiles2 {m} {n}')
    for dim in ([3, 7, 9] if quick else [3, 7, 9, 15, 19, 21]):
        ops.append(f'C18 rootsupb quadres {dim}')
    return ops


def selftest(quick=True):
    """model (via `lake env lean --run Driver/C18RootsMain.lean`) against load_upb; returns (agree, differ list)"""
    import os
    import subprocess
    here = os.path.dirname(os.path.dirname(os.path.abspath(__file__)))
    ops = gen_ops(quick)
    out = subprocess.run(['lake', 'env', 'lean', '--run', 'Driver/C18RootsMain.lean'], cwd=os.path.join(here, 'lean'),
                         input='\n'.join(ops) + '\n', capture_output=True, text=True, check=True).stdout.splitlines()
    differ = []
    for op, got in zip(ops, out):
        try:
            want = impl_op(op)
        except Exception as exc:  # implementation failure is a finding, not a harness crash
            want = f'raised:{type(exc).__name__}'
        if got.strip() != want:
            differ.append((op, got[:80], want[:80]))
    return len(ops) - len(differ), differ


if __name__ == '__main__':
    import sys
    agree, differ = selftest(quick='thorough' not in sys.argv)
    print(f'c18roots: {agree} agree / {len(differ)} differ')
    for d in differ:
        print(' ', d)
    sys.exit(1 if differ else 0)
