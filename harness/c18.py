"""C18 — catalogue constructors return the objects they name.

Model: lean/NumqiModel/Catalogue.lean.  Theorems: lean/NumqiProps/C18.lean.
Correspondence: the binary64 parameter is sent as its bit pattern; where the constructor is a rational function of it the
model evaluates the formula exactly over the rationals and the implementation's float entries are compared with the exact
values (tolerance = a few ulp); kets are compared in signed-square form (sign, amplitude^2 rational); constructors with
square roots / trigonometric entries use the Float instance of the same model.
"""
import struct, math, itertools
from fractions import Fraction
import numpy as np
from . import common

THEOREM_FILES = ['NumqiProps/C18.lean', 'NumqiProps/C18Roots.lean']
LEVEL = 'proof'
RULE = ('ops: every public constructor of numqi.state on parameter grids that contain both documented end points, the '
        'separability thresholds 1/d and 1/(d+1), random interior points and out-of-range values (assert stream), for several d; '
        'load_upb for all kinds and admissible sizes (exact tables for tiles/feng4x4/feng2x2x2x2, exact rational tie of '
        'get_upb_product/upb_to_bes on the binary64 values for every kind with D<=40); tetrahedron POVM n=1..3; Chebyshev bases d=2..12. '
        'An op is non-trivial when its output is not the zero vector / identity; distinct = distinct op lines / probe keys.')
TRUSTED = ['Lean 4.33 kernel', 'axioms: propext, Classical.choice, Quot.sound', 'Lean compiler for the driver executable',
           'libm sqrt/cos/log behind Lean `Float` (correspondence of the sqrt/trig constructors only)',
           'harness/c18.py canonicalisation and tolerances (4e-15 on exact-rational ties, 1e-12 on Float ties)',
           'numpy.linalg.eigvalsh / matrix_rank in the probe (contract)',
           'modelled, not verified: numqi/state/_internal.py, entangle/upb.py, dicke.py, utils.get_tetrahedron_POVM, unique_determine.get_chebshev_orthonormal',
           'literature, not proved: unextendibility of the UPBs; optimality of the closed-form REE/EOF/GME values']
OPEN_STATEMENTS = []   # Eprobe9Unitary (eq9 bases unitary for every even dim >= 4) is proved since round 9: eprobe9_unitary


def f2b(x):
    return str(struct.unpack('<Q', struct.pack('<d', float(x)))[0])


def b2f(s):
    return struct.unpack('<d', struct.pack('<Q', int(s)))[0]


def frs(q):
    q = Fraction(q)
    return f'{q.numerator}/{q.denominator}'


def guarded(f):
    try:
        return f()
    except AssertionError:
        return 'error:assert'
    except Exception as e:   # any exception raised by the implementation is an outcome, never a harness crash
        return 'error:' + type(e).__name__


def parse_rats(s):
    return np.array([float(Fraction(t)) for t in s.split(';')])


def parse_f(s):
    return np.array([b2f(t) for t in s.split(';')])


def parse_cx(s, sep=','):
    return np.array([complex(b2f(t.split(sep)[0]), b2f(t.split(sep)[1])) for t in s.split(';')])


def parse_samp(s):
    sg, sq = [], []
    for t in s.split(';'):
        a, b = t.split(':')
        sg.append(int(a)); sq.append(float(Fraction(b)))
    return np.array(sg), np.array(sq)


def cmp(ctx, op, ok, model, impl, key=None, nontrivial=True):
    ctx.count(key or op.split(' ')[1])
    if ok:
        ctx.agree(op, op if nontrivial else None)
    else:
        ctx.disagree(op, str(model)[:300], str(impl)[:300])


def close(impl, model, tol):
    if isinstance(impl, str) or isinstance(model, str):
        return isinstance(impl, str) and isinstance(model, str) and impl == model
    impl = np.asarray(impl); model = np.asarray(model)
    if impl.shape != model.shape:
        return False
    with np.errstate(invalid='ignore'):
        same_nan = np.isnan(impl) == np.isnan(model)
        d = np.abs(np.where(np.isnan(impl), 0, impl) - np.where(np.isnan(model), 0, model))
    return bool(np.all(same_nan) and np.all(d <= tol * np.maximum(1, np.abs(model) * 0 + 1)))


def samp_close(vec, model_line, tol=4e-15):
    if isinstance(vec, str) or model_line.startswith('error') or model_line == 'bad-op':
        return vec == model_line
    vec = np.asarray(vec).reshape(-1)
    sg, sq = parse_samp(model_line)
    if vec.shape != sg.shape or np.iscomplexobj(vec) and np.abs(vec.imag).max() > 0:
        return False
    vec = vec.real
    return bool(np.all(np.sign(np.where(np.abs(vec) < 1e-300, 0, vec)) == sg) and np.all(np.abs(vec * vec - sq) <= tol))


# --- parameter grids -------------------------------------------------------------------------------------------------
def werner_grid(ctx, d):
    rng = ctx.rng
    g = [-1.0, 1.0, 0.0, 1 / d, np.nextafter(1 / d, 2), np.nextafter(1 / d, -2), 0.5, -0.5, 0.999999, -0.999999]
    g += [1 / d - 10.0 ** (-k) for k in (1, 2, 3, 5, 8, 12)] + [min(1.0, 1 / d + 10.0 ** (-k)) for k in (1, 2, 3, 5, 8, 12)]
    g += [rng.uniform(-1, 1) for _ in range(4 if ctx.quick() else 40)]
    return g


def iso_grid(ctx, d):
    rng = ctx.rng
    lo = -1 / (d ** 2 - 1)
    g = [lo, 1.0, 0.0, 1 / (d + 1), np.nextafter(1 / (d + 1), 2), np.nextafter(1 / (d + 1), -2), 1 / d, 0.5, lo / 2, 0.999999]
    g += [1 / (d + 1) - 10.0 ** (-k) for k in (1, 2, 3, 5, 8, 12)] + [1 / (d + 1) + 10.0 ** (-k) for k in (1, 2, 3, 5, 8, 12)]
    g += [rng.uniform(lo, 1) for _ in range(4 if ctx.quick() else 40)]
    return g


def unit_grid(ctx, n=None):
    rng = ctx.rng
    g = [0.0, 1.0, 0.5, 1e-12, 1 - 1e-12, 1e-6, 0.25, 0.75, 0.1, 0.9, 1 / 3]
    g += [rng.random() for _ in range(n if n is not None else (6 if ctx.quick() else 100))]
    return g


DICKE = [(1, 1), (2, 1), (1, 2), (2, 2), (3, 1), (0, 2), (2, 0), (1, 1, 1), (2, 1, 0), (0, 0, 2), (2, 1, 1), (3, 2), (1, 0, 2), (4, 3), (1, 1, 1, 1), (2, 2, 1), (5, 5)]


def upb_cases(ctx):
    cases = [('tiles', None), ('pyramid', None), ('feng4x4', None), ('min4x4', None), ('feng2x2x2x2', None),
             ('genshifts', 3), ('genshifts', 5), ('quadres', 3), ('gentiles1', 4), ('gentiles1', 6), ('gentiles2', (3, 4)), ('gentiles2', (3, 5)), ('gentiles2', (4, 4)),
             ('genshifts', 7), ('quadres', 7), ('gentiles1', 8), ('gentiles2', (4, 6)), ('gentiles2', (5, 6)), ('gentiles2', (4, 7)), ('quadres', 9)]
    if not ctx.quick():
        cases += [('genshifts', 9), ('quadres', 15), ('quadres', 19), ('gentiles1', 10), ('gentiles1', 12), ('gentiles2', (5, 5)), ('gentiles2', (5, 8)), ('gentiles2', (6, 7)), ('gentiles2', (3, 9)), ('gentiles2', (7, 8))]
    rng = np.random.default_rng(ctx.np_seed + 5)
    for _ in range(3 if ctx.quick() else 20):
        cases.append(('sixparam', tuple(float(x) for x in rng.uniform(0.2, 1.3, size=6) + rng.integers(0, 4, size=6) * (np.pi / 2))))
    return cases


def upb_label(kind, args):
    return f'{kind}{"" if args is None else args}'


# ---------------------------------------------------------------------------------------------------------------------
def roots_tie(ctx):
    """exact tie of the roots-of-unity UPB families (gentiles1/2, quadres) against load_upb (model by the C07 builder, harness/c18roots.py)"""
    from . import c18roots
    ops = c18roots.gen_ops(ctx.quick())
    impl = []
    for op in ops:
        try:
            impl.append(c18roots.impl_op(op))
        except Exception as exc:
            impl.append('error:' + type(exc).__name__)
    model = common.run_model(ops)
    common.compare(ctx, ops, impl, model, key=lambda op: 'rootsupb-' + op.split(' ')[2])


def correspondence(ctx):
    roots_tie(ctx)
    _correspondence_main(ctx)


def _correspondence_main(ctx):
    import numqi
    S = numqi.state
    rng = ctx.rng
    # full statements kept as `def … .Statement : Prop` (not proved) are listed by name in the evidence
    ctx.extra['open_statements'] = list(OPEN_STATEMENTS)
    ctx.extra['clauses_without_lean_counterpart'] = [
        'unextendibility of every UPB (literature)',
        'closed-form REE/EOF/GME equal the true (optimised) measures: tied to the value formulas of the model, probed against get_eof_2qubit/get_gme_2qubit (d=2), get_ppt_ree (d=2,3(,4)), pure end point (d<=8)',
        'Chebyshev basis2/basis3 phases, projector list, with_computational_basis (tied/probed)']
    delta = dict(rational=0.0, floatops=0.0)

    def run(ops, impl, tol, kind, key=None):
        model = common.run_model(ops)
        for op, a, b in zip(ops, impl, model):
            if isinstance(a, str) or b.startswith('error') or b == 'bad-op':
                cmp(ctx, op, a == b, b, a, key=key); continue
            mv = {'rat': parse_rats, 'f': parse_f, 'cx': parse_cx}[kind](b)
            av = np.asarray(a).reshape(-1)
            ok = av.shape == mv.shape and bool(np.all(np.isnan(av) == np.isnan(mv))) and (np.nan_to_num(np.abs(av - mv)).max() <= tol if av.size else True)
            if ok and av.size:
                dk = 'rational' if kind == 'rat' else 'floatops'
                delta[dk] = max(delta[dk], float(np.nan_to_num(np.abs(av - mv)).max()))
            cmp(ctx, op, ok, b, a, key=key)
        if ops:
            ctx.sample({'op': ops[0], 'out': model[0][:160]})

    # ---- Werner / isotropic / maximally mixed / Antoine: exact rational model ----------------------------------------
    ops, impl = [], []
    for d in ([2, 3, 4] if ctx.quick() else [2, 3, 4, 5, 6]):
        for a in werner_grid(ctx, d) + [1.0000001, -1.5, float(np.nextafter(1, 2))]:
            ops.append(f'C18 werner {d} {f2b(a)}'); impl.append(guarded(lambda: S.Werner(d, a)))
        lo = -1 / (d ** 2 - 1)
        for a in iso_grid(ctx, d) + [1.0000001, float(np.nextafter(lo, -2)), lo - 0.1]:
            ops.append(f'C18 isotropic {d} {f2b(a)}'); impl.append(guarded(lambda: S.Isotropic(d, a)))
    for d in [1, 0]:
        ops.append(f'C18 werner {d} {f2b(0.3)}'); impl.append(guarded(lambda: S.Werner(d, 0.3)))
        ops.append(f'C18 isotropic {d} {f2b(0.3)}'); impl.append(guarded(lambda: S.Isotropic(d, 0.3)))
    for d in range(0, 7):
        ops.append(f'C18 maxmixed {d}'); impl.append(guarded(lambda: S.maximally_mixed_state(d)))
    for q in [-2.5, 2.5, 0.0, 0.5, 1.5, -1.5, float(np.nextafter(1.5, 3)), 2.0, -0.3, 2.5000001, -3.0] + [rng.uniform(-2.5, 2.5) for _ in range(5 if ctx.quick() else 60)]:
        ops.append(f'C18 antoine {f2b(q)}'); impl.append(guarded(lambda: S.get_2qutrit_Antoine2022(q)))
    run(ops, impl, 4e-15, 'rat')

    # ---- Horodecki families (sqrt): Float model ------------------------------------------------------------------------
    ops, impl = [], []
    for b in unit_grid(ctx) + [-1e-9, 1.0000001]:
        ops.append(f'C18 horo24 {f2b(b)}'); impl.append(guarded(lambda: S.get_bes2x4_Horodecki1997(b)))
        ops.append(f'C18 horo33 {f2b(b)}'); impl.append(guarded(lambda: S.get_bes3x3_Horodecki1997(b)))
    run(ops, impl, 4e-16, 'f')

    # ---- kets in signed-square form ---------------------------------------------------------------------------------------
    ops, impl = [], []
    for n in range(1, 11 if ctx.quick() else 13):
        ops.append(f'C18 ketw {n}'); impl.append(guarded(lambda: S.W(n)))
    for n in range(0, 11 if ctx.quick() else 13):
        ops.append(f'C18 ghz {n}'); impl.append(guarded(lambda: S.GHZ(n)))
    for i in range(0, 5):
        ops.append(f'C18 bell {i}'); impl.append(guarded(lambda: S.Bell(i)))
    for d in range(1, 13):
        ops.append(f'C18 maxent {d}'); impl.append(guarded(lambda: S.maximally_entangled_state(d)))
    for d in list(range(0, 21)) + [64, 100]:
        ops.append(f'C18 maxcoh {d}'); impl.append(guarded(lambda: S.maximally_coherent_state(d)))
    for ks in DICKE + [(3,)]:
        ops.append('C18 dicke ' + ';'.join(map(str, ks))); impl.append(guarded(lambda: S.Dicke(*ks)))
    model = common.run_model(ops)
    for op, a, b in zip(ops, impl, model):
        cmp(ctx, op, samp_close(a, b), b, a)
    ctx.sample({'op': ops[1], 'out': model[1][:160]})
    ops, impl = [], []
    for d in range(0, 13):
        ops.append(f'C18 maxcohdm {d}'); impl.append(guarded(lambda: S.maximally_coherent_state(d, return_dm=True)))
    run(ops, impl, 4e-16, 'rat')
    ops, impl = [], []
    for _ in range(20 if ctx.quick() else 200):
        n = rng.randint(1, 8)
        c = np.array([rng.uniform(-2, 2) for _ in range(n)])
        ops.append('C18 wtype ' + ';'.join(f2b(x) for x in c)); impl.append(guarded(lambda: S.Wtype(c)))
    run(ops, impl, 1e-15, 'f')
    ops, impl = [], []
    for c0 in [[1, 2, 2], [1, 1, 1], [3, 4], [1, 0, 1, 1], [2, -1, 2, 0, 4]]:
        for conv in (lambda c: np.array(c, dtype=np.int64), lambda c: np.array([abs(x) > 0 for x in c]), lambda c: list(c), lambda c: np.array(c, dtype=np.float32), lambda c: np.array(c, dtype=np.complex128)):
            c = conv(c0)
            ops.append('C18 wtype ' + ';'.join(f2b(float(np.real(x))) for x in np.asarray(c)))
            impl.append(guarded(lambda: np.real(np.asarray(S.Wtype(c), dtype=np.complex128))))
    run(ops, impl, 2e-7, 'f', key='wtype-dtypes')
    # measures at the exact end points for d = 2..20 (the grids above already contain them for a few d)
    ops, impl = [], []
    for d in range(2, 21):
        lo = -1 / (d * d - 1)
        for a in [-1.0, 1.0, 1 / d]:
            ops.append(f'C18 wgme {d} {f2b(a)}'); impl.append(guarded(lambda: np.float64(S.get_Werner_GME(d, a))))
            ops.append(f'C18 weof {d} {f2b(a)}'); impl.append(guarded(lambda: np.float64(S.get_Werner_eof(d, a))))
        for a in [lo, 1.0, 1 / (d + 1)]:
            ops.append(f'C18 igme {d} {f2b(a)}'); impl.append(guarded(lambda: np.float64(S.get_Isotropic_GME(d, a))))
            ops.append(f'C18 ieof {d} {f2b(a)}'); impl.append(guarded(lambda: np.float64(S.get_Isotropic_eof(d, a))))
    with np.errstate(all='ignore'):
        run(ops, impl, 1e-13, 'f', key='measures-endpoints')

    # ---- closed-form measures: branch layer + formulas ------------------------------------------------------------------
    ops, impl = [], []
    for d in [2, 3, 4, 5, 7]:
        for a in werner_grid(ctx, d):
            ops.append(f'C18 wgme {d} {f2b(a)}'); impl.append(guarded(lambda: np.float64(S.get_Werner_GME(d, a))))
            ops.append(f'C18 weof {d} {f2b(a)}'); impl.append(guarded(lambda: np.float64(S.get_Werner_eof(d, a))))
        for a in iso_grid(ctx, d):
            ops.append(f'C18 igme {d} {f2b(a)}'); impl.append(guarded(lambda: np.float64(S.get_Isotropic_GME(d, a))))
            ops.append(f'C18 ieof {d} {f2b(a)}'); impl.append(guarded(lambda: np.float64(S.get_Isotropic_eof(d, a))))
    with np.errstate(all='ignore'):
        run(ops, impl, 1e-13, 'f')
    # array-valued alpha: one call with the whole grid (1-d, 2-d, int), element-wise against the scalar model answers
    for d in [2, 3, 5]:
        for fname, opn, grid in [('get_Werner_GME', 'wgme', werner_grid(ctx, d)), ('get_Werner_eof', 'weof', werner_grid(ctx, d)),
                                 ('get_Isotropic_GME', 'igme', iso_grid(ctx, d)), ('get_Isotropic_eof', 'ieof', iso_grid(ctx, d))]:
            g = [float(min(1.0, x)) for x in grid]
            g = g[:(len(g) // 4) * 4]
            if not g:
                cmp(ctx, f'C18 {opn}-array {d}', False, 'a grid of at least 4 values', 'empty grid', key=f'{opn}-array'); continue
            ops_a = [f'C18 {opn} {d} {f2b(a)}' for a in g]
            mo = common.run_model(ops_a)
            for shape_tag, arr in [('1d', np.array(g)), ('2d', np.array(g).reshape(4, -1)), ('3d', np.array(g).reshape(2, 2, -1))]:
                with np.errstate(all='ignore'):
                    r = guarded(lambda: np.asarray(getattr(S, fname)(d, arr), dtype=np.float64))
                mv = np.array([b2f(x) for x in mo]).reshape(arr.shape)
                ok = (not isinstance(r, str)) and r.shape == arr.shape and bool(np.all(np.isnan(r) == np.isnan(mv))) and np.nan_to_num(np.abs(r - mv)).max() <= 1e-13
                cmp(ctx, f'C18 {opn}-array {d} {shape_tag}', ok, 'model scalars', r, key=f'{opn}-array')

    # closed-form GME of Dicke states (exact rational) and of W-type states (Float, same operation order)
    ops, impl = [], []
    for n in list(range(1, 13)) + [20, 33, 64]:
        for k in sorted(set([0, 1, n // 2, n - 1, n] + [rng.randint(0, n) for _ in range(2)])):
            ops.append(f'C18 dgme {n} {k}'); impl.append(guarded(lambda: np.float64(S.get_qubit_dicke_state_GME(n, k))))
    ops.append('C18 dgme 0 0'); impl.append(guarded(lambda: np.float64(S.get_qubit_dicke_state_GME(0, 0))))
    # (binomials up to C(64,32) ~ 1.8e18 are not exact in binary64: relative 1e-15 on a number <= 1)
    run(ops, impl, 4e-15, 'rat', key='dgme')
    ops, impl = [], []
    trip = [(1.0, 0.0, 0.0), (0.0, 1.0, 0.0), (0.0, 0.0, 1.0), (3 ** -0.5,) * 3, (0.6, 0.8, 0.0), (0.5, 0.5, 0.5 ** 0.5), (0.5 ** 0.5, 0.5, 0.5), (0.6, 0.0, 0.8), (-0.6, 0.48, 0.64), (0.5, 0.5, 0.5), (1.0, 1e-6, 0.0)]
    for _ in range(20 if ctx.quick() else 300):
        v = np.array([rng.gauss(0, 1) for _ in range(3)]); v = v / np.linalg.norm(v)
        if rng.random() < 0.3: v = np.abs(v)
        trip.append(tuple(float(x) for x in v))
    for a, b, c in trip:
        ops.append(f'C18 wtgme {f2b(a)} {f2b(b)} {f2b(c)}'); impl.append(guarded(lambda: np.float64(S.get_Wtype_state_GME(a, b, c))))
    with np.errstate(all='ignore'):
        run(ops, impl, 1e-14, 'f', key='wtgme')
    # element-probing measurements: exact Gaussian-integer tables (eq9: sqrt2 x entry; the returned projectors are the outer products)
    for kind, dims in [('eq8', [1, 2, 3, 4, 5, 8]), ('eq9', [2, 3, 4, 5, 6, 8, 10, 12, 18, 30, 48])]:   # the theorem eprobe9_unitary covers every even dim: tie beyond the former decide range too
        for dim in dims:
            op = f'C18 eprobe {kind} {dim}'
            r = guarded(lambda: np.asarray(numqi.unique_determine.get_element_probing_POVM(kind, dim)))
            mo = common.run_model([op])[0]
            if isinstance(r, str) or mo.startswith('error'):
                cmp(ctx, op, r == mo, mo, r, key='eprobe'); continue
            if kind == 'eq8':
                M = np.array([complex(int(t.split(',')[0]), int(t.split(',')[1])) for t in mo.split(';')]).reshape(2 * dim, dim, dim)
                cmp(ctx, op, r.shape == M.shape and bool(np.array_equal(r, M)), mo[:100], r, key='eprobe')
            else:
                flag, body = mo.split(' ')
                B = np.array([complex(int(t.split(',')[0]), int(t.split(',')[1])) for t in body.split(';')]).reshape(4 * dim, dim) / math.sqrt(2)
                P = B[:, :, None] * B[:, None, :].conj()
                cmp(ctx, op, flag == '1' and r.shape == P.shape and float(np.abs(r - P).max()) <= 1e-15, mo[:100], r, key='eprobe')
    ops = ['C18 eprobe eq7 4']; 
    cmp(ctx, ops[0], guarded(lambda: numqi.unique_determine.get_element_probing_POVM('eq7', 4)) == common.run_model(ops)[0], 'error:assert', 'impl', key='eprobe')

    # REE: branch tag and value (the entangled branch is the relative entropy to the boundary state, in nats)
    ops, impl = [], []
    for d in [2, 3, 4, 5, 7]:
        for a in werner_grid(ctx, d):
            ops.append(f'C18 wree {d} {f2b(a)}'); impl.append(guarded(lambda: S.get_Werner_ree(d, a)))
        for a in iso_grid(ctx, d):
            ops.append(f'C18 iree {d} {f2b(a)}'); impl.append(guarded(lambda: S.get_Isotropic_ree(d, a)))
    model = common.run_model(ops)
    for op, r, b in zip(ops, impl, model):
        mb = b.split(' ')
        if isinstance(r, str) or len(mb) != 2:
            cmp(ctx, op, r == b, b, r); continue
        tag = 'zero' if (isinstance(r, int) and r == 0) else 'generic'
        mv = b2f(mb[1])
        # the implementation evaluates Tr rho log rho with eigenvalues clamped at eps: deviations ~ d^2 * 1e-15
        ok = tag == mb[0] and abs(float(r) - mv) <= 1e-11
        if ok: delta['floatops'] = max(delta['floatops'], abs(float(r) - mv))
        cmp(ctx, op, ok, b, r)

    # ---- UPB tables (exact) and the product / complement construction (exact on the binary64 values) -------------------
    ops, impl = [], []
    for name in ['tiles', 'feng4x4', 'feng2x2x2x2']:
        upb = guarded(lambda: numqi.entangle.load_upb(name))
        ops.append(f'C18 upbtable {name}')
        impl.append(upb)
    model = common.run_model(ops)
    for op, upb, b in zip(ops, impl, model):
        if isinstance(upb, str):
            cmp(ctx, op, False, b, upb); continue
        parties = b.split(' ')
        ok = len(parties) == len(upb)
        if ok:
            for P, pl in zip(upb, parties):
                rows = pl.split('|')
                ok = ok and len(rows) == P.shape[0] and all(samp_close(P[i], rows[i]) for i in range(len(rows)))
        cmp(ctx, op, ok, b, [np.asarray(x).tolist() for x in upb])
    ops = [f'C18 upbcheck {name}' for name in ['tiles', 'feng4x4', 'feng2x2x2x2']]
    impl = []
    for name in ['tiles', 'feng4x4', 'feng2x2x2x2']:
        prod = guarded(lambda: numqi.entangle.load_upb(name, return_product=True))
        impl.append(prod if isinstance(prod, str) else ('1' if np.abs(prod.conj() @ prod.T - np.eye(prod.shape[0])).max() < 1e-12 else '0'))
    model = common.run_model(ops)
    for op, a, b in zip(ops, impl, model):
        cmp(ctx, op, a == b, b, a)

    # structural / exact models of genshifts (all tied sizes), pyramid, min4x4
    ops, impl = [], []
    for k in ([1, 2, 3, 4] if ctx.quick() else [1, 2, 3, 4, 5, 6, 7, 8]):
        ops.append(f'C18 genshifts {k}')
        impl.append(guarded(lambda: np.concatenate([np.asarray(P, dtype=np.float64).reshape(-1) for P in numqi.entangle.load_upb('genshifts', 2 * k - 1)])))
    ops.append('C18 pyramid')
    impl.append(guarded(lambda: np.concatenate([np.asarray(P, dtype=np.float64).reshape(-1) for P in numqi.entangle.load_upb('pyramid')])))
    run(ops, impl, 1e-15, 'f', key='upb-structural')
    ops, impl = [], []
    for kind, args in upb_cases(ctx):
        if kind == 'sixparam':
            ops.append('C18 sixparam ' + ' '.join(f2b(x) for x in args))
            impl.append(guarded(lambda: np.concatenate([np.asarray(P, dtype=np.complex128).reshape(-1) for P in numqi.entangle.load_upb('sixparam', args, ignore_warning=True)])))
    run(ops, impl, 1e-15, 'cx', key='upb-structural')
    mo = common.run_model(['C18 min4x4'])[0].split(' ')
    im = guarded(lambda: np.concatenate([np.asarray(P, dtype=np.float64).reshape(-1) for P in numqi.entangle.load_upb('min4x4')]))
    cmp(ctx, 'C18 min4x4', (not isinstance(im, str)) and mo[0] == '1' and len(mo) == 2 and parse_f(mo[1]).shape == im.shape and np.abs(parse_f(mo[1]) - im).max() <= 1e-15, mo[0], im, key='upb-structural')

    ops, impl = [], []
    for kind, args in upb_cases(ctx):
        r = guarded(lambda: numqi.entangle.load_upb(kind, args, return_bes=True, ignore_warning=True))
        if isinstance(r, str):
            ctx.disagree(f'C18 upbbes {upb_label(kind, args)}', 'n/a', r); continue
        upb, bes = r
        dims = [int(x.shape[1]) for x in upb]
        D = int(np.prod(dims))
        if D > 40:
            continue
        vals = []
        for P in upb:
            for v in np.asarray(P, dtype=np.complex128).reshape(-1):
                vals.append(f'{frs(Fraction(float(v.real)))},{frs(Fraction(float(v.imag)))}')
        ops.append(f'C18 upbbes {upb[0].shape[0]} {";".join(map(str, dims))} {";".join(vals)}')
        impl.append((upb_label(kind, args), bes))
    model = common.run_model(ops)
    for op, (label, bes), b in zip(ops, impl, model):
        ent = np.array([complex(float(Fraction(t.split(',')[0])), float(Fraction(t.split(',')[1]))) for t in b.split(';')])
        Dn = int(round(math.sqrt(ent.size)))
        M = ent.reshape(Dn, Dn)
        M = M / np.trace(M)
        ok = bes.shape == M.shape and np.abs(bes - M).max() <= 1e-13
        if ok: delta['rational'] = max(delta['rational'], float(np.abs(bes - M).max()))
        cmp(ctx, f'C18 upbbes {label}', ok, 'exact complement (normalised)', f'max dev {np.abs(bes - M).max() if bes.shape == M.shape else "shape"}', key='upbbes')

    # ---- tetrahedron POVM, Chebyshev bases -----------------------------------------------------------------------------------
    ops, impl = [], []
    for n in [1, 2, 3]:
        ops.append(f'C18 tetra {n}'); impl.append(guarded(lambda: np.asarray(numqi.utils.get_tetrahedron_POVM(n), dtype=np.complex128)))
    run(ops, impl, 4e-16, 'cx')
    ops, impl = [], []
    for d in range(2, 13 if ctx.quick() else 31):
        bl = guarded(lambda: numqi.unique_determine.get_chebshev_orthonormal(d, 0.3, return_basis=True)[1])
        ops.append(f'C18 cheb0 {d}'); impl.append(bl if isinstance(bl, str) else np.asarray(bl[0]))
        ops.append(f'C18 cheb1 {d}'); impl.append(bl if isinstance(bl, str) else np.asarray(bl[1], dtype=np.float64))
    run(ops, impl, 1e-12, 'f')
    ctx.extra['measured_model_vs_impl_delta'] = delta


# ---------------------------------------------------------------------------------------------------------------------
def pt(rho, dA, dB, party=1):
    r = rho.reshape(dA, dB, dA, dB)
    r = r.transpose(0, 3, 2, 1) if party == 1 else r.transpose(2, 1, 0, 3)
    return r.reshape(dA * dB, dA * dB)


def min_eig(M):
    return float(np.linalg.eigvalsh((M + M.conj().T) / 2)[0])


def amax(a):
    """max |a| with NaN counted as +inf"""
    a = np.abs(np.asarray(a))
    return float('inf') if (a.size and np.isnan(a).any()) else (float(a.max()) if a.size else 0.0)


def ref_horodecki2x4(b):
    """P. Horodecki, Phys. Lett. A 232 (1997) 333, eq. (32), written out entry by entry"""
    r = math.sqrt(1 - b * b) / 2
    p = (1 + b) / 2
    M = [[b, 0, 0, 0, 0, b, 0, 0],
         [0, b, 0, 0, 0, 0, b, 0],
         [0, 0, b, 0, 0, 0, 0, b],
         [0, 0, 0, b, 0, 0, 0, 0],
         [0, 0, 0, 0, p, 0, 0, r],
         [b, 0, 0, 0, 0, b, 0, 0],
         [0, b, 0, 0, 0, 0, b, 0],
         [0, 0, b, 0, r, 0, 0, p]]
    return np.array(M, dtype=np.float64) / (7 * b + 1)


def ref_horodecki3x3(a):
    """P. Horodecki, Phys. Lett. A 232 (1997) 333, eq. (30)"""
    r = math.sqrt(1 - a * a) / 2
    p = (1 + a) / 2
    M = [[a, 0, 0, 0, a, 0, 0, 0, a],
         [0, a, 0, 0, 0, 0, 0, 0, 0],
         [0, 0, a, 0, 0, 0, 0, 0, 0],
         [0, 0, 0, a, 0, 0, 0, 0, 0],
         [a, 0, 0, 0, a, 0, 0, 0, a],
         [0, 0, 0, 0, 0, a, 0, 0, 0],
         [0, 0, 0, 0, 0, 0, p, 0, r],
         [0, 0, 0, 0, 0, 0, 0, a, 0],
         [a, 0, 0, 0, a, 0, r, 0, p]]
    return np.array(M, dtype=np.float64) / (8 * a + 1)


def ref_werner(d, alpha):
    """(1 - alpha*SWAP)/(d^2 - d*alpha), SWAP built from its action on basis vectors"""
    M = np.eye(d * d)
    for i in range(d):
        for j in range(d):
            M[i * d + j, j * d + i] -= alpha
    return M / (d * d - d * alpha)


def ref_isotropic(d, alpha):
    """(1-alpha) 1/d^2 + alpha |Phi><Phi|, |Phi> = sum_i |ii>/sqrt(d)"""
    phi = np.zeros(d * d)
    for i in range(d):
        phi[i * d + i] = 1 / math.sqrt(d)
    return (1 - alpha) * np.eye(d * d) / (d * d) + alpha * np.outer(phi, phi)


def check_dm(ctx, key, rho, replay, dim=None, tol=1e-10, what=''):
    ok = rho.ndim == 2 and rho.shape[0] == rho.shape[1] and (dim is None or rho.shape[0] == dim)
    msg = ''
    if not ok:
        msg = f'shape {rho.shape}'
    elif np.abs(rho - rho.conj().T).max() > 1e-12:
        ok, msg = False, 'not Hermitian'
    elif abs(np.trace(rho) - 1) > 1e-12:
        ok, msg = False, f'trace {np.trace(rho)}'
    elif min_eig(rho) < -tol:
        ok, msg = False, f'min eigenvalue {min_eig(rho):.3g}'
    if ok:
        ctx.probe_ok((key, str(replay)))
    else:
        ctx.fail(key, f'{what or key}: not a density matrix ({msg})', replay)
    return ok


def probe(ctx):
    """direct evaluation of the property on the real outputs, independent of the Lean model"""
    import numqi
    S = numqi.state
    rng = ctx.rng

    def ket_check(key, f, replay, dim):
        v = guarded(f)
        if isinstance(v, str) or v.shape != (dim,) or abs(np.vdot(v, v).real - 1) > 1e-12:
            ctx.fail(key, f'{key}{replay}: not a normalised ket of dimension {dim}: ' + (v if isinstance(v, str) else f'norm^2={np.vdot(v, v).real}, shape={v.shape}'), replay)
            return None
        ctx.probe_ok((key, str(replay)))
        return v

    # P0: committed corpus of repaired defects and seeded misses (corpus/C18/*.jsonl), replayed first
    import glob, json, os, copy
    for path in sorted(glob.glob(os.path.join(common.VERIF, 'corpus', 'C18', '*.jsonl'))):
        for ln, line in enumerate(open(path)):
            if not line.strip():
                continue
            e = json.loads(line); tag = f'{os.path.basename(path)}:{ln + 1}'; why = e.get('why', '')
            if e['kind'] == 'maxmixed':
                d = e['d']; r = guarded(lambda: S.maximally_mixed_state(d))
                bad = isinstance(r, str) or r.shape != (d * d, d * d) or amax(r - np.eye(d * d) / (d * d)) > 1e-15
                msg = f'maximally_mixed_state({d}) is not I/d^2'
            elif e['kind'] == 'maxcoh_dm':
                d = e['d']; r = guarded(lambda: (S.maximally_coherent_state(d, return_dm=True), S.maximally_coherent_state(d)))
                bad = isinstance(r, str) or amax(r[0] - np.outer(r[1], r[1].conj())) > 1e-12
                msg = f'maximally_coherent_state({d}, return_dm=True) is not the projector of the ket'
            elif e['kind'] == 'eof_ulp':
                d = e['d']; thr = 1 / d if e['fn'] == 'get_Werner_eof' else 1 / (d + 1)
                with np.errstate(all='ignore'):
                    r = guarded(lambda: [float(getattr(S, e['fn'])(d, a)) for a in (thr, float(np.nextafter(thr, 2)), float(np.nextafter(np.nextafter(thr, 2), 2)))])
                bad = isinstance(r, str) or not all(np.isfinite(v) and -1e-12 <= v <= 1e-6 for v in r)
                msg = f'{e["fn"]}({d}, threshold + k ulp) = {r}: must be finite and ~0'
            elif e['kind'] == 'wtype':
                c = np.array(e['coeff'], dtype=e['dtype']); r = guarded(lambda: np.asarray(S.Wtype(c)))
                bad = isinstance(r, str) or abs(np.vdot(r, r).real - 1) > 1e-12
                msg = f'Wtype({e["dtype"]} {e["coeff"]}) is not normalised'
            elif e['kind'] == 'igme_lo':
                d = e['d']
                with np.errstate(all='ignore'):
                    r = guarded(lambda: float(S.get_Isotropic_GME(d, -1 / (d * d - 1))))
                bad = isinstance(r, str) or not (r == 0)
                msg = f'get_Isotropic_GME({d}, -1/(d^2-1)) = {r}: must be exactly 0'
            else:
                continue
            if bad:
                ctx.fail('corpus-' + e['kind'], f'corpus {tag} ({why}): {msg}', dict(op='corpus', entry=e, corpus=tag))
            else:
                ctx.probe_ok(('corpus', tag))

    # module-level arrays of the modules behind the catalogue must be the same after the run as before
    import importlib
    mods = [importlib.import_module(m) for m in ('numqi.state._internal', 'numqi.entangle.upb', 'numqi.dicke', 'numqi.utils', 'numqi.unique_determine._internal', 'numqi.gate', 'numqi.gate._internal')
            if importlib.util.find_spec(m) is not None]
    const_before = {(m.__name__, k): np.array(v, copy=True) for m in mods for k, v in vars(m).items() if isinstance(v, np.ndarray)}

    for n in range(1, 13):
        v = ket_check('W-norm', lambda: S.W(n), dict(op='W', n=n), 2 ** n)
        if v is not None and (np.count_nonzero(v) != n or any(bin(i).count('1') != 1 for i in np.nonzero(v)[0]) or np.ptp(v[np.nonzero(v)]) > 1e-15):
            ctx.fail('W-support', f'W({n}) is not the uniform superposition of the weight-one basis states', dict(op='W', n=n))
        v = ket_check('GHZ-norm', lambda: S.GHZ(n), dict(op='GHZ', n=n), 2 ** n)
        if v is not None and not (v[0] > 0 and v[-1] > 0 and np.count_nonzero(v) == 2):
            ctx.fail('GHZ-support', f'GHZ({n}) is not (|0..0>+|1..1>)/sqrt2', dict(op='GHZ', n=n))
    bells = [ket_check('Bell-norm', lambda: S.Bell(i), dict(op='Bell', i=i), 4) for i in range(4)]
    if all(b is not None for b in bells):
        G = np.array(bells) @ np.array(bells).T
        if np.abs(G - np.eye(4)).max() > 1e-12:
            ctx.fail('Bell-basis', 'the four Bell states are not an orthonormal basis', dict(op='Bell'))
        else:
            ctx.probe_ok('bell-basis')
    for d in range(2, 16):
        v = ket_check('maxent-norm', lambda: S.maximally_entangled_state(d), dict(op='maximally_entangled_state', d=d), d * d)
        if v is not None:
            rA = v.reshape(d, d) @ v.reshape(d, d).T
            if np.abs(rA - np.eye(d) / d).max() > 1e-12:
                ctx.fail('maxent-reduced', f'maximally_entangled_state({d}) has a reduced state != I/d', dict(op='maximally_entangled_state', d=d))
            else:
                ctx.probe_ok(('maxent-red', d))
    for d in list(range(1, 20)) + [50, 128]:
        v = ket_check('maxcoh-norm', lambda: S.maximally_coherent_state(d), dict(op='maximally_coherent_state', d=d), d)
        rho = guarded(lambda: S.maximally_coherent_state(d, return_dm=True))
        if v is not None:
            if isinstance(rho, str) or rho.shape != (d, d) or np.abs(rho - np.outer(v, v.conj())).max() > 1e-12:
                ctx.fail('maxcoh-return_dm', f'maximally_coherent_state({d}, return_dm=True) is not the projector of the ket returned without it', dict(op='maximally_coherent_state', d=d, return_dm=True))
            else:
                ctx.probe_ok(('maxcoh-dm', d))
    for ks in DICKE:
        dim, n = len(ks), sum(ks)
        v = ket_check('Dicke-norm', lambda: S.Dicke(*ks), dict(op='Dicke', klist=list(ks)), dim ** n)
        if v is not None and n >= 1:
            # permutation symmetric: swapping the first two sites leaves the state invariant; support = right occupation numbers
            T = v.reshape([dim] * n)
            sym = n < 2 or np.abs(T - T.swapaxes(0, 1)).max() < 1e-15
            supp_ok = all(tuple(np.bincount(np.unravel_index(i, [dim] * n), minlength=dim)) == tuple(ks) for i in np.nonzero(v)[0])
            cnt_ok = np.count_nonzero(v) == math.factorial(n) // math.prod(math.factorial(k) for k in ks)
            if not (sym and supp_ok and cnt_ok):
                ctx.fail('Dicke-support', f'Dicke{ks} is not the uniform superposition of all arrangements', dict(op='Dicke', klist=list(ks)))
            else:
                ctx.probe_ok(('dicke-supp', ks))
    for _ in range(20):
        n = rng.randint(1, 9)
        c = np.array([rng.uniform(-3, 3) for _ in range(n)]) + (1j * np.array([rng.uniform(-3, 3) for _ in range(n)]) if rng.random() < 0.5 else 0)
        v = ket_check('Wtype-norm', lambda: S.Wtype(c), dict(op='Wtype', coeff=[str(x) for x in c]), 2 ** n)
        if v is not None and np.abs(v[2 ** np.arange(n)] * np.linalg.norm(c) - c).max() > 1e-12:
            ctx.fail('Wtype-coeff', 'Wtype(coeff) does not carry coeff/|coeff| on the weight-one states', dict(op='Wtype', coeff=[str(x) for x in c]))

    # array-like arguments of every dtype: int, bool, float32, float64, complex, list / tuple
    base = [[1, 2, 2], [1, 1, 1, 1], [3, 4], [1, 0, 2, 0, 2], [2], [1, 1, 1, 1, 1, 1, 1]]
    variants = [('int64', lambda c: np.array(c, dtype=np.int64)), ('int8', lambda c: np.array(c, dtype=np.int8)), ('uint8', lambda c: np.array([abs(x) for x in c], dtype=np.uint8)),
                ('bool', lambda c: np.array(c, dtype=bool)), ('float32', lambda c: np.array(c, dtype=np.float32)), ('float64', lambda c: np.array(c, dtype=np.float64)),
                ('complex128', lambda c: np.array(c, dtype=np.complex128)), ('complex64', lambda c: np.array(c, dtype=np.complex64)), ('list', lambda c: list(c)), ('tuple', lambda c: tuple(c))]
    for c0 in base + [[rng.randint(-5, 5) or 1 for _ in range(rng.randint(1, 6))] for _ in range(4)]:
        for tag, conv in variants:
            c = conv(c0)
            ref = np.asarray(c, dtype=np.complex128 if 'complex' in tag else np.float64)
            if not np.any(ref != 0):
                continue
            n = len(c0)
            tol = 1e-6 if tag in ('float32', 'complex64') else 1e-12
            rep = dict(op='Wtype', coeff=[int(x) for x in c0], dtype=tag)
            v = guarded(lambda: np.asarray(S.Wtype(c)))
            want = np.zeros(2 ** n, dtype=np.complex128); want[2 ** np.arange(n)] = ref / np.linalg.norm(ref)
            if isinstance(v, str) or v.shape != (2 ** n,) or abs(np.vdot(v, v).real - 1) > tol or np.abs(v - want).max() > tol:
                ctx.fail('Wtype-dtype', f'Wtype({tag} {c0}) is not the normalised ket coeff/|coeff| on the weight-one states: ' + (v if isinstance(v, str) else f'dtype={v.dtype}, norm^2={np.vdot(v, v).real}, got {v[2 ** np.arange(n)].tolist()}'), rep)
            else:
                ctx.probe_ok(('wtype-dtype', tag, tuple(c0)))
    for n in range(1, 9):
        for tag, conv in variants:
            v = guarded(lambda: np.asarray(S.Wtype(conv([1] * n))))
            w = guarded(lambda: S.W(n))
            if isinstance(v, str) or isinstance(w, str) or v.shape != w.shape or np.abs(v - w).max() > 1e-6:
                ctx.fail('Wtype-dtype', f'Wtype(ones({n}, {tag})) != W({n}): ' + (v if isinstance(v, str) else f'dtype={v.dtype}, norm^2={np.vdot(v, v).real}'), dict(op='Wtype-vs-W', n=n, dtype=tag))
            else:
                ctx.probe_ok(('wtype-w', tag, n))
    # integer / numpy-scalar / float32 size and parameter arguments of the other constructors
    for tag, conv in [('np.int64', np.int64), ('np.int32', np.int32), ('float-valued int', float)]:
        for name, f, g in [('W', lambda k: S.W(k), lambda: S.W(3)), ('GHZ', lambda k: S.GHZ(k), lambda: S.GHZ(3)),
                           ('maximally_entangled_state', lambda k: S.maximally_entangled_state(k), lambda: S.maximally_entangled_state(3)),
                           ('maximally_coherent_state', lambda k: S.maximally_coherent_state(k), lambda: S.maximally_coherent_state(3)),
                           ('Dicke', lambda k: S.Dicke(k, conv(1)), lambda: S.Dicke(3, 1)), ('Bell', lambda k: S.Bell(k), lambda: S.Bell(3))]:
            if tag == 'float-valued int' and name not in ('Dicke', 'Bell'):
                continue      # sizes are documented as int
            v, w = guarded(lambda: np.asarray(f(conv(3)))), guarded(g)
            if isinstance(v, str) or v.shape != w.shape or np.abs(v - w).max() > 1e-15:
                ctx.fail('constructor-int-types', f'{name}({tag}(3)) differs from {name}(3): ' + (v if isinstance(v, str) else 'values differ'), dict(op=name, argtype=tag))
            else:
                ctx.probe_ok(('inttype', name, tag))
    for tag, conv in [('int', int), ('np.int64', np.int64), ('np.float32', np.float32), ('bool', bool)]:
        for name, f, vals in [('Werner', S.Werner, [0, 1]), ('Isotropic', S.Isotropic, [0, 1]), ('get_bes2x4_Horodecki1997', lambda d, b: S.get_bes2x4_Horodecki1997(b), [0, 1]),
                              ('get_bes3x3_Horodecki1997', lambda d, b: S.get_bes3x3_Horodecki1997(b), [0, 1]), ('get_2qutrit_Antoine2022', lambda d, q: S.get_2qutrit_Antoine2022(q), [0, 1])]:
            for a in vals:
                v, w = guarded(lambda: np.asarray(f(3, conv(a)), dtype=np.float64)), guarded(lambda: np.asarray(f(3, float(a))))
                if isinstance(v, str) or isinstance(w, str) or v.shape != w.shape or np.abs(v - w).max() > 1e-7:
                    ctx.fail('constructor-param-types', f'{name} with parameter {tag}({a}) differs from the float parameter: ' + (v if isinstance(v, str) else f'{np.abs(v - w).max()}'), dict(op=name, argtype=tag, value=a))
                else:
                    ctx.probe_ok(('paramtype', name, tag, a))
    r = guarded(lambda: [numqi.entangle.load_upb('sixparam', conv([1, 2, 3, 1, 2, 3]), return_product=True, ignore_warning=True) for conv in (list, tuple, np.array, lambda c: np.array(c, dtype=np.float32))])
    if isinstance(r, str) or any(np.abs(x.conj() @ x.T - np.eye(5)).max() > 1e-6 for x in r):
        ctx.fail('upb-sixparam-types', f'load_upb(sixparam) with integer list / tuple / int array / float32 parameters is not orthonormal: {r if isinstance(r, str) else ""}', dict(op='load_upb', kind='sixparam', args=[1, 2, 3, 1, 2, 3]))
    else:
        ctx.probe_ok('sixparam-types')

    # closed-form measures at the exact end points, at the separability threshold and +-1 ulp, d = 2..20, scalars and arrays
    with np.errstate(all='ignore'):
        for d in range(2, 21):
            for fam, lo, thr, fs in [('Werner', -1.0, 1 / d, dict(ree=S.get_Werner_ree, eof=S.get_Werner_eof, gme=S.get_Werner_GME)),
                                     ('Isotropic', -1 / (d * d - 1), 1 / (d + 1), dict(ree=S.get_Isotropic_ree, eof=S.get_Isotropic_eof, gme=S.get_Isotropic_GME))]:
                pts = [lo, float(np.nextafter(lo, 2)), (lo + thr) / 2, 0.0, thr - 1e-3, float(np.nextafter(thr, -2)), thr, float(np.nextafter(thr, 2)), thr + 1e-3, (thr + 1) / 2, float(np.nextafter(1, -2)), 1.0]
                for mname, f in fs.items():
                    if mname == 'ree' and ctx.quick() and d > 8 and d not in (13, 20):
                        continue      # (each REE call diagonalises a d^2 x d^2 matrix; all d in the thorough tier)
                    sc = []
                    for a in pts:
                        v = guarded(lambda: float(f(d, a)))
                        sc.append(v)
                        rep = dict(op=f.__name__, d=d, alpha=float(a))
                        if isinstance(v, str) or not np.isfinite(v):
                            key = 'eof-nan-above-threshold' if (mname == 'eof' and thr < a <= thr + 1e-9) else 'measures-endpoints'
                            ctx.fail(key, f'{f.__name__}({d}, {a!r}) = {v}: not finite (alpha in the documented range [{lo}, 1], threshold {thr})', rep)
                        elif v < -1e-12:
                            ctx.fail('measures-endpoints', f'{f.__name__}({d}, {a!r}) = {v} < 0', rep)
                        elif a <= thr - 1e-6 and v != 0:
                            ctx.fail('measures-endpoints', f'{f.__name__}({d}, {a!r}) = {v}: not exactly 0 on the separable range (alpha <= {thr})', rep)
                        elif a <= thr and abs(v) > 1e-12:
                            ctx.fail('measures-endpoints', f'{f.__name__}({d}, {a!r}) = {v}: not 0 at the separability threshold', rep)
                        else:
                            ctx.probe_ok(('endpt', f.__name__, d, float(a)))
                    if mname != 'ree':     # the REE routines are scalar-only (documented float argument)
                        for tag, arr in [('float64', np.array(pts)), ('2d', np.array(pts).reshape(3, 4)), ('endpoints-only', np.array([lo, 1.0])), ('int', np.array([0, 1]))]:
                            va = guarded(lambda: np.asarray(f(d, arr), dtype=np.float64))
                            want = np.array([float(f(d, float(a))) if not isinstance(guarded(lambda: float(f(d, float(a)))), str) else np.nan for a in np.asarray(arr, dtype=np.float64).reshape(-1)])
                            if isinstance(va, str) or va.shape != np.asarray(arr).shape or not np.allclose(va.reshape(-1), want, rtol=0, atol=1e-14, equal_nan=True):
                                ctx.fail('measures-array-scalar', f'{f.__name__}({d}, {tag} array) differs from the scalar evaluations: ' + (va if isinstance(va, str) else f'{va.reshape(-1).tolist()} vs {want.tolist()}'), dict(op=f.__name__, d=d, alpha=[float(x) for x in np.asarray(arr, dtype=np.float64).reshape(-1)], argtype=tag))
                            else:
                                ctx.probe_ok(('arr', f.__name__, d, tag))

    # density matrices over the whole documented ranges, end points included
    dense = 12 if ctx.quick() else 200
    for d in [2, 3, 4, 5] if ctx.quick() else [2, 3, 4, 5, 6, 7, 8]:
        for a in werner_grid(ctx, d) + list(np.linspace(-1, 1, dense)):
            rho = guarded(lambda: S.Werner(d, a))
            if isinstance(rho, str):
                ctx.fail('Werner-dm', f'Werner({d},{a}) raised {rho} inside the documented range [-1,1]', dict(op='Werner', d=d, alpha=float(a))); continue
            if check_dm(ctx, 'Werner-dm', rho, dict(op='Werner', d=d, alpha=float(a)), dim=d * d, what=f'Werner({d},{a})'):
                if np.abs(rho - ref_werner(d, a)).max() > 1e-13:
                    ctx.fail('Werner-formula', f'Werner({d},{a}) is not (1-alpha*SWAP)/(d^2-d*alpha)', dict(op='Werner', d=d, alpha=float(a)))
                ppt = min_eig(pt(rho, d, d)) >= -1e-12
                if ppt != (a <= 1 / d + 1e-12) and abs(a - 1 / d) > 1e-9:
                    ctx.fail('Werner-ppt-range', f'Werner({d},{a}): PPT={ppt} contradicts the documented separable range alpha<=1/d', dict(op='Werner', d=d, alpha=float(a)))
                else:
                    ctx.probe_ok()
        lo = -1 / (d * d - 1)
        for a in iso_grid(ctx, d) + list(np.linspace(lo, 1, dense)):
            a = min(max(a, lo), 1.0)
            rho = guarded(lambda: S.Isotropic(d, a))
            if isinstance(rho, str):
                ctx.fail('Isotropic-dm', f'Isotropic({d},{a}) raised {rho} inside the documented range', dict(op='Isotropic', d=d, alpha=float(a))); continue
            if check_dm(ctx, 'Isotropic-dm', rho, dict(op='Isotropic', d=d, alpha=float(a)), dim=d * d, what=f'Isotropic({d},{a})'):
                if np.abs(rho - ref_isotropic(d, a)).max() > 1e-13:
                    ctx.fail('Isotropic-formula', f'Isotropic({d},{a}) is not (1-alpha)/d^2 + alpha |Phi><Phi|', dict(op='Isotropic', d=d, alpha=float(a)))
                ppt = min_eig(pt(rho, d, d)) >= -1e-12
                if ppt != (a <= 1 / (d + 1) + 1e-12) and abs(a - 1 / (d + 1)) > 1e-9:
                    ctx.fail('Isotropic-ppt-range', f'Isotropic({d},{a}): PPT={ppt} contradicts the documented separable range alpha<=1/(d+1)', dict(op='Isotropic', d=d, alpha=float(a)))
                else:
                    ctx.probe_ok()
    for d in range(1, 10):
        rho = guarded(lambda: S.maximally_mixed_state(d))
        if isinstance(rho, str) or rho.shape != (d * d, d * d) or np.abs(rho - np.eye(d * d) / (d * d)).max() > 1e-15:
            ctx.fail('maximally-mixed', f'maximally_mixed_state({d}) is not I/d^2 (trace {rho if isinstance(rho, str) else np.trace(rho)})', dict(op='maximally_mixed_state', d=d))
        else:
            ctx.probe_ok(('mm', d))
    for q in [-2.5, 2.5, 0.0, 0.5, 1.5, -1.5] + list(np.linspace(-2.5, 2.5, dense * 2 + 1)):
        rho = guarded(lambda: S.get_2qutrit_Antoine2022(q))
        if isinstance(rho, str):
            ctx.fail('Antoine-dm', f'get_2qutrit_Antoine2022({q}) raised {rho}', dict(op='Antoine', q=float(q))); continue
        if check_dm(ctx, 'Antoine-dm', rho, dict(op='Antoine', q=float(q)), dim=9):
            ppt = min_eig(pt(rho, 3, 3)) >= -1e-12
            if ppt != (abs(q) <= 1.5 + 1e-12) and abs(abs(q) - 1.5) > 1e-9:
                ctx.fail('Antoine-ppt-range', f'get_2qutrit_Antoine2022({q}): PPT={ppt} contradicts the documented ranges', dict(op='Antoine', q=float(q)))
            else:
                ctx.probe_ok()
    for b in unit_grid(ctx, 0) + list(np.linspace(0, 1, dense * 4 + 1)):
        for name, f, dA, dB, ref in [('Horodecki2x4', S.get_bes2x4_Horodecki1997, 2, 4, ref_horodecki2x4), ('Horodecki3x3', S.get_bes3x3_Horodecki1997, 3, 3, ref_horodecki3x3)]:
            rho = guarded(lambda: f(b))
            if isinstance(rho, str):
                ctx.fail(name + '-dm', f'{name}({b}) raised {rho} inside [0,1]', dict(op=name, b=float(b))); continue
            if rho.shape != (dA * dB, dA * dB) or np.abs(rho - ref(b)).max() > 1e-14:
                ctx.fail(name + '-formula', f'{name}({b}) is not the matrix of Horodecki 1997 (max deviation {np.abs(rho - ref(b)).max() if rho.shape == (dA*dB, dA*dB) else rho.shape})', dict(op=name, b=float(b)))
            else:
                ctx.probe_ok((name, 'formula', float(b)))
            if check_dm(ctx, name + '-dm', rho, dict(op=name, b=float(b)), dim=dA * dB, what=f'{name}({b})'):
                m = min(min_eig(pt(rho, dA, dB, 0)), min_eig(pt(rho, dA, dB, 1)))
                if m < -1e-10:
                    ctx.fail(name + '-ppt', f'{name}({b}) is not PPT: min eigenvalue of the partial transpose {m:.3g}', dict(op=name, b=float(b)))
                else:
                    ctx.probe_ok((name, 'ppt', float(b)))

    # closed forms vanish on the separable range; d=2 agrees with the generic two-qubit routines
    with np.errstate(all='ignore'):
        for d in [2, 3, 4, 5, 8]:
            sepW = [-1.0, 1 / d, 0.0, float(np.nextafter(1 / d, -2))] + [1 / d - 10.0 ** (-k) for k in range(1, 14)] + list(np.linspace(-1, 1 / d, dense))
            for a in sepW:
                vals = guarded(lambda: dict(ree=float(S.get_Werner_ree(d, a)), gme=float(S.get_Werner_GME(d, a)), eof=float(S.get_Werner_eof(d, a))))
                if isinstance(vals, str) or any(not (abs(v) <= 1e-12) for v in vals.values()):
                    ctx.fail('Werner-measures-separable', f'closed-form measure of Werner({d},{a}) does not vanish on the separable range: {vals}', dict(op='Werner-measures', d=d, alpha=float(a)))
                else:
                    ctx.probe_ok(('wsep', d, float(a)))
            lo = -1 / (d * d - 1)
            for a in [lo, 1 / (d + 1), 0.0, float(np.nextafter(1 / (d + 1), -2))] + [1 / (d + 1) - 10.0 ** (-k) for k in range(2, 14)] + list(np.linspace(lo, 1 / (d + 1), dense)):
                vals = guarded(lambda: dict(ree=float(S.get_Isotropic_ree(d, a)), gme=float(S.get_Isotropic_GME(d, a)), eof=float(S.get_Isotropic_eof(d, a))))
                if isinstance(vals, str) or any(not (abs(v) <= 1e-12) for v in vals.values()):
                    ctx.fail('Isotropic-measures-separable', f'closed-form measure of Isotropic({d},{a}) does not vanish on the separable range: {vals}', dict(op='Isotropic-measures', d=d, alpha=float(a)))
                else:
                    ctx.probe_ok(('isep', d, float(a)))
            # REE is strictly positive on the entangled range (the states are entangled there), also close to the threshold
            for name, f, thr in [('Werner', S.get_Werner_ree, 1 / d), ('Isotropic', S.get_Isotropic_ree, 1 / (d + 1))]:
                for a in [thr + 1e-3, thr + 1e-2, thr + 0.1, (thr + 1) / 2, 1.0 - 1e-9]:
                    v = guarded(lambda: float(f(d, a)))
                    if isinstance(v, str) or not (v > 1e-9):
                        ctx.fail(f'{name}-ree-entangled', f'{f.__name__}({d},{a}) = {v}: not positive although {name}({d},{a}) is entangled (alpha above the separability threshold {thr})', dict(op=f.__name__, d=d, alpha=float(a)))
                    else:
                        ctx.probe_ok((f.__name__, d, float(a)))
            # positive (entangled) just above the threshold, monotone non-decreasing
            for name, fs, grid in [('Werner', (S.get_Werner_GME, S.get_Werner_eof), np.linspace(1 / d, 1, 25)), ('Isotropic', (S.get_Isotropic_GME, S.get_Isotropic_eof), np.linspace(1 / (d + 1), 1, 25))]:
                for f in fs:
                    v = guarded(lambda: np.array([float(f(d, a)) for a in grid]))
                    if isinstance(v, str) or np.any(np.isnan(v[:-1])) or np.any(np.diff(v[:-1]) < -1e-12) or not (v[1] > 0):
                        ctx.fail(f'{name}-measures-monotone', f'{f.__name__}({d}, .) is not positive and non-decreasing above the separability threshold', dict(op=f.__name__, d=d))
                    else:
                        ctx.probe_ok((f.__name__, d))
        for a in np.linspace(-1, 1, 41):
            rho = guarded(lambda: S.Werner(2, a))
            r = rho if isinstance(rho, str) else guarded(lambda: (abs(numqi.entangle.get_eof_2qubit(rho) - float(S.get_Werner_eof(2, a))), abs(numqi.entangle.get_gme_2qubit(rho) - float(S.get_Werner_GME(2, a)))))
            if isinstance(r, str) or max(r) > 1e-7:
                ctx.fail('Werner-measures-generic', f'closed-form EOF/GME of Werner(2,{a}) disagrees with the generic two-qubit routines: {r}', dict(op='Werner-generic', alpha=float(a)))
            else:
                ctx.probe_ok(('wgen', float(a)))
        for a in np.linspace(-1 / 3, 1, 41):
            rho = guarded(lambda: S.Isotropic(2, a))
            r = rho if isinstance(rho, str) else guarded(lambda: (abs(numqi.entangle.get_eof_2qubit(rho) - float(S.get_Isotropic_eof(2, a))), abs(numqi.entangle.get_gme_2qubit(rho) - float(S.get_Isotropic_GME(2, a)))))
            if isinstance(r, str) or max(r) > 1e-7:
                ctx.fail('Isotropic-measures-generic', f'closed-form EOF/GME of Isotropic(2,{a}) disagrees with the generic two-qubit routines: {r}', dict(op='Isotropic-generic', alpha=float(a)))
            else:
                ctx.probe_ok(('igen', float(a)))

    # closed forms against generic routines for d >= 3: pure end point of the isotropic family (all three measures have textbook
    # values and get_eof_pure applies), and the SDP-based PPT relative entropy (for these U x U / U x conj(U) symmetric families the
    # closest PPT state is the separable boundary state, so REE_PPT = REE)
    for d in range(2, 9):
        def f():
            psi = S.maximally_entangled_state(d)
            return (abs(float(S.get_Isotropic_eof(d, 1.0)) - math.log(d)), abs(float(S.get_Isotropic_GME(d, 1.0)) - (1 - 1 / d)), abs(float(S.get_Isotropic_ree(d, 1.0)) - math.log(d)),
                    abs(float(numqi.entangle.get_eof_pure(psi.reshape(d, d))) - float(S.get_Isotropic_eof(d, 1.0))), amax(S.Isotropic(d, 1.0) - np.outer(psi, psi)))
        r = guarded(f)
        if isinstance(r, str) or not (max(r) <= 1e-10):
            ctx.fail('Isotropic-measures-pure', f'closed forms at alpha=1 (maximally entangled pure state, d={d}): EOF/REE != log d, GME != 1-1/d or get_eof_pure disagrees: {r}', dict(op='Isotropic-pure', d=d))
        else:
            ctx.probe_ok(('isopure', d))
    sdp_pts = [(2, 0.8), (3, 0.7)] if ctx.quick() else [(2, 0.6), (2, 0.8), (2, 1.0), (3, 0.4), (3, 0.7), (3, 1.0), (4, 0.5), (4, 0.9)]
    for d, a in sdp_pts:
        for name, f, g in [('Werner', S.Werner, S.get_Werner_ree), ('Isotropic', S.Isotropic, S.get_Isotropic_ree)]:
            r = guarded(lambda: (float(numqi.entangle.get_ppt_ree(f(d, a), d, d, use_tqdm=False)), float(g(d, a))))
            if isinstance(r, str) or not (abs(r[0] - r[1]) <= 2e-4 * max(1.0, r[1])):
                ctx.fail(f'{name}-ree-generic', f'get_{name}_ree({d},{a}) = {r if isinstance(r, str) else r[1]} disagrees with the generic SDP routine get_ppt_ree = {r if isinstance(r, str) else r[0]}', dict(op=f'{name}-ree-generic', d=d, alpha=float(a)))
            else:
                ctx.probe_ok((name, 'ree-sdp', d, a))

    # load_upb options never driven elsewhere: random sixparam (args=None), the degenerate-parameter notice, unknown kinds, upper-case kind.
    # The notice may come through any channel (print to stdout/stderr, warnings.warn, logging): only "something is said for the degenerate
    # parameter gamma_A = pi/2 and nothing for a generic one" is demanded, not a particular text.
    import io, contextlib, warnings, logging

    def with_notices(f):
        out, err, recs = io.StringIO(), io.StringIO(), []

        class H(logging.Handler):
            def emit(self, record):
                recs.append(record.getMessage())
        h = H(level=logging.DEBUG); root = logging.getLogger(); lvl = root.level
        root.addHandler(h); root.setLevel(logging.DEBUG)
        try:
            with contextlib.redirect_stdout(out), contextlib.redirect_stderr(err), warnings.catch_warnings(record=True) as w:
                warnings.simplefilter('always')
                r = guarded(f)
        finally:
            root.removeHandler(h); root.setLevel(lvl)
        return r, (out.getvalue() + err.getvalue() + ' '.join(str(x.message) for x in w) + ' '.join(recs)).strip()
    degenerate, generic = (np.pi / 2, 1.0, 0.3, 1.0, 1.0, 0.2), (0.7, 1.0, 0.3, 1.0, 1.0, 0.2)
    r, _ = with_notices(lambda: (numqi.entangle.load_upb('sixparam', return_product=True), numqi.entangle.load_upb('TILES', return_product=True), numqi.entangle.load_upb('tiles', return_product=True)))
    rd, said_d = with_notices(lambda: numqi.entangle.load_upb('sixparam', degenerate, return_product=True))
    rg, said_g = with_notices(lambda: numqi.entangle.load_upb('sixparam', generic, return_product=True))
    bad = []
    if isinstance(r, str) or isinstance(rd, str) or isinstance(rg, str):
        bad.append(f'raised: {[x for x in (r, rd, rg) if isinstance(x, str)]}')
    else:
        if amax(r[0].conj() @ r[0].T - np.eye(5)) > 1e-10: bad.append('random sixparam (args=None) not orthonormal')
        if rd.shape != (5, 9) or rg.shape != (5, 9): bad.append(f'shapes {rd.shape}, {rg.shape}')
        if amax(r[1] - r[2]) > 0: bad.append('kind not case-insensitive')
        if not said_d: bad.append('no notice (stdout / stderr / warnings / logging) for the degenerate parameter gamma_A = pi/2, where the set is not a UPB')
        if said_g: bad.append(f'a notice for a generic parameter: {said_g[:80]!r}')
    if bad:
        ctx.fail('upb-options', 'load_upb options: ' + '; '.join(bad), dict(op='load_upb', kind='sixparam', degenerate=list(degenerate), generic=list(generic)))
    else:
        ctx.probe_ok('upb-options')
    for kind in ['john2^8', 'nosuchkind']:
        if guarded(lambda: numqi.entangle.load_upb(kind)) != 'error:assert':
            ctx.fail('upb-options', f'load_upb({kind!r}) must raise AssertionError', dict(op='load_upb', kind=kind))
        else:
            ctx.probe_ok(('upb-unknown', kind))

    # round 6: the remaining public closed forms / measurement sets, against independent oracles
    for n in range(1, 8 if ctx.quick() else 10):     # (Dicke builds all n! permutations: n = 10 costs seconds per call)
        for k in range(0, n + 1):
            def f():
                v = float(S.get_qubit_dicke_state_GME(n, k))
                # GME = 1 - max over symmetric product states (cos t, sin t)^{(x) n} of |<D|prod>|^2 = C(n,k) cos^{2(n-k)} sin^{2k}
                ts = np.linspace(0, np.pi / 2, 20001)
                ov = math.comb(n, k) * np.cos(ts) ** (2 * (n - k)) * np.sin(ts) ** (2 * k)
                psi = S.Dicke(n - k, k)
                t0 = math.atan2(math.sqrt(k), math.sqrt(n - k)); x = np.array([math.cos(t0), math.sin(t0)]); prod = x
                for _ in range(n - 1): prod = np.kron(prod, x)
                return v, 1 - float(ov.max()), 1 - float(np.dot(prod, psi)) ** 2
            r = guarded(f)
            if isinstance(r, str) or not (0 <= r[0] < 1) or abs(r[0] - r[1]) > 1e-6 or abs(r[0] - r[2]) > 1e-12:
                ctx.fail('dicke-gme', f'get_qubit_dicke_state_GME({n},{k}) = {r if isinstance(r, str) else r[0]} is not 1 - max product-state overlap of Dicke({n - k},{k}) ({r})', dict(op='get_qubit_dicke_state_GME', n=n, k=k))
            else:
                ctx.probe_ok(('dgme', n, k))
    import scipy.optimize
    for trial in range(6 if ctx.quick() else 60):
        v = np.abs(np.array([rng.gauss(0, 1) for _ in range(3)])) + (0.0 if trial % 3 else 0.3); v = v / np.linalg.norm(v)
        a_, b_, c_ = [float(x) for x in v]
        def f():
            g = float(S.get_Wtype_state_GME(a_, b_, c_))
            psi = S.Wtype(np.array([a_, b_, c_]))       # coefficients at |001>,|010>,|100> (index 2^k)
            def neg(th):
                q = [np.array([math.cos(t), math.sin(t)]) for t in th]
                return -float(np.dot(np.kron(np.kron(q[0], q[1]), q[2]), psi)) ** 2
            best = min(scipy.optimize.minimize(neg, x0, method='Nelder-Mead', options=dict(xatol=1e-10, fatol=1e-14, maxiter=4000)).fun
                       for x0 in ([0.1, 0.1, 0.1], [1.4, 0.1, 0.1], [0.1, 1.4, 0.1], [0.1, 0.1, 1.4], [0.6, 0.6, 0.6]))
            return g, 1 + best
        r = guarded(f)
        if isinstance(r, str) or not (-1e-12 <= r[0] <= 2 / 3 + 1e-9) or abs(r[0] - r[1]) > 1e-6:
            ctx.fail('wtype-gme', f'get_Wtype_state_GME({a_},{b_},{c_}) = {r if isinstance(r, str) else r[0]} disagrees with the direct maximisation over product states ({r})', dict(op='get_Wtype_state_GME', a=a_, b=b_, c=c_))
        else:
            ctx.probe_ok(('wtgme', trial))
    for bad in [(0.5, 0.5, 0.5), (1.0, 1e-4, 0.0)]:
        if guarded(lambda: S.get_Wtype_state_GME(*bad)) != 'error:assert':
            ctx.fail('wtype-gme', f'get_Wtype_state_GME{bad} must reject unnormalised coefficients', dict(op='get_Wtype_state_GME', a=bad[0], b=bad[1], c=bad[2]))
    for dim in ([4, 6, 10, 16] if ctx.quick() else [4, 6, 8, 10, 16, 30, 64]):
        P = guarded(lambda: np.asarray(numqi.unique_determine.get_element_probing_POVM('eq9', dim)))
        bad = isinstance(P, str) or P.shape != (4 * dim, dim, dim)
        if not bad:
            for b_ in range(4):
                blk = P[b_ * dim:(b_ + 1) * dim]
                bad = bad or amax(blk.sum(axis=0) - np.eye(dim)) > 1e-12 or amax(np.einsum('iab,jba->ij', blk, blk) - np.eye(dim)) > 1e-12 or amax(blk - blk.conj().transpose(0, 2, 1)) > 1e-15
        if bad:
            ctx.fail('eprobe-eq9', f"get_element_probing_POVM('eq9',{dim}): the four blocks are not projective measurements (rank-one orthogonal projectors resolving the identity)", dict(op='eprobe', kind='eq9', dim=dim))
        else:
            ctx.probe_ok(('eq9', dim))
    for dim in [2, 3, 5, 9]:
        P = guarded(lambda: np.asarray(numqi.unique_determine.get_element_probing_POVM('eq8', dim)))
        if isinstance(P, str) or P.shape != (2 * dim, dim, dim) or amax(P - P.conj().transpose(0, 2, 1)) > 0 or np.linalg.matrix_rank(P.reshape(2 * dim, -1)) != 2 * dim or amax(P[0] - np.eye(dim)) > 0:
            ctx.fail('eprobe-eq8', f"get_element_probing_POVM('eq8',{dim}): not 2*dim linearly independent Hermitian operators starting with the identity", dict(op='eprobe', kind='eq8', dim=dim))
        else:
            ctx.probe_ok(('eq8', dim))

    # UPBs: orthonormal product vectors; complement projector is a PPT state of rank D-|UPB|
    for kind, args in upb_cases(ctx):
        label = upb_label(kind, args)
        rep = dict(op='load_upb', kind=kind, args=args)
        r = guarded(lambda: (numqi.entangle.load_upb(kind, args, ignore_warning=True), numqi.entangle.load_upb(kind, args, return_product=True, return_bes=True, ignore_warning=True)))
        if isinstance(r, str):
            ctx.fail('upb-load', f'load_upb({label}) raised {r}', rep); continue
        upb, (prod, bes) = r
        dims = [int(x.shape[1]) for x in upb]
        D = int(np.prod(dims)); m = upb[0].shape[0]
        ref = upb[0]
        for x in upb[1:]:
            ref = (ref[:, :, None] * x[:, None, :]).reshape(m, -1)
        G = prod.conj() @ prod.T
        if prod.shape != (m, D) or np.abs(prod - ref).max() > 1e-14 or np.abs(G - np.eye(m)).max() > 1e-10:
            worst = np.unravel_index(np.argmax(np.abs(G - np.eye(m))), G.shape) if prod.shape == (m, D) else None
            ctx.fail('upb-orthonormal', f'load_upb({label}): product vectors are not orthonormal (worst pair {worst}, |<a|b>-delta|={np.abs(G - np.eye(m)).max():.3g})', rep)
            continue
        ctx.probe_ok(('upb-on', label))
        ok = check_dm(ctx, 'upb-bes-dm', bes, rep, dim=D, what=f'load_upb({label}) BES')
        if ok:
            ev = np.linalg.eigvalsh(bes)
            rank = int(np.sum(ev > 1e-10))
            if rank != D - m or np.abs(ev[ev > 1e-10] - 1 / (D - m)).max() > 1e-10:
                ctx.fail('upb-bes-rank', f'load_upb({label}): BES is not the normalised projector of rank D-|UPB|={D - m} (rank {rank})', rep)
            else:
                ctx.probe_ok(('upb-rank', label))
            worst = 0.0
            for p in range(len(dims)):
                dA = int(np.prod(dims[:p])); dB = dims[p]; dC = int(np.prod(dims[p + 1:]))
                T = bes.reshape(dA, dB, dC, dA, dB, dC).transpose(0, 4, 2, 3, 1, 5).reshape(D, D)
                worst = min(worst, min_eig(T))
            if worst < -1e-10:
                ctx.fail('upb-bes-ppt', f'load_upb({label}): BES is not PPT (min eigenvalue {worst:.3g})', rep)
            else:
                ctx.probe_ok(('upb-ppt', label))
            if np.abs(bes @ prod.T).max() > 1e-10:
                ctx.fail('upb-bes-orthogonal', f'load_upb({label}): BES is not supported on the orthogonal complement of the UPB', rep)
            else:
                ctx.probe_ok(('upb-perp', label))

    # tetrahedron POVM and Chebyshev bases
    for n in range(1, 5 if ctx.quick() else 6):
        P = guarded(lambda: numqi.utils.get_tetrahedron_POVM(n))
        bad = isinstance(P, str) or P.shape != (4 ** n, 2 ** n, 2 ** n) or np.abs(P.sum(axis=0) - np.eye(2 ** n)).max() > 1e-12 \
            or np.abs(P - P.conj().transpose(0, 2, 1)).max() > 1e-12 or min(np.linalg.eigvalsh(x)[0] for x in P) < -1e-12
        if not bad:
            # informationally complete: the 4^n elements are linearly independent; SIC overlaps tr(Pi Pj) constant for i != j (n=1)
            bad = np.linalg.matrix_rank(P.reshape(4 ** n, -1), tol=1e-10) != 4 ** n
            if n == 1:
                ov = np.einsum('iab,jba->ij', P, P).real
                bad = bad or np.abs(ov - (np.eye(4) * (1 / 4 - 1 / 12) + 1 / 12)).max() > 1e-12
        if bad:
            ctx.fail('tetrahedron-povm', f'get_tetrahedron_POVM({n}) is not an informationally complete POVM (resolution of identity / positivity / SIC overlaps)', dict(op='tetrahedron', n=n))
        else:
            ctx.probe_ok(('tetra', n))
    for d in range(2, 13 if ctx.quick() else 41):
        for alpha in [0.0, 0.3, np.pi / 2, rng.uniform(0, 6)]:
            for wc in (False, True):
                r = guarded(lambda: numqi.unique_determine.get_chebshev_orthonormal(d, alpha, with_computational_basis=wc, return_basis=True))
                bad = isinstance(r, str)
                if not bad:
                    proj, bl = r
                    bad = len(bl) != (5 if wc else 4) or proj.shape != (d * len(bl), d, d)
                    for B in ([] if bad else bl):
                        bad = bad or B.shape != (d, d) or np.abs(B.conj() @ B.T - np.eye(d)).max() > 1e-10
                    if not bad:
                        allb = np.concatenate(bl, axis=0)
                        bad = np.abs(proj - allb[:, :, None] * allb[:, None, :].conj()).max() > 1e-12 \
                            or max(np.abs(proj[i * d:(i + 1) * d].sum(axis=0) - np.eye(d)).max() for i in range(len(bl))) > 1e-10
                if bad:
                    ctx.fail('chebyshev-orthonormal', f'get_chebshev_orthonormal({d},{alpha},with_computational_basis={wc}): bases not orthonormal / projectors do not resolve the identity', dict(op='chebyshev', d=d, alpha=float(alpha), with_computational_basis=wc))
                else:
                    ctx.probe_ok(('cheb', d, wc))


    # ------------------------------------------------------------------------------------------------------------------------------
    # hardening: aliasing of array arguments, histories (repeat / interleave / overwrite the returned arrays), large sizes, module constants
    def snap(x):
        if isinstance(x, (list, tuple)):
            return [snap(y) for y in x]
        return np.array(x, copy=True) if isinstance(x, np.ndarray) else copy.deepcopy(x)

    def same(x, y):
        if isinstance(x, (list, tuple)):
            return isinstance(y, (list, tuple)) and len(x) == len(y) and all(same(u, v) for u, v in zip(x, y))
        return np.array_equal(np.asarray(x), np.asarray(y), equal_nan=True)

    def poison(x):
        if isinstance(x, (list, tuple)):
            for y in x: poison(y)
        elif isinstance(x, np.ndarray) and x.flags.writeable:
            x[...] = 7

    def unmodified(key, label, f, arrays, replay):
        """call f twice on the very same argument objects: arguments bit-identical afterwards, both results equal"""
        before = [np.array(a, copy=True) for a in arrays]
        r = guarded(lambda: (snap(f()), snap(f())))
        if isinstance(r, str) or not same(r[0], r[1]) or not all(np.array_equal(a, b) and a.dtype == b.dtype for a, b in zip(arrays, before)):
            ctx.fail(key, f'{label}: ' + (f'raised {r}' if isinstance(r, str) else ('two calls on the same arguments differ' if not same(r[0], r[1]) else 'an argument array was modified')), replay)
            return None
        ctx.probe_ok((key, label))
        return r[0]

    with np.errstate(all='ignore'):
        for tag, mk in [('float64', lambda c: np.array(c, dtype=np.float64)), ('int64', lambda c: np.array(c, dtype=np.int64)), ('complex128', lambda c: np.array(c, dtype=np.complex128)),
                        ('strided', lambda c: np.array([x for y in c for x in (y, 99)], dtype=np.float64)[::2]), ('read-only', lambda c: np.array(c, dtype=np.float64))]:
            c = mk([1, 2, 2, -1]);
            if tag == 'read-only': c.flags.writeable = False
            r = unmodified('aliasing-args', f'Wtype({tag})', lambda: S.Wtype(c), [c], dict(op='Wtype', coeff=[1, 2, 2, -1], variant=tag))
            if r is not None and abs(np.vdot(r, r).real - 1) > 1e-12:
                ctx.fail('aliasing-args', f'Wtype({tag}) not normalised', dict(op='Wtype', coeff=[1, 2, 2, -1], variant=tag))
            al = mk([-0.2, 0.0, 0.3, 0.45, 0.9]) if tag != 'int64' else np.array([0, 1, 0, 1, 1])
            if tag == 'read-only': al.flags.writeable = False
            if tag == 'complex128': continue
            for d in (2, 3, 5):
                for fn in (S.get_Werner_eof, S.get_Werner_GME, S.get_Isotropic_eof, S.get_Isotropic_GME):
                    r = unmodified('aliasing-args', f'{fn.__name__}({d}, {tag} array)', lambda: fn(d, al), [al], dict(op=fn.__name__, d=d, alpha=np.asarray(al, dtype=np.float64).tolist(), variant=tag))
                    if r is not None:
                        want = np.array([float(fn(d, float(a))) for a in np.asarray(al, dtype=np.float64)])
                        if not np.allclose(np.asarray(r, dtype=np.float64), want, rtol=0, atol=1e-14, equal_nan=True):
                            ctx.fail('aliasing-args', f'{fn.__name__}({d}, {tag} array) differs from the scalar evaluations', dict(op=fn.__name__, d=d, alpha=np.asarray(al, dtype=np.float64).tolist(), variant=tag))
        six = np.array([1.1, 0.7, 0.3, 2.1, 0.9, 4.0])
        unmodified('aliasing-args', 'load_upb(sixparam, array)', lambda: numqi.entangle.load_upb('sixparam', six, return_bes=True, ignore_warning=True), [six], dict(op='load_upb', kind='sixparam', args=six.tolist()))
        for kind, args in upb_cases(ctx)[:12]:
            upb = guarded(lambda: numqi.entangle.load_upb(kind, args, ignore_warning=True))
            if isinstance(upb, str):
                continue
            arrs = list(upb)
            label = upb_label(kind, args)
            unmodified('aliasing-args', f'upb_to_bes(load_upb({label}))', lambda: numqi.entangle.upb_to_bes(upb), arrs, dict(op='upb_to_bes', kind=kind, args=args))
            unmodified('aliasing-args', f'get_upb_product(load_upb({label}))', lambda: numqi.entangle.get_upb_product(upb), arrs, dict(op='get_upb_product', kind=kind, args=args))
            prod = numqi.entangle.get_upb_product(upb)
            r = unmodified('aliasing-args', f'upb_to_bes(product of {label})', lambda: numqi.entangle.upb_to_bes(prod), [prod], dict(op='upb_to_bes', kind=kind, args=args, variant='product array'))
            if r is not None and amax(r - numqi.entangle.upb_to_bes(upb)) > 1e-14:
                ctx.fail('aliasing-args', f'upb_to_bes(product array) != upb_to_bes(list) for {label}', dict(op='upb_to_bes', kind=kind, args=args))

        # histories: every constructor repeated, interleaved with the others, and with the returned arrays overwritten by the caller
        cons = [('W3', lambda: S.W(3)), ('W5', lambda: S.W(5)), ('GHZ3', lambda: S.GHZ(3)), ('Bell2', lambda: S.Bell(2)), ('Dicke21', lambda: S.Dicke(2, 1)), ('Werner3', lambda: S.Werner(3, 0.4)),
                ('Iso3', lambda: S.Isotropic(3, 0.4)), ('mm3', lambda: S.maximally_mixed_state(3)), ('me3', lambda: S.maximally_entangled_state(3)), ('mc4', lambda: S.maximally_coherent_state(4)),
                ('mc4dm', lambda: S.maximally_coherent_state(4, return_dm=True)), ('h24', lambda: S.get_bes2x4_Horodecki1997(0.3)), ('h33', lambda: S.get_bes3x3_Horodecki1997(0.3)),
                ('ant', lambda: S.get_2qutrit_Antoine2022(0.7)), ('tetra2', lambda: numqi.utils.get_tetrahedron_POVM(2)), ('tetra1', lambda: numqi.utils.get_tetrahedron_POVM(1)),
                ('cheb5', lambda: numqi.unique_determine.get_chebshev_orthonormal(5, 0.3, return_basis=True)), ('cheb4c', lambda: numqi.unique_determine.get_chebshev_orthonormal(4, 0.3, with_computational_basis=True)),
                ('weof', lambda: S.get_Werner_eof(3, np.linspace(-1, 1, 7))), ('igme', lambda: S.get_Isotropic_GME(3, np.linspace(-0.125, 1, 7)))]
        for kind, args in upb_cases(ctx):
            cons.append((upb_label(kind, args), (lambda kind=kind, args=args: numqi.entangle.load_upb(kind, args, return_bes=True, ignore_warning=True))))
            cons.append((upb_label(kind, args) + '-product', (lambda kind=kind, args=args: numqi.entangle.load_upb(kind, args, return_product=True, ignore_warning=True))))
        first = {}
        order = cons + cons + [cons[i] for i in rng.sample(range(len(cons)), len(cons))] + cons[::-1]
        for step, (name, f) in enumerate(order):
            r = guarded(lambda: snap(f()))
            if isinstance(r, str):
                ctx.fail('history-repeat', f'step {step}: {name} raised {r}', dict(op='history', step=step, name=name)); continue
            if name not in first:
                first[name] = r
            elif not same(r, first[name]):
                ctx.fail('history-repeat', f'step {step}: {name} differs from its first result (calls so far: repeat, interleave, overwrite returned arrays); previous calls {[n for n, _ in order[max(0, step - 4):step]]}',
                         dict(op='history', step=step, name=name, previous=[n for n, _ in order[:step]][-10:]))
            else:
                ctx.probe_ok(('hist', name, step))
            guarded(lambda: poison(f()))      # the returned arrays belong to the caller: overwriting them must not leak into later calls

        # sizes across the documented ranges, up to the largest that is cheap
        big = [('W', lambda: S.W(20), 2 ** 20), ('GHZ', lambda: S.GHZ(20), 2 ** 20), ('maximally_entangled_state', lambda: S.maximally_entangled_state(300), 90000),
               ('maximally_coherent_state', lambda: S.maximally_coherent_state(100000), 100000), ('Dicke(5,4)', lambda: S.Dicke(5, 4), 2 ** 9), ('Dicke(3,3,2)', lambda: S.Dicke(3, 3, 2), 3 ** 8),
               ('Wtype(18)', lambda: S.Wtype(np.arange(1.0, 19.0)), 2 ** 18)]
        for name, f, dim in big:
            v = guarded(f)
            if isinstance(v, str) or v.shape != (dim,) or abs(np.vdot(v, v).real - 1) > 1e-10:
                ctx.fail('large-size', f'{name} at a large size is not a normalised ket of dimension {dim}: ' + (v if isinstance(v, str) else f'norm^2={np.vdot(v, v).real}'), dict(op=name, size='large'))
            else:
                ctx.probe_ok(('big', name))
        for name, f, dim in [('maximally_mixed_state(40)', lambda: S.maximally_mixed_state(40), 1600), ('Werner(30,0.9)', lambda: S.Werner(30, 0.9), 900), ('Isotropic(30,-1/899)', lambda: S.Isotropic(30, -1 / 899), 900),
                             ('maximally_coherent_state(300,dm)', lambda: S.maximally_coherent_state(300, return_dm=True), 300)]:
            rho = guarded(f)
            if isinstance(rho, str) or rho.shape != (dim, dim) or abs(np.trace(rho) - 1) > 1e-10 or amax(rho - rho.T.conj()) > 1e-14 or (dim <= 900 and min_eig(rho) < -1e-10):
                ctx.fail('large-size', f'{name} is not a density matrix of dimension {dim}: ' + (rho if isinstance(rho, str) else f'trace {np.trace(rho)}'), dict(op=name, size='large'))
            else:
                ctx.probe_ok(('big', name))
        for n in ([5] if ctx.quick() else [5, 6]):
            P = guarded(lambda: numqi.utils.get_tetrahedron_POVM(n))
            if isinstance(P, str) or P.shape != (4 ** n, 2 ** n, 2 ** n) or amax(P.sum(axis=0) - np.eye(2 ** n)) > 1e-10:
                ctx.fail('large-size', f'get_tetrahedron_POVM({n}) does not resolve the identity', dict(op='tetrahedron', n=n))
            else:
                ctx.probe_ok(('big', 'tetra', n))
        for d in ([64] if ctx.quick() else [64, 128]):
            r = guarded(lambda: numqi.unique_determine.get_chebshev_orthonormal(d, 0.3, return_basis=True)[1])
            if isinstance(r, str) or max(amax(B.conj() @ B.T - np.eye(d)) for B in r) > 1e-9:
                ctx.fail('large-size', f'get_chebshev_orthonormal({d}) bases not orthonormal', dict(op='chebyshev', d=d))
            else:
                ctx.probe_ok(('big', 'cheb', d))

    # buffer reuse across calls: a result must not be changed by the next call with a different input of the same size
    probe_buffer_reuse(ctx)

    changed = [k for k, v in const_before.items() if not np.array_equal(getattr(importlib.import_module(k[0]), k[1]), v, equal_nan=True)]
    if changed:
        ctx.fail('module-constants', f'module-level arrays changed during the run: {changed}', dict(op='module-constants', changed=[list(k) for k in changed]))
    else:
        ctx.probe_ok(('module-constants', len(const_before)))


def probe_buffer_reuse(ctx):
    """hardening class "buffer reuse across calls" (harness/bufreuse.py): constructors of the same output size called one after the
    other with different parameters (also across constructors: W/GHZ/Dicke/Wtype kets of one dimension, Werner/Isotropic/… density
    matrices of one dimension, UPB kinds of one shape); the first result must stay untouched, unshared and what it names"""
    import itertools
    import numqi
    from harness import bufreuse as BR
    S = numqi.state
    UD = numqi.unique_determine
    E = numqi.entangle
    calls = {
        'W': S.W, 'GHZ': S.GHZ, 'Bell': S.Bell, 'Dicke': S.Dicke, 'Wtype': lambda c: S.Wtype(np.array(c, dtype=np.float64)),
        'maximally_entangled_state': S.maximally_entangled_state, 'maximally_coherent_state': S.maximally_coherent_state,
        'maximally_coherent_state[dm]': lambda d: S.maximally_coherent_state(d, return_dm=True),
        'Werner': S.Werner, 'Isotropic': S.Isotropic, 'maximally_mixed_state': S.maximally_mixed_state,
        'get_bes2x4_Horodecki1997': S.get_bes2x4_Horodecki1997, 'get_bes3x3_Horodecki1997': S.get_bes3x3_Horodecki1997, 'get_2qutrit_Antoine2022': S.get_2qutrit_Antoine2022,
        'get_Werner_eof': lambda d, a: S.get_Werner_eof(d, np.array(a)), 'get_Werner_GME': lambda d, a: S.get_Werner_GME(d, np.array(a)),
        'get_Isotropic_eof': lambda d, a: S.get_Isotropic_eof(d, np.array(a)), 'get_Isotropic_GME': lambda d, a: S.get_Isotropic_GME(d, np.array(a)),
        'get_tetrahedron_POVM': numqi.utils.get_tetrahedron_POVM, 'get_element_probing_POVM': UD.get_element_probing_POVM,
        'get_chebshev_orthonormal': lambda d, al, comp: UD.get_chebshev_orthonormal(d, al, with_computational_basis=comp, return_basis=True),
        'load_upb': lambda kind, args: E.load_upb(kind, args, ignore_warning=True),
        'load_upb[product]': lambda kind, args: E.load_upb(kind, args, return_product=True, ignore_warning=True),
        'load_upb[bes]': lambda kind, args: E.load_upb(kind, args, return_bes=True, ignore_warning=True),
    }

    def ket_ref(name, args):
        if name == 'W':
            v = np.zeros(2 ** args[0]); v[2 ** np.arange(args[0])] = args[0] ** -0.5; return v
        if name == 'GHZ':
            v = np.zeros(2 ** args[0]); v[[0, -1]] = 2 ** -0.5; return v
        if name == 'Bell':
            return np.array([[1, 0, 0, 1], [1, 0, 0, -1], [0, 1, 1, 0], [0, 1, -1, 0]][args[0]]) / math.sqrt(2)
        if name == 'Wtype':
            c = np.array(args[0], dtype=np.float64); v = np.zeros(2 ** len(c)); v[2 ** np.arange(len(c))] = c / np.linalg.norm(c); return v
        if name == 'maximally_entangled_state':
            return np.eye(args[0]).reshape(-1) / math.sqrt(args[0])
        if name == 'maximally_coherent_state':
            return np.ones(args[0]) / math.sqrt(args[0])
        if name == 'Dicke':
            dim, n = len(args), sum(args)
            v = np.zeros(dim ** n)
            for digits in itertools.product(range(dim), repeat=n):
                if all(digits.count(l) == args[l] for l in range(dim)):
                    v[sum(dg * dim ** (n - 1 - i) for i, dg in enumerate(digits))] = 1
            return v / np.linalg.norm(v)

    def dm_ok(rho, dim, ppt=None):
        rho = np.asarray(rho)
        if rho.shape != (dim, dim) or abs(np.trace(rho) - 1) > 1e-10 or amax(rho - rho.T.conj()) > 1e-12 or min_eig(rho) < -1e-10:
            return 'not a density matrix'
        return None

    def chk(r, a):
        name, args = a[0], a[1:]
        base = name.split('[')[0]
        if base in ('W', 'GHZ', 'Bell', 'Wtype', 'Dicke', 'maximally_entangled_state') or name == 'maximally_coherent_state':
            want = ket_ref(base, args)
            return None if np.shape(r) == want.shape and amax(np.asarray(r) - want) <= 1e-14 else f'{name}{args} is not the ket it names'
        if name == 'maximally_coherent_state[dm]':
            return None if amax(np.asarray(r) - np.ones((args[0],) * 2) / args[0]) <= 1e-14 else f'{name}{args} is not |+><+|'
        if name == 'Werner':
            return None if amax(np.asarray(r) - ref_werner(*args)) <= 1e-13 else f'Werner{args} is not the Werner state'
        if name == 'Isotropic':
            return None if amax(np.asarray(r) - ref_isotropic(*args)) <= 1e-13 else f'Isotropic{args} is not the isotropic state'
        if name == 'maximally_mixed_state':
            return None if np.shape(r) == (args[0] ** 2,) * 2 and amax(np.asarray(r) - np.eye(args[0] ** 2) / args[0] ** 2) <= 1e-15 else f'maximally_mixed_state{args} != 1/d^2'
        if name == 'get_bes2x4_Horodecki1997':
            return None if amax(np.asarray(r) - ref_horodecki2x4(*args)) <= 1e-13 else f'{name}{args} is not the Horodecki 2x4 state'
        if name == 'get_bes3x3_Horodecki1997':
            return None if amax(np.asarray(r) - ref_horodecki3x3(*args)) <= 1e-13 else f'{name}{args} is not the Horodecki 3x3 state'
        if name == 'get_2qutrit_Antoine2022':
            return dm_ok(r, 9)
        if name.startswith('get_Werner_') or name.startswith('get_Isotropic_'):
            fn = getattr(S, name)
            with np.errstate(all='ignore'):
                want = np.array([float(fn(args[0], float(x))) for x in args[1]])
            return None if np.allclose(np.asarray(r, dtype=np.float64), want, rtol=0, atol=1e-14, equal_nan=True) else f'{name}{args} differs from the scalar evaluations'
        if name == 'get_tetrahedron_POVM':
            P = np.asarray(r); n = args[0]
            return None if P.shape == (4 ** n, 2 ** n, 2 ** n) and amax(P.sum(axis=0) - np.eye(2 ** n)) <= 1e-12 and amax(P - P.conj().transpose(0, 2, 1)) <= 1e-14 else f'tetrahedron POVM ({n}) does not resolve the identity'
        if name == 'get_element_probing_POVM':
            P = np.asarray(r); kind, dim = args
            ok = P.ndim == 3 and P.shape[1:] == (dim, dim) and amax(P - P.conj().transpose(0, 2, 1)) <= 1e-14
            if ok and kind == 'eq8':
                ok = P.shape[0] == 2 * dim and abs(P[0][0, 0] - 1) <= 1e-14 and np.linalg.matrix_rank(P.reshape(len(P), -1)) == len(P)
            if ok and kind == 'eq9':
                ok = amax(np.einsum('aij,ajk->aik', P, P) - P) <= 1e-12 and amax(P.sum(axis=0) - (len(P) // dim) * np.eye(dim)) <= 1e-12
            return None if ok else f'get_element_probing_POVM{args} is not the {kind} set of dimension {dim}'
        if name == 'get_chebshev_orthonormal':
            d, al, comp = args
            P, Bs = r
            ok = len(Bs) == (5 if comp else 4) and np.shape(P) == (d * len(Bs), d, d) and all(amax(B.conj() @ B.T - np.eye(d)) <= 1e-10 for B in Bs) \
                and amax(Bs[2] - Bs[0] * np.exp(1j * al * np.arange(d))) <= 1e-12 and amax(np.asarray(P)[:d] - np.einsum('ai,aj->aij', Bs[0], Bs[0].conj())) <= 1e-12
            return None if ok else f'get_chebshev_orthonormal{args}: bases not orthonormal / not the alpha={al} family'
        if base == 'load_upb':
            kind, ar = args
            upb = E.load_upb(kind, ar, ignore_warning=True)
            prod = np.asarray(E.get_upb_product(upb))
            if name == 'load_upb':
                return None if len(r) == len(upb) and all(np.shape(x) == np.shape(y) and amax(np.asarray(x) - np.asarray(y)) == 0 for x, y in zip(r, upb)) \
                    and amax(prod.conj() @ prod.T - np.eye(len(prod))) <= 1e-10 else f'load_upb({upb_label(kind, ar)}) is not the orthonormal product set of a fresh call'
            if name == 'load_upb[product]':
                rr = np.asarray(r)
                return None if rr.shape == prod.shape and amax(rr - prod) <= 1e-14 and amax(rr.conj() @ rr.T - np.eye(len(rr))) <= 1e-10 else f'load_upb({upb_label(kind, ar)}, return_product) is not its orthonormal product set'
            D = prod.shape[1]
            want = (np.eye(D) - prod.T @ prod.conj()) / (D - len(prod))
            ok = isinstance(r, tuple) and len(r) == 2 and len(r[0]) == len(upb) and all(np.shape(x) == np.shape(y) and amax(np.asarray(x) - np.asarray(y)) == 0 for x, y in zip(r[0], upb)) \
                and np.shape(r[1]) == want.shape and amax(np.asarray(r[1]) - want) <= 1e-12
            return None if ok else f'load_upb({upb_label(kind, ar)}, return_bes) != (the product set, (1 - sum |v><v|)/(D - n))'
        return f'no oracle for {name}'

    f = lambda name, *args: calls[name](*args)
    lab = lambda a: f'{a[0]}{tuple(a[1:])}'
    js = lambda a: [a[0]] + [list(x) if isinstance(x, (tuple, list)) else x for x in a[1:]]
    groups = [
        # kets of dimension 4, 8, 9, 16
        [('Bell', 0), ('Bell', 3), ('W', 2), ('GHZ', 2), ('Dicke', 1, 1), ('Dicke', 2, 0), ('maximally_entangled_state', 2), ('maximally_coherent_state', 4), ('Wtype', (1.0, 2.0)), ('Wtype', (3.0, -1.0))],
        [('W', 3), ('GHZ', 3), ('Dicke', 2, 1), ('Dicke', 1, 2), ('Wtype', (1.0, 2.0, 3.0)), ('Wtype', (3.0, 1.0, 1.0)), ('maximally_coherent_state', 8)],
        [('Dicke', 1, 1, 0), ('Dicke', 0, 1, 1), ('Dicke', 2, 0, 0), ('maximally_entangled_state', 3), ('maximally_coherent_state', 9)],
        [('W', 4), ('Dicke', 2, 2), ('GHZ', 4), ('Dicke', 1, 3), ('maximally_entangled_state', 4), ('Wtype', (1.0, 1.0, 2.0, 5.0))],
        # density matrices of dimension 4, 8, 9
        [('Werner', 2, 0.3), ('Werner', 2, -0.7), ('Isotropic', 2, 0.3), ('Isotropic', 2, 0.9), ('maximally_mixed_state', 2), ('maximally_coherent_state[dm]', 4)],
        [('get_bes2x4_Horodecki1997', 0.3), ('get_bes2x4_Horodecki1997', 0.8), ('maximally_coherent_state[dm]', 8)],
        [('Werner', 3, 0.4), ('Werner', 3, -0.2), ('Isotropic', 3, 0.4), ('Isotropic', 3, 0.05), ('get_bes3x3_Horodecki1997', 0.3), ('get_bes3x3_Horodecki1997', 0.6),
         ('get_2qutrit_Antoine2022', 0.7), ('get_2qutrit_Antoine2022', 1.9), ('maximally_mixed_state', 3), ('maximally_coherent_state[dm]', 9)],
        # closed-form measures on arrays of one length
        [('get_Werner_eof', 3, (-1.0, 0.2, 0.5, 1.0)), ('get_Werner_eof', 3, (0.9, 0.4, -0.3, 0.34)), ('get_Werner_GME', 3, (-1.0, 0.2, 0.5, 1.0)), ('get_Werner_GME', 3, (0.9, 0.4, -0.3, 0.34)),
         ('get_Isotropic_eof', 3, (-0.125, 0.2, 0.5, 1.0)), ('get_Isotropic_eof', 3, (0.9, 0.26, 0.0, 0.3)), ('get_Isotropic_GME', 3, (-0.125, 0.2, 0.5, 1.0)), ('get_Isotropic_GME', 3, (0.9, 0.26, 0.0, 0.3))],
        # measurement sets
        [('get_tetrahedron_POVM', 1), ('get_tetrahedron_POVM', 2), ('get_tetrahedron_POVM', 1)],
        [('get_element_probing_POVM', 'eq8', 4), ('get_element_probing_POVM', 'eq9', 4), ('get_element_probing_POVM', 'eq8', 6), ('get_element_probing_POVM', 'eq9', 6), ('get_element_probing_POVM', 'eq8', 4)],
        [('get_chebshev_orthonormal', 4, 0.3, False), ('get_chebshev_orthonormal', 4, 0.7, False), ('get_chebshev_orthonormal', 4, 1.1, False)],
        [('get_chebshev_orthonormal', 5, 0.3, True), ('get_chebshev_orthonormal', 5, 0.9, True)],
    ]
    # UPBs: kinds / parameters with the same shapes of the local factors
    six = [(1.1, 0.7, 0.3, 2.1, 0.9, 4.0), (0.4, 1.2, 2.0, 0.8, 0.5, 1.0)]
    upbs = [('tiles', None), ('pyramid', None), ('sixparam', six[0]), ('sixparam', six[1]), ('feng4x4', None), ('min4x4', None), ('genshifts', 3), ('feng2x2x2x2', None),
            ('quadres', 3), ('quadres', 7), ('gentiles1', 4), ('gentiles1', 6), ('gentiles2', (3, 4)), ('gentiles2', (4, 4)), ('genshifts', 5)]
    by_shape = {}
    for kind, args in upbs:
        u = guarded(lambda: E.load_upb(kind, args, ignore_warning=True))
        if isinstance(u, str):
            ctx.fail('load_upb' + BR.SUFFIX, f'load_upb({upb_label(kind, args)}) raised {u}', dict(op='buffer-reuse', function='load_upb', history=[upb_label(kind, args)])); continue
        by_shape.setdefault(tuple(np.shape(x) for x in u), []).append((kind, args))
    for sig, members in by_shape.items():
        for variant in ('load_upb', 'load_upb[product]', 'load_upb[bes]'):
            groups.append([(variant,) + m for m in members] if len(members) > 1 else [(variant,) + members[0], (variant,) + members[0]])
    ctx.extra['bufreuse_upb_shape_groups'] = {str(k): [upb_label(*m) for m in v] for k, v in by_shape.items()}
    with np.errstate(all='ignore'):
        for g in groups:
            for A, B in zip(g, g[1:] + g[:1]):
                if A == B and len(g) > 2:
                    continue
                BR.run_pair(ctx, A[0].split('[')[0], f, A, B, check=chk, label=lab, jsonable=js)


def replay(ctx, payload):
    """--replay: a `<fn>:result-overwritten-by-next-call` record re-runs the (deterministic) buffer-reuse block only; anything else
    re-runs the whole probe; reports whether the recorded key fails again"""
    key = payload.get('key', '')
    if key.endswith(':result-overwritten-by-next-call'):
        probe_buffer_reuse(ctx)
    else:
        probe(ctx)
    hit = [x for x in ctx.failures if x['key'] == key]
    if hit:
        print(f"replay: {key} still fails: {hit[0]['what']}")
        print(f'VIOLATION property={ctx.pid} replay={ctx.replay_path}')
        return 1
    print(f'replay: {key} no longer fails ({ctx.probe_evals} probe evaluations)')
    return 0


def search(ctx, hints):
    # the probe already evaluates the property on the same grids (and denser ones); nothing beyond it
    return
