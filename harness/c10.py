"""C10 — random generators return valid objects and are reproducible from a seed.

Reproducibility: lean/NumqiModel/SeedFlow.lean (DSL + interpreter), lean/NumqiModel/Generated/SeedPrograms.lean
(written by `translate`, see harness/c10_translate.py), lean/NumqiProps/C10.lean (`noninterference`, `seedClosed_all`).
Tie: for every translated function the model's verdict `seedClosed` is compared with what the real code does when it is
called twice with the same int seed while the global numpy / python / torch generators are perturbed in between
(bit-identical outputs, no generator created from None, no global generator state consumed).
Validity: direct probe of every public generator of numqi.random on every admissible argument combination.
"""
import os
import json
import math
import random
import itertools
import numpy as np
from . import common
from . import c10_translate

THEOREM_FILES = ['NumqiProps/C10.lean', 'NumqiProps/C10Generated.lean', 'NumqiProps/C10F2.lean', 'NumqiProps/C10Compose.lean']
GREP_FILES = ['NumqiModel/Generated/SeedPrograms.lean']
LEVEL = 'proof'
RULE = ('one model program per function/method/class with a seed (or generator) parameter in the nine anchored files, regenerated from the source on '
        'every run; each is exercised on every optional-argument branch (k None/int, kind, tag_complex, pure_term, return_dm, eig, size None/int/tuple, '
        'return_kind, theta0 kinds, ...) with several int seeds: two calls with the same seed, global generators re-seeded differently and advanced in '
        'between, outputs compared bit for bit. An evaluation is non-trivial when the output contains at least one random number; distinct = distinct '
        '(function, argument combination, seed).')
TRUSTED = ['Lean 4.33 kernel', 'axioms: propext, Classical.choice, Quot.sound', 'Lean compiler for the driver executable',
           'harness/c10_translate.py (AST walk + name resolution through the imported modules + inspect.signature binding); validated on every run by the '
           'double-run experiment on every translated function',
           'contract: numpy.random.Generator / random.Random built from equal integers yield equal streams (GenModel in SeedFlow.lean)',
           'calls through instance attributes and arguments (model(), self.manifold(), loss.backward(), cvxpy solve, scipy.optimize.minimize) are assumed '
           'not to draw random numbers; a user callback handed the generator is assumed to draw only from it',
           'validity of the generated objects: probed with tolerance 1e-9 (LAPACK eigh/qr/inv/expm are contracts); the algebraic normalisation lemmas of '
           'NumqiProps/C10.lean are over exact fields']

GEN_PATH = os.path.join(common.LEAN, 'NumqiModel', 'Generated', 'SeedPrograms.lean')
TOL = 1e-9
_TR = {}

# the seeded entry points of the nine anchored files on the pinned tree (pinned here so that a function that silently leaves the
# translator's list — e.g. because its seed parameter was renamed — is noticed: `tclosed <name>` then answers `unknown-program`)
EXPECTED_PROGRAMS = [
    'numqi.random._internal.' + x for x in (
        '_random_complex rand_haar_state rand_haar_unitary rand_special_orthogonal_matrix rand_density_matrix rand_kraus_op rand_choi_op rand_povm '
        'rand_bipartite_state rand_separable_dm rand_hermitian_matrix rand_channel_matrix_space rand_quantum_channel_matrix_subspace '
        'rand_ABk_density_matrix rand_reducible_matrix_subspace rand_symmetric_inner_product rand_orthonormal_matrix_basis rand_adjacent_matrix '
        'rand_n_sphere rand_n_ball').split()] + [
    'numqi.random._spf2.' + x for x in 'rand_F2 rand_SpF2 rand_Clifford_group rand_pauli'.split()] + [
    'numqi.sim.state.measure_quantum_vector', 'numqi.sim.circuit.MeasureGate', 'numqi.sim.circuit.Circuit.measure', 'numqi.sim.clifford.CliffordCircuit',
    'numqi.entangle.cha._rand_norm_bounded_unitary', 'numqi.entangle.cha._cha_reset_state', 'numqi.entangle.cha.CHABoundaryBagging._rand_init_state',
    'numqi.entangle.cha.CHABoundaryBagging.solve', 'numqi.entangle.cha.AutodiffCHAREE.get_boundary', 'numqi.entangle.cha.AutodiffCHAREE.get_numerical_range',
    'numqi.entangle.pureb.PureBosonicExt.get_boundary', 'numqi.entangle.pureb.PureBosonicExt.get_numerical_range',
    'numqi.optimize._internal.check_model_gradient', 'numqi.optimize._internal._get_hf_theta', 'numqi.optimize._internal.minimize',
    'numqi.optimize._internal.minimize_adam']


# ---------------------------------------------------------------------------------------------------------
# translation
# ---------------------------------------------------------------------------------------------------------
def canonical_name(tr, dotted):
    """the program name of the function / class reachable under `dotted` (a helper moved to another module of the package and re-exported
    keeps its pinned name: the pin follows the import table, not the file)"""
    import importlib
    parts = dotted.split('.')
    obj = None
    for k in range(len(parts), 0, -1):
        try:
            obj = importlib.import_module('.'.join(parts[:k]))
        except Exception:
            continue
        try:
            for q in parts[k:]:
                obj = getattr(obj, q)
        except AttributeError:
            return dotted
        break
    else:
        return dotted
    try:
        e = tr.entity_of_obj(obj)
    except Exception:
        e = None
    return e.name if e is not None else dotted


def expected_names(tr):
    return [canonical_name(tr, n) for n in EXPECTED_PROGRAMS]


def translate(ctx):
    tr = c10_translate.translate(common.REPO, GEN_PATH)
    _TR['tr'] = tr
    listed = [e for e in tr.order if e.listed]
    n = len(listed)
    ctx.extra['translated_programs'] = n
    ctx.extra['translated_not_closed'] = [e.name for e in listed if not c10_translate.closed_py(n, [], e.stmts)]
    ctx.extra['outside_anchored_files_static'] = {e.name: dict(closed=bool(c10_translate.closed_py(len(tr.order), [], e.stmts)), closed_with_callees=bool(tclosed_py(tr, e)))
                                                  for e in tr.order if not e.listed}
    ctx.extra['user_callbacks_handed_the_generator'] = sorted(set(tr.callbacks))
    ctx.extra['calls_on_user_supplied_arguments_assumed_deterministic'] = sorted(tr.contracts)
    ctx.extra['allow_list_entries_used'] = sorted(tr.used_pure)
    ctx.extra['unclassified_calls'] = sorted({f'{a}: {b}' for a, b in tr.unknown})[:60]
    exp = expected_names(tr)
    ctx.extra['expected_programs_missing'] = sorted(set(exp) - {e.name for e in listed})
    ctx.extra['programs_not_expected'] = sorted({e.name for e in listed} - set(exp))
    ctx.extra['expected_programs_renamed'] = {a: b for a, b in zip(EXPECTED_PROGRAMS, exp) if a != b}
    # the generated file is committed: on the unchanged tree it must be the translation of /repo itself and contain no `.unknownCall`
    # (a file left behind by a run against a patched scratch tree would)
    try:
        txt = open(GEN_PATH).read()
    except OSError as e:
        txt = ''
        ctx.note(f'generated file not readable: {e}')
    n_unknown = txt.count('.unknownCall')
    ctx.extra['generated_file_unknownCall_count'] = n_unknown
    ctx.extra['generated_file_source_tree'] = common.REPO
    clean = os.path.realpath(common.REPO) == os.path.realpath('/repo')
    if clean:
        # consistency of the committed artefact: what is on disk is exactly the translation of /repo made in this run, and a closed
        # translation contains no `.unknownCall` (a non-closed translation of /repo itself is reported through `seedClosed_all`)
        assert (n_unknown == 0) == (not any('unknownCall' in repr(e.stmts) for e in listed)), 'generated file is not the translation of /repo made in this run'
    elif not _TR.get('restore_registered'):
        # a run against a patched scratch tree must not leave its translation behind in the (committed) generated file
        import atexit
        def restore():
            try:
                with common.build_lock():
                    c10_translate.translate('/repo', GEN_PATH)
            except Exception:
                pass
        atexit.register(restore)
        _TR['restore_registered'] = True
    return tr


def callees_py(stmts):
    out = []
    for st in stmts:
        if st[0] == 'call':
            out.append(st[1])
        elif st[0] == 'branch':
            out += callees_py(st[2]) + callees_py(st[3])
        elif st[0] == 'loop':
            out += callees_py(st[2])
    return out


def tclosed_py(tr, ent):
    """closed together with everything it calls (python mirror, used for the entry points outside the anchored files)"""
    n = len(tr.order)
    seen, todo = set(), [ent.index]
    while todo:
        i = todo.pop()
        if i in seen or i >= n:
            continue
        seen.add(i)
        if not c10_translate.closed_py(n, [], tr.order[i].stmts):
            return False
        todo += callees_py(tr.order[i].stmts)
    return True


def get_tr(ctx):
    if 'tr' not in _TR:
        translate(ctx)
    return _TR['tr']


# ---------------------------------------------------------------------------------------------------------
# canonical comparison of outputs
# ---------------------------------------------------------------------------------------------------------
def canon(x):
    """a hashable, bit-exact image of an output"""
    import torch
    if x is None or isinstance(x, (bool, int, str)):
        return ('v', x)
    if isinstance(x, float):
        return ('f', np.float64(x).tobytes())
    if isinstance(x, complex):
        return ('c', np.complex128(x).tobytes())
    if isinstance(x, np.generic):
        return ('g', x.dtype.str, x.tobytes())
    if isinstance(x, np.ndarray):
        if x.dtype == object:
            return ('o', tuple(canon(y) for y in x.reshape(-1).tolist()))
        return ('a', x.dtype.str, x.shape, np.ascontiguousarray(x).tobytes())
    if isinstance(x, torch.Tensor):
        return canon(x.detach().cpu().numpy())
    if isinstance(x, (list, tuple)):
        return ('l', tuple(canon(y) for y in x))
    if hasattr(x, 'x') and hasattr(x, 'fun'):  # scipy OptimizeResult (a dict subclass)
        return ('R', canon(np.asarray(x.x)), canon(float(x.fun)))
    if isinstance(x, dict):
        return ('d', tuple((k, canon(v)) for k, v in sorted(x.items(), key=lambda kv: str(kv[0]))))
    if hasattr(x, 'F2'):                       # PauliOperator
        return ('P', canon(np.asarray(x.F2)))
    raise TypeError(f'cannot canonicalise {type(x)}')


def has_random(x):
    return x is not None


def perturb(k):
    """re-seed the three global generators differently and advance them"""
    import torch
    np.random.seed((1234567 * (k + 1)) % (2 ** 32))
    np.random.rand(k % 7 + 1)
    random.seed(987 * k + 5)
    for _ in range(k % 5 + 1):
        random.random()
    torch.manual_seed(4242 + 31 * k)
    torch.rand(k % 3 + 1)


def alias_sites(orig):
    """(module, name) of every global of a loaded numqi module that is the function object `orig` (`from numpy.linalg import qr as _qr`)"""
    import sys
    out = []
    for mname, mod in list(sys.modules.items()):
        if mod is None or not (mname == 'numqi' or mname.startswith('numqi.')):
            continue
        try:
            items = list(vars(mod).items())
        except TypeError:
            continue
        for k, v in items:
            if v is orig:
                out.append((mod, k))
    return out


class Recorder:
    """records generators created from None and consumption of global generator state during a call"""
    def __init__(self):
        self.events = []

    def __enter__(self):
        import sys, torch
        import numqi.random._public as pub
        self.saved = []
        rec = self
        for fname in ('get_numpy_rng', 'get_random_rng'):
            orig = getattr(pub, fname)
            def wrapper(rng_or_seed=None, _orig=orig, _n=fname):
                if rng_or_seed is None:
                    rec.events.append(f'{_n}(None)')
                return _orig(rng_or_seed)
            wrapper.__wrapped__ = orig
            for mname, mod in list(sys.modules.items()):
                if mname.startswith('numqi') and mod is not None and getattr(mod, fname, None) is orig:
                    self.saved.append((mod, fname, orig))
                    setattr(mod, fname, wrapper)
        orig_dr = np.random.default_rng
        def dr(seed=None, *a, **k):
            if seed is None:
                rec.events.append('default_rng(None)')
            return orig_dr(seed, *a, **k)
        self.saved.append((np.random, 'default_rng', orig_dr))
        np.random.default_rng = dr
        for mod, k in alias_sites(orig_dr):          # `from numpy.random import default_rng` inside numqi
            self.saved.append((mod, k, orig_dr))
            setattr(mod, k, dr)
        self.s_np = np.random.get_state()
        self.s_py = random.getstate()
        self.s_t = torch.get_rng_state().clone()
        return self

    def __exit__(self, *exc):
        import torch
        s = np.random.get_state()
        if not (s[0] == self.s_np[0] and np.array_equal(s[1], self.s_np[1]) and s[2:] == self.s_np[2:]):
            self.events.append('global numpy generator state consumed')
        if random.getstate() != self.s_py:
            self.events.append('global python generator state consumed')
        if not torch.equal(torch.get_rng_state(), self.s_t):
            self.events.append('global torch generator state consumed')
        for mod, name, orig in self.saved:
            setattr(mod, name, orig)
        return False


# ---------------------------------------------------------------------------------------------------------
# recipes: every translated function on every optional-argument branch
# ---------------------------------------------------------------------------------------------------------
def _tiny_model():
    import torch
    class M(torch.nn.Module):
        def __init__(self):
            super().__init__()
            self.theta = torch.nn.Parameter(torch.tensor([0.3, -0.2, 0.1], dtype=torch.float64))
        def forward(self):
            return torch.sum((self.theta - torch.tensor([1.0, 2.0, 3.0], dtype=torch.float64)) ** 2) + torch.sum(torch.sin(self.theta)) ** 2
    return M()


def _werner(d, a):
    import numqi
    return numqi.state.Werner(d, a)


def recipes(quick):
    """list of (program name, label, f(seed) -> output).  `seed` is an int, or for generator-parameter helpers the
    function itself builds `np.random.default_rng(seed)`."""
    import numqi
    R = numqi.random
    I = numqi.random._internal
    out = []
    def add(name, label, f, prep=None):
        # `prep()` builds the object the seeded method is called on (outside the recorded region: constructors may
        # initialise parameters from the global generators, which is not part of the seeded call); `f(seed)` or `f(seed, obj)`
        out.append((name, label, f, prep))
    p = 'numqi.random._internal.'
    add(p + '_random_complex', 'size=(3,)', lambda s: I._random_complex(3, seed=s))
    add(p + '_random_complex', 'size=(2,3)', lambda s: I._random_complex(2, 3, seed=s))
    for tc in (True, False):
        add(p + 'rand_haar_state', f'tag_complex={tc}', lambda s, tc=tc: R.rand_haar_state(4, tag_complex=tc, seed=s))
    for d in (1, 2, 4, 40):
        add(p + 'rand_haar_unitary', f'dim={d}', lambda s, d=d: R.rand_haar_unitary(d, seed=s))
    for d in (1, 64, 4097):
        add(p + 'rand_haar_state', f'dim={d}', lambda s, d=d: R.rand_haar_state(d, seed=s))
    for d in (2, 33, 70):
        add(p + 'rand_adjacent_matrix', f'dim={d}', lambda s, d=d: R.rand_adjacent_matrix(d, seed=s))
    for bs in (None, 3):
        for tc in (False, True):
            add(p + 'rand_special_orthogonal_matrix', f'batch={bs},tag_complex={tc}', lambda s, bs=bs, tc=tc: R.rand_special_orthogonal_matrix(3, batch_size=bs, tag_complex=tc, seed=s))
    for k in (None, 1, 2):
        for kind in ('haar', 'bures'):
            add(p + 'rand_density_matrix', f'k={k},kind={kind}', lambda s, k=k, kind=kind: R.rand_density_matrix(3, k=k, kind=kind, seed=s))
    for tc in (True, False):
        add(p + 'rand_kraus_op', f'tag_complex={tc}', lambda s, tc=tc: R.rand_kraus_op(3, 2, 3, tag_complex=tc, seed=s))
    for rank in (None, 2):
        add(p + 'rand_choi_op', f'rank={rank}', lambda s, rank=rank: R.rand_choi_op(2, 3, rank=rank, seed=s))
    add(p + 'rand_povm', 'dim=3,num_term=4', lambda s: R.rand_povm(3, 4, seed=s))
    for dimB in (None, 3):
        for k in (None, 1, 2):
            for rdm in (False, True):
                add(p + 'rand_bipartite_state', f'dimB={dimB},k={k},return_dm={rdm}', lambda s, dimB=dimB, k=k, rdm=rdm: R.rand_bipartite_state(2, dimB, k=k, seed=s, return_dm=rdm))
    for dimB in (None, 3):
        for pt in (False, True):
            add(p + 'rand_separable_dm', f'dimB={dimB},pure_term={pt}', lambda s, dimB=dimB, pt=pt: R.rand_separable_dm(2, dimB, k=3, seed=s, pure_term=pt))
    for eig in (None, (-1.0, 2.0)):
        for tc in (True, False):
            add(p + 'rand_hermitian_matrix', f'eig={eig},tag_complex={tc}', lambda s, eig=eig, tc=tc: R.rand_hermitian_matrix(3, eig=eig, tag_complex=tc, seed=s))
    add(p + 'rand_channel_matrix_space', 'dim_in=3,num_term=3', lambda s: R.rand_channel_matrix_space(3, 3, seed=s))
    for nh in (1, 3, (1, 0), (3, 2)):
        add(p + 'rand_quantum_channel_matrix_subspace', f'num_hermite={nh}', lambda s, nh=nh: R.rand_quantum_channel_matrix_subspace(3, nh, seed=s))
    for kext in (1, 2, 3):
        add(p + 'rand_ABk_density_matrix', f'kext={kext}', lambda s, kext=kext: R.rand_ABk_density_matrix(2, 2, kext, seed=s))
    for ru in (False, True):
        add(p + 'rand_reducible_matrix_subspace', f'return_unitary={ru}', lambda s, ru=ru: R.rand_reducible_matrix_subspace(3, (2, 1, 2), return_unitary=ru, seed=s))
    add(p + 'rand_symmetric_inner_product', 'N0=3', lambda s: R.rand_symmetric_inner_product(3, seed=s))
    for ns in (None, 2):
        for wi in (False, True):
            for nq in (1, 2):
                add(p + 'rand_orthonormal_matrix_basis', f'num_sample={ns},with_I={wi},num_qudit={nq}',
                    lambda s, ns=ns, wi=wi, nq=nq: R.rand_orthonormal_matrix_basis(2, 2, num_qudit=nq, num_sample=ns, with_I=wi, seed=s))
    add(p + 'rand_adjacent_matrix', 'dim=5', lambda s: R.rand_adjacent_matrix(5, seed=s))
    for size in (None, 3, (2, 3), ()):
        add(p + 'rand_n_sphere', f'size={size}', lambda s, size=size: R.rand_n_sphere(4, size=size, seed=s))
        add(p + 'rand_n_ball', f'size={size}', lambda s, size=size: R.rand_n_ball(4, size=size, seed=s))
    q = 'numqi.random._spf2.'
    for nz, no in ((False, False), (True, False), (False, True), (True, True)):
        add(q + 'rand_F2', f'not_zero={nz},not_one={no}', lambda s, nz=nz, no=no: R.rand_F2(2, 2, not_zero=nz, not_one=no, seed=s))
    for rk in ('matrix', 'int_tuple', 'int_tuple-matrix'):
        add(q + 'rand_SpF2', f'return_kind={rk}', lambda s, rk=rk: R.rand_SpF2(2, return_kind=rk, seed=s))
    for n in (1, 2, 3, 32, 33, 40):      # 32: the index bases of Sp(2n,F2) cross 2^63
        add(q + 'rand_Clifford_group', f'n={n}', lambda s, n=n: R.rand_Clifford_group(n, seed=s))
    for n in (8, 31, 32, 33, 40):
        for rk in ('matrix', 'int_tuple'):
            add(q + 'rand_SpF2', f'n={n},return_kind={rk}', lambda s, n=n, rk=rk: R.rand_SpF2(n, return_kind=rk, seed=s))
    for shape in ((), (1,), (70,), (3, 5, 7)):
        add(q + 'rand_F2', f'size={shape}', lambda s, shape=shape: R.rand_F2(*shape, seed=s))
    for n in (1, 31, 32, 40):
        add(q + 'rand_pauli', f'n={n}', lambda s, n=n: R.rand_pauli(n, seed=s))
    for ih in (None, True, False):
        add(q + 'rand_pauli', f'is_hermitian={ih}', lambda s, ih=ih: R.rand_pauli(3, is_hermitian=ih, seed=s))
    # ---- simulator
    psi = np.arange(1, 33, dtype=np.float64) + 1j * np.arange(32, 0, -1)
    psi = share('psi', psi / np.linalg.norm(psi))
    for idx in ((0,), (1, 3), (0, 2, 4)):
        add('numqi.sim.state.measure_quantum_vector', f'index={idx}', lambda s, idx=idx: numqi.sim.state.measure_quantum_vector(psi, idx, seed=s))
    # dtype / layout variants of the state (the same array object is measured in both runs)
    psi_real = share('psi_real', np.sqrt(np.arange(1, 17, dtype=np.float64) / 136.0))
    psi_c64 = share('psi_c64', (psi[:16] / np.linalg.norm(psi[:16])).astype(np.complex64))
    big = np.zeros(32, dtype=np.complex128); big[::2] = psi[:16] / np.linalg.norm(psi[:16])
    share('psi_strided_base', big)
    psi_view = big[::2]
    for nm, arr in (('float64', psi_real), ('complex64', psi_c64), ('strided-view', psi_view)):
        add('numqi.sim.state.measure_quantum_vector', f'q0 {nm},index=(1,2)', lambda s, arr=arr: numqi.sim.state.measure_quantum_vector(arr, (1, 2), seed=s))
    def mg(s):
        g = numqi.sim.circuit.MeasureGate((1, 2), seed=s)
        res = []
        q0 = psi
        for _ in range(3):
            q1 = g.forward(q0)
            res.append((list(g.bitstr), np.asarray(g.probability), q1))
            q0 = psi
        return res
    add('numqi.sim.circuit.MeasureGate', 'forward x3', mg)
    def cm(s):
        circ = numqi.sim.Circuit()
        circ.H(0)
        circ.cnot(0, 1) if hasattr(circ, 'cnot') else circ.cx(0, 1)
        g = circ.measure((0, 1), seed=s)
        q0 = np.zeros(8, dtype=np.complex128); q0[0] = 1
        q1 = circ.apply_state(q0)
        return (list(g.bitstr), np.asarray(g.probability), q1)
    add('numqi.sim.circuit.Circuit.measure', 'H,CX,measure', cm)
    def cc(s):
        c = numqi.sim.clifford.CliffordCircuit(seed=s)
        for i in range(6):
            c.random_one_qubit_gate(i % 3)
            c.random_two_qubit_gate(i % 3, (i + 1) % 3)
        return [tuple(x) for x in c.gate_index_list]
    add('numqi.sim.clifford.CliffordCircuit', 'random gates', cc)
    # ---- convex hull approximation
    cha = numqi.entangle.cha
    add('numqi.entangle.cha._rand_norm_bounded_unitary', 'dim=2', lambda s: cha._rand_norm_bounded_unitary(2, 0.5, 3, np.random.default_rng(s)))
    def crs(s):
        rng = np.random.default_rng(s)
        ketA = np.eye(2, dtype=np.complex128)[[0, 1, 0, 1]]
        ketB = np.eye(2, dtype=np.complex128)[[0, 0, 1, 1]]
        return cha._cha_reset_state(ketA, ketB, np.array([0.5, 0.0, 0.5, 0.0]), 1e-7, 0.3, rng)
    add('numqi.entangle.cha._cha_reset_state', 'two dropped', crs)
    dm_w = share('dm_w', np.ascontiguousarray(_werner(2, 0.9)))
    mk_chab = lambda: cha.CHABoundaryBagging((2, 2))
    def chab_init(s, m):
        m.solve(dm_w, maxiter=0, num_init_retry=10, seed=s)     # runs _rand_init_state with the generator
        return (m.ketA, m.ketB)
    add('numqi.entangle.cha.CHABoundaryBagging._rand_init_state', 'via solve(maxiter=0)', chab_init, mk_chab)
    add('numqi.entangle.cha.CHABoundaryBagging.solve', 'maxiter=3', lambda s, m: m.solve(dm_w, maxiter=3, seed=s), mk_chab)
    add('numqi.entangle.cha.CHABoundaryBagging.solve', 'maxiter=3,return_info', lambda s, m: m.solve(dm_w, maxiter=3, return_info=True, seed=s)[1][:3], mk_chab)
    add('numqi.entangle.cha.AutodiffCHAREE.get_boundary', 'gellmann',
        lambda s, m: m.get_boundary(dm_w, xtol=0.05, converge_tol=1e-6, threshold=1e-5, num_repeat=1, use_tqdm=False, seed=s),
        lambda: cha.AutodiffCHAREE((2, 2), num_state=4, distance_kind='gellmann'))
    op0 = share('op0', np.diag([1.0, 0, 0, -1])); op1 = share('op1', np.array([[0, 0, 0, 1.0], [0, 0, 0, 0], [0, 0, 0, 0], [1, 0, 0, 0]]))
    add('numqi.entangle.cha.AutodiffCHAREE.get_numerical_range', 'num_theta=3',
        lambda s, m: m.get_numerical_range(op0, op1, num_theta=3, converge_tol=1e-4, num_repeat=1, use_tqdm=False, seed=s),
        lambda: cha.AutodiffCHAREE((2, 2), num_state=4))
    pb = numqi.entangle.pureb
    add('numqi.entangle.pureb.PureBosonicExt.get_boundary', 'kext=2',
        lambda s, m: m.get_boundary(dm_w, xtol=0.05, converge_tol=1e-6, threshold=1e-5, num_repeat=1, use_tqdm=False, seed=s),
        lambda: pb.PureBosonicExt(2, 2, kext=2, distance_kind='gellmann'))
    add('numqi.entangle.pureb.PureBosonicExt.get_numerical_range', 'num_theta=3',
        lambda s, m: m.get_numerical_range(op0, op1, num_theta=3, converge_tol=1e-4, num_repeat=1, use_tqdm=False, seed=s),
        lambda: pb.PureBosonicExt(2, 2, kext=2))
    # ---- optimizer
    opt = numqi.optimize._internal
    for key in (None, 'uniform', 'normal', ('uniform', -2, 3), ('normal', 1, 0.5), 'callable', 'ndarray'):
        def hft(s, key=key):
            k = key
            if key == 'callable':
                k = lambda size, rng: rng.normal(size=size)
            if key == 'ndarray':
                k = np.array([0.5, 0.25, 0.125])
            return opt._get_hf_theta(np.random.default_rng(s), k)(3)
        add('numqi.optimize._internal._get_hf_theta', f'key={key}', hft)
    for th in (None, 'normal', ('uniform', -2, 3), 'callable'):
        def mn(s, th=th):
            t0 = (lambda size, rng: rng.uniform(-1, 1, size=size)) if th == 'callable' else th
            return numqi.optimize.minimize(_tiny_model(), theta0=t0, num_repeat=2, tol=1e-8, print_every_round=0, seed=s)
        add('numqi.optimize._internal.minimize', f'theta0={th}', mn)
    for th in ('uniform', 'no-init'):
        add('numqi.optimize._internal.minimize_adam', f'theta0={th}',
            lambda s, th=th: numqi.optimize.minimize_adam(_tiny_model(), 5, theta0=th, seed=s, tqdm_update_freq=0, tag_return_history=True))
    def cmg(s):
        m = _tiny_model()
        opt.check_model_gradient(m, seed=s)
        return m.theta.detach().numpy().copy()            # the random point at which the gradient was checked
    add('numqi.optimize._internal.check_model_gradient', 'tiny model', cmg)
    return out


def extra_recipes():
    """seeded entry points outside the nine anchored files (evidence only, not obligations)"""
    import numqi
    I2 = np.eye(2); X = np.array([[0, 1], [1, 0.]]); Y = np.array([[0, -1j], [1j, 0]]); Z = np.diag([1., -1])
    ud = numqi.unique_determine
    rho = share('rho', numqi.random.rand_density_matrix(3, seed=1))
    ops3 = share('ops3', np.stack([I2, X, Z]).astype(np.complex128))
    ops4 = share('ops4', np.stack([I2, X, Y, Z]).astype(np.complex128))
    return [
        ('numqi.utils.get_purification', 'dimR=4', lambda s: numqi.utils.get_purification(rho, dimR=4, seed=s)),
        ('numqi.entangle.pureb_quantum.get_mps_dicke_transform_matrix', 'dim=2,num_qudit=3', lambda s: numqi.entangle.pureb_quantum.get_mps_dicke_transform_matrix(2, 3, seed=s)),
        ('numqi.matrix_space._misc.get_completed_entangled_subspace', "(2,2),'quant-ph/0405077'", lambda s: numqi.matrix_space.get_completed_entangled_subspace((2, 2), 'quant-ph/0405077', seed=s)[:3]),
        ('numqi.unique_determine._uda_udp.check_UD', 'udp,[I,X,Z]', lambda s: ud.check_UD('udp', ops3, num_repeat=2, dtype='float64', tag_single_thread=False, seed=s)),
        ('numqi.unique_determine._uda_udp.find_optimal_UD', 'udp,[I,X,Y,Z]', lambda s: ud.find_optimal_UD('udp', 1, ops4, num_repeat=2, dtype='float64', tag_single_thread=False, seed=s)),
        ('numqi.unique_determine._recovery.check_UD_is_UD', 'udp,[I,X,Y,Z]', lambda s: ud.check_UD_is_UD(ops4, 'udp', num_round=2, num_repeat_sgd=10, seed=s)),
    ]


# entry points outside the anchored files whose *seed forwarding* is nevertheless an obligation (a repaired defect): the program
# must be closed once the constructor's global torch draw is set aside, and the double run may show no other event
OBLIGED_EXTRAS = {'numqi.unique_determine._recovery.check_UD_is_UD': ('seedflow:check_UD_is_UD', ('global torch generator state consumed',))}


def strip_global(stmts, which):
    out = []
    for st in stmts:
        if st[0] == 'drawGlobal' and st[1] in which:
            continue
        if st[0] == 'loop':
            st = ('loop', st[1], strip_global(st[2], which))
        elif st[0] == 'branch':
            st = ('branch', st[1], strip_global(st[2], which), strip_global(st[3], which))
        out.append(st)
    return out


def extras(ctx):
    """dynamic double-run of the seeded entry points outside the anchored files; results go to the evidence only, except for
    OBLIGED_EXTRAS"""
    tr = get_tr(ctx)
    static = {e.name: tclosed_py(tr, e) for e in tr.order if not e.listed}
    by_name = {e.name: e for e in tr.order}
    out = {}
    for name, label, f in extra_recipes():
        rec = dict(arguments=label, static_closed_with_callees=static.get(name))
        for s in (0, 5 + ctx.seed):
            try:
                ok, (a, b), events, _ = run_recipe(f, s)
                rec.setdefault('runs', []).append(dict(seed=s, bit_identical=bool(ok), events=events))
            except Exception as e:
                rec.setdefault('runs', []).append(dict(seed=s, raised=f'{type(e).__name__}: {e}'[:200]))
        if name in OBLIGED_EXTRAS:
            key, allowed = OBLIGED_EXTRAS[name]
            e = by_name.get(name)
            fwd = None
            if e is not None:
                fwd = bool(c10_translate.closed_py(len(tr.order), [], strip_global(e.stmts, ('torch',))))
            rec['seed_forwarded_to_every_callee_static'] = fwd
            bad = [r for r in rec['runs'] if 'raised' in r or not r['bit_identical'] or [x for x in r['events'] if x not in allowed]]
            if bad or fwd is not True:
                r0 = bad[0] if bad else rec['runs'][0]
                ctx.fail(key, f"{name}({label}, seed={r0['seed']}) does not derive all randomness from its seed: "
                         f"{r0.get('raised') or [x for x in r0['events'] if x not in allowed] or 'outputs differ'}; static seed forwarding={fwd}",
                         dict(function=name, arguments=label, seed=r0['seed'], observed=r0, static_seed_forwarding=fwd,
                              how='call twice with this int seed; a generator created from None during the call is recorded as an event'))
            else:
                ctx.probe_ok(('obliged-extra', name))
        runs = rec['runs']
        rec['dynamic_closed'] = all(r.get('bit_identical') and not r.get('events') for r in runs)
        rec['agrees_with_static'] = (rec['dynamic_closed'] == rec['static_closed_with_callees'])
        out[name] = rec
        ctx.count('extra-entry-point')
    ctx.extra['outside_anchored_files_dynamic'] = out
    dis = [k for k, v in out.items() if not v['agrees_with_static']]
    ctx.note('entry points outside the anchored files (not obligations): ' + '; '.join(
        f"{k.split('numqi.')[-1]}: static {'closed' if v['static_closed_with_callees'] else 'NOT closed'}, dynamic {'clean' if v['dynamic_closed'] else 'not clean ' + str(sorted({e for r in v['runs'] for e in r.get('events', [])} | {r['raised'] for r in v['runs'] if 'raised' in r}))}"
        for k, v in out.items()) + ('' if not dis else ' — static/dynamic disagree for: ' + ', '.join(dis)))


def size_sweeps():
    """(program name, label, f(seed)) over a sweep of sizes: small, medium and beyond machine-word boundaries
    (used by `search` to turn a statically detected leak into a concrete non-reproducible call)"""
    import numqi
    R = numqi.random
    out = []
    sizes = [1, 2, 3, 5, 8, 13, 16, 17, 31, 32, 33, 40, 48, 63, 64, 65, 80]
    q = 'numqi.random._spf2.'
    for n in sizes:
        for rk in ('matrix', 'int_tuple', 'int_tuple-matrix'):
            out.append((q + 'rand_SpF2', f'n={n},return_kind={rk}', lambda s, n=n, rk=rk: R.rand_SpF2(n, return_kind=rk, seed=s)))
        out.append((q + 'rand_Clifford_group', f'n={n}', lambda s, n=n: R.rand_Clifford_group(n, seed=s)))
        for ih in (None, True, False):
            out.append((q + 'rand_pauli', f'n={n},is_hermitian={ih}', lambda s, n=n, ih=ih: R.rand_pauli(n, is_hermitian=ih, seed=s)))
        for nz, no in ((False, False), (True, True)):
            out.append((q + 'rand_F2', f'size=({2 * n},),not_zero={nz},not_one={no}', lambda s, n=n, nz=nz, no=no: R.rand_F2(2 * n, not_zero=nz, not_one=no, seed=s)))
    p = 'numqi.random._internal.'
    for d in (1, 2, 3, 7, 16, 33, 64):
        out.append((p + 'rand_haar_state', f'dim={d}', lambda s, d=d: R.rand_haar_state(d, seed=s)))
        out.append((p + 'rand_haar_unitary', f'dim={d}', lambda s, d=d: R.rand_haar_unitary(d, seed=s)))
        out.append((p + 'rand_adjacent_matrix', f'dim={max(d, 2)}', lambda s, d=d: R.rand_adjacent_matrix(max(d, 2), seed=s)))
        for size in (None, 3, (2, 3), (2, 1, 4)):
            out.append((p + 'rand_n_sphere', f'dim={d},size={size}', lambda s, d=d, size=size: R.rand_n_sphere(d, size=size, seed=s)))
            out.append((p + 'rand_n_ball', f'dim={d},size={size}', lambda s, d=d, size=size: R.rand_n_ball(d, size=size, seed=s)))
        for k in (None, 1):
            for kind in ('haar', 'bures'):
                out.append((p + 'rand_density_matrix', f'dim={d},k={k},kind={kind}', lambda s, d=d, k=k, kind=kind: R.rand_density_matrix(d, k=k, kind=kind, seed=s)))
    for (dA, dB) in ((1, 1), (2, 5), (6, 6)):
        for k in (None, 1):
            out.append((p + 'rand_bipartite_state', f'dimA={dA},dimB={dB},k={k}', lambda s, dA=dA, dB=dB, k=k: R.rand_bipartite_state(dA, dB, k=k, seed=s)))
        out.append((p + 'rand_separable_dm', f'dimA={dA},dimB={dB}', lambda s, dA=dA, dB=dB: R.rand_separable_dm(dA, dB, k=3, seed=s)))
    return out


SHARED = {}     # name -> (array handed to the implementation, pristine copy): the caller's arrays must never be written to


def share(name, arr):
    SHARED[name] = (arr, arr.copy())
    return arr


def mutated_arguments():
    out = []
    for name, (arr, ref) in SHARED.items():
        if arr.shape != ref.shape or arr.dtype != ref.dtype or arr.tobytes() != ref.tobytes():
            out.append(f'argument array `{name}` was modified in place')
            arr[...] = ref          # restore, so that one culprit is reported once
    return out


def run_recipe(f, seed, prep=None):
    """two calls with the same seed under different global-generator histories; returns (ok, detail, events)"""
    perturb(2 * seed + 1)
    o1 = prep() if prep else None
    with Recorder() as r1:
        a = f(seed, o1) if prep else f(seed)
    r1.events += mutated_arguments()
    perturb(5 * seed + 2)
    o2 = prep() if prep else None
    with Recorder() as r2:
        b = f(seed, o2) if prep else f(seed)
    r2.events += mutated_arguments()
    ca, cb = canon(a), canon(b)
    return ca == cb, (a, b), sorted(set(r1.events + r2.events)), a


def describe(x, depth=0):
    try:
        if isinstance(x, np.ndarray):
            return f'array{x.shape} first={x.reshape(-1)[:3].tolist()}'
        if isinstance(x, (list, tuple)) and depth < 2:
            return '[' + ', '.join(describe(y, depth + 1) for y in list(x)[:4]) + ']'
        return repr(x)[:120]
    except Exception:
        return type(x).__name__


_EXP = {}

def experiments(ctx):
    """run every recipe with several seeds once; cached for correspondence / probe"""
    if 'res' in _EXP:
        return _EXP['res']
    import numqi
    # seed 0 is always included (a falsy int must still be an int seed); the others vary with VERIF_SEED
    seeds = [0, 3 + ctx.seed, 17 + 5 * ctx.seed] if ctx.quick() else [0, 1, 3 + ctx.seed, 17 + 5 * ctx.seed, 101 + ctx.seed, 2 ** 31 + 7 * ctx.seed]
    heavy = ('cha.', 'pureb.')
    res = []
    for name, label, f, prep in recipes(ctx.quick()):
        ss = seeds[:1] if (ctx.quick() and any(h in name for h in heavy)) else seeds
        for s in ss:
            try:
                ok, (a, b), events, out = run_recipe(f, s, prep)
                res.append(dict(name=name, label=label, seed=s, ok=ok, events=events, a=describe(a), b=describe(b), error=None))
            except Exception as e:
                res.append(dict(name=name, label=label, seed=s, ok=False, events=[], a='', b='', error=f'{type(e).__name__}: {e}'))
    _EXP['res'] = res
    return res


# ---------------------------------------------------------------------------------------------------------
# correspondence: model verdict vs. behaviour of the real code
# ---------------------------------------------------------------------------------------------------------
def normaliser_behaviour():
    """what get_numpy_rng / get_random_rng / np.random.default_rng / random.Random do with None, an int, a generator"""
    import numqi
    out = {}
    for nm, f, draw in (('numpy', numqi.random.get_numpy_rng, lambda g: g.integers(0, 2 ** 62, size=4).tolist()),
                        ('python', numqi.random.get_random_rng, lambda g: [g.getrandbits(62) for _ in range(4)])):
        ok = True
        for k in (0, 1, 12345, 2 ** 40 + 3):
            a, b = draw(f(k)), draw(f(k))
            ok = ok and a == b and a != draw(f(k + 1))
        out[nm + ' int'] = 'seeded' if ok else 'not-a-function-of-the-int'
        g = f(7)
        out[nm + ' gen'] = 'same' if f(g) is g else 'different-object'
        out[nm + ' none'] = 'fresh' if draw(f(None)) != draw(f(None)) else 'repeats'
    return out


def correspondence(ctx):
    tr = get_tr(ctx)
    listed = [e for e in tr.order if e.listed]
    res = experiments(ctx)
    by = {}
    for r in res:
        by.setdefault(r['name'], []).append(r)
    ops, impl = [], []
    ops.append('C10 count'); impl.append(str(len(EXPECTED_PROGRAMS)))
    exp = expected_names(tr)
    names = exp + [e.name for e in listed if e.name not in exp]
    by_canon = {}
    for k, v in by.items():
        by_canon.setdefault(canonical_name(tr, k), []).extend(v)
    for name in names:
        ops.append(f'C10 tclosed {name}')
        rs = by_canon.get(name, [])
        if not rs:
            impl.append('no-recipe')
            continue
        bad = [r for r in rs if (not r['ok']) or r['events'] or r['error']]
        impl.append('0' if bad else '1')
    nb = normaliser_behaviour()
    for kind in ('none', 'int', 'gen'):
        # the model has one `normalise`; both Python normalisers (numpy and random.Random) must behave like it
        vals = {nb['numpy ' + kind], nb['python ' + kind]}
        ops.append(f'C10 norm {kind}'); impl.append(vals.pop() if len(vals) == 1 else 'normalisers-differ:' + '/'.join(sorted(vals)))
    # the Python mirror `closed_py` (used for the evidence and for OBLIGED_EXTRAS) against the model's `closed`, program by program
    for e in listed:
        ops.append(f'C10 closed {e.name}'); impl.append('1' if c10_translate.closed_py(len(listed), [], e.stmts) else '0')
    model = common.run_model(ops)
    for i, (op, a) in enumerate(zip(ops, impl)):
        if a == 'no-recipe':
            ctx.note(f'no dynamic recipe for {op}: model verdict {model[i]} not cross-checked')
            impl[i] = model[i]
    common.compare(ctx, ops, impl, model, key=lambda op: op.split(' ')[1])
    # executable non-interference of the interpreter on the generated programs: model-internal sanity (both runs are the
    # model), kept out of the agreement count
    ops2 = []
    for e in listed:
        for k in (3, 11):
            ops2.append(f'C10 run {e.name} {k} 1 2 3 4 1 200')
            ops2.append(f'C10 run {e.name} {k} 91 82 73 64 1 200')
    out2 = common.run_model(ops2)
    tcl = {op.split(' ')[2]: m for op, m in zip(ops, model) if op.split(' ')[1] == 'tclosed'}
    nself = 0
    for i in range(0, len(ops2), 2):
        name = ops2[i].split(' ')[2]
        if tcl.get(name) == '1' and out2[i] != out2[i + 1]:
            ctx.disagree(ops2[i], out2[i], out2[i + 1])
        nself += 1
    ctx.extra['interpreter_self_runs'] = nself
    ctx.extra['recipes'] = len({(r['name'], r['label']) for r in res})
    ctx.extra['exhaustive'] = False
    validity_tie(ctx)
    f2_tie(ctx)
    try:
        extras(ctx)
    except Exception as e:      # evidence only: never affects the verdict
        ctx.note(f'extra entry points: not evaluated ({type(e).__name__}: {e})')


# ---------------------------------------------------------------------------------------------------------
# tie of NumqiProps/C10F2.lean (validity of rand_SpF2 / rand_Clifford_group / rand_pauli): the models `SpF2.randSpF2`,
# `Clifford.randCliffordGroup`, `Clifford.randPauliPost` live in the C09 / C07 drivers; the same scripted raw draws go into the real
# functions (also tied by bin/check C07 / C09; duplicated here so that a C10-only run audits and ties C10F2.lean)
# ---------------------------------------------------------------------------------------------------------
class ScriptedRandom(random.Random):
    """a `random.Random` (accepted as `seed` by `get_random_rng`) whose `randint` returns prescribed values"""
    def __init__(self, values):
        super().__init__(0)
        self.values = list(values)
        self.calls = []
    def randint(self, a, b):
        v = self.values.pop(0)
        self.calls.append((a, b))
        assert a <= v <= b, f'scripted value {v} outside requested range [{a},{b}]'
        return v


class ScriptedGenerator(np.random.Generator):
    """a numpy Generator (accepted as `seed` by `get_numpy_rng`) whose `integers` returns the prescribed raw bits"""
    def __init__(self, bits):
        super().__init__(np.random.PCG64(0))
        self._bits = np.asarray(bits, dtype=np.uint8)
    def integers(self, low, high=None, size=None, dtype=np.int64, endpoint=False):
        n = int(np.prod(size)) if size is not None else 1
        assert (low, high) == (0, 2) and n == self._bits.size
        return self._bits.reshape(size).astype(dtype)


def _bitstr(a):
    return ''.join(str(int(x)) for x in np.asarray(a).reshape(-1))


def _bitmat(M):
    return ';'.join(_bitstr(r) for r in np.asarray(M))


def _sp_bases(n):
    out = []
    for x in range(1, n + 1):
        out += [4 ** x - 1, 4 ** x // 2]
    return out


def f2_tie(ctx):
    import numqi
    R = numqi.random
    rng = random.Random(ctx.seed * 7919 + 11)
    q = ctx.quick()
    ops7, impl7, ops9, impl9 = [], [], [], []
    def g(f):
        try:
            return f()
        except Exception as e:
            return f'error:{type(e).__name__}'
    # rand_Clifford_group: two scripted sub-seeds -> raw phase bits (numpy) and raw tuple (random.Random)
    for i in range(24 if q else 240):
        n = 1 + i % 6
        s1, s2 = rng.randrange(2 ** 32), rng.randrange(2 ** 32)
        bits = np.random.default_rng(s1).integers(0, 2, size=(2 * n,), dtype=np.uint8)
        rr = random.Random(s2)
        tup = [rr.randint(0, b - 1) for b in _sp_bases(n)]
        ops7.append(f'C07 randcliff {n} {_bitstr(bits)} {";".join(map(str, tup))} {s1} {s2}')
        def f(n=n, s1=s1, s2=s2):
            r, S = R.rand_Clifford_group(n, seed=ScriptedRandom([s1, s2]))
            return f'{_bitstr(r)} {_bitmat(S)}'
        impl7.append(g(f))
    # rand_pauli: every raw draw for n = 1, 2 and every request; sampled above
    raws = [(n, ''.join(t)) for n in ((1, 2) if not q else (1,)) for t in itertools.product('01', repeat=2 * n + 2)]
    raws += [(n, ''.join(rng.choice('01') for _ in range(2 * n + 2))) for n in [rng.randint(2, 8) for _ in range(30 if q else 400)]]
    raws += [(n, ''.join(rng.choice('01') for _ in range(2 * n + 2))) for n in (31, 32, 33)]
    for n, raw in raws:
        for req, want in (('N', None), ('H', True), ('A', False)):
            ops7.append(f'C07 rpauli {n} {req} {raw}')
            impl7.append(g(lambda n=n, raw=raw, want=want: _bitstr(R.rand_pauli(n, is_hermitian=want, seed=ScriptedGenerator([int(c) for c in raw])).F2)))
    # rand_SpF2: the matrix is from_int_tuple of exactly the drawn tuple; the draws are requested from [0, base-1]; the three return kinds agree
    for i in range(24 if q else 240):
        n = 1 + i % 8
        bs = _sp_bases(n)
        t = [rng.choice([0, b - 1]) for b in bs] if i % 5 == 0 else [rng.randrange(b) for b in bs]
        ops9.append(f'C09 randsp {n} {";".join(map(str, t))}')
        def f(n=n, t=t, bs=bs):
            rr = ScriptedRandom(t)
            M = R.rand_SpF2(n, seed=rr)
            t2 = R.rand_SpF2(n, return_kind='int_tuple', seed=ScriptedRandom(t))
            t3, M3 = R.rand_SpF2(n, return_kind='int_tuple-matrix', seed=ScriptedRandom(t))
            if rr.calls != [(0, b - 1) for b in bs] or rr.values or tuple(t2) != tuple(t) or tuple(t3) != tuple(t) or not np.array_equal(M3, M):
                return f'draws requested {rr.calls}, tuples returned {t2} {t3}'
            return _bitmat(M)
        impl9.append(g(f))
    for pid, ops, impl in (('C07', ops7, impl7), ('C09', ops9, impl9)):
        try:
            model = common.run_model(ops, pid=pid)
        except Exception as e:
            ctx.disagree(f'{pid} driver (model constants of NumqiProps/C10F2.lean)', f'driver not available: {type(e).__name__}: {e}'[:300], f'{len(ops)} ops not compared')
            continue
        common.compare(ctx, ops, impl, model, key=lambda op: 'f2:' + op.split(' ')[1])


# ---------------------------------------------------------------------------------------------------------
# validity tie: the final normalisation steps (lean/NumqiModel/RandNorm.lean) on the raw draws of the real generator
# ---------------------------------------------------------------------------------------------------------
class RecGen(np.random.Generator):
    """a numpy Generator that records what it hands out"""
    def __init__(self, seed):
        super().__init__(np.random.PCG64(seed))
        self.log = []
    def normal(self, *a, **k):
        r = super().normal(*a, **k); self.log.append(('normal', np.array(r, copy=True))); return r
    def uniform(self, *a, **k):
        r = super().uniform(*a, **k); self.log.append(('uniform', np.array(r, copy=True))); return r
    def integers(self, *a, **k):
        r = super().integers(*a, **k); self.log.append(('integers', np.array(r, copy=True))); return r


class Capture:
    """records the outputs (and inputs) of the LAPACK calls and of the nested generators during one call"""
    def __init__(self):
        self.calls = []
    def __enter__(self):
        import numqi.random._internal as I
        self.saved = []
        cap = self
        def wrap(owner, name):
            orig = getattr(owner, name)
            def w(*a, **k):
                r = orig(*a, **k)
                # copies: several generators normalise the returned array in place (`ret /= norm`)
                rc = tuple(np.array(x, copy=True) for x in r) if isinstance(r, (tuple, list)) else (np.array(r, copy=True) if isinstance(r, np.ndarray) else r)
                cap.calls.append((name, [np.array(x, copy=True) for x in a if isinstance(x, np.ndarray)], rc))
                return r
            self.saved.append((owner, name, orig))
            setattr(owner, name, w)
            # the same function object bound under another name in a numqi module (`from numpy.linalg import qr as _qr`, `from ._internal import rand_haar_state`)
            for mod, k in alias_sites(orig):
                if mod is owner and k == name:
                    continue
                self.saved.append((mod, k, orig))
                setattr(mod, k, w)
        for nm in ('qr', 'eigh', 'inv'):
            wrap(np.linalg, nm)
        for nm in ('_random_complex', 'rand_haar_unitary', 'rand_special_orthogonal_matrix', 'rand_density_matrix', 'rand_haar_state', 'to_special_orthogonal_exp'):
            wrap(I, nm)
        return self
    def __exit__(self, *exc):
        for owner, name, orig in self.saved:
            setattr(owner, name, orig)
        return False
    def outs(self, name):
        return [c[2] for c in self.calls if c[0] == name]
    def ins(self, name):
        return [c[1] for c in self.calls if c[0] == name]


def cbits(a):
    a = np.ascontiguousarray(np.asarray(a, dtype=np.complex128)).reshape(-1)
    if a.size == 0:
        return '-'
    re = a.real.copy().view(np.uint64); im = a.imag.copy().view(np.uint64)
    return ','.join(f'{int(x)}:{int(y)}' for x, y in zip(re, im))


def parse_cbits(line):
    vals = []
    for t in line.split(','):
        x, y = t.split(':')
        vals.append(complex(np.array([int(x)], dtype=np.uint64).view(np.float64)[0], np.array([int(y)], dtype=np.uint64).view(np.float64)[0]))
    return np.array(vals)


def validity_tie(ctx):
    """model of the last lines of each generator, run on the captured raw draws / LAPACK outputs, against the real output"""
    import numqi
    R = numqi.random
    ops, want, tols = [], [], []
    def add(op, out, tol=1e-11):
        ops.append('C10 nz ' + op); want.append(np.asarray(out)); tols.append(tol)
    seeds = [ctx.seed * 100 + i for i in range(2 if ctx.quick() else 8)]
    failed = []
    # the hypotheses of the validity theorems (contracts of qr / eigh / inv / to_special_orthogonal_exp / the nested generators, positivity of
    # weights, non-vanishing traces and norms) measured on the captured arrays: name -> worst residual; above CONTRACT_TOL the theorem does not
    # apply to this run (reported as a broken tie)
    CONTRACT_TOL = 1e-10
    contracts, contract_bad = {}, []
    def contract(name, resid, what=''):
        resid = float(resid)
        contracts[name] = max(contracts.get(name, 0.0), resid)
        if not (resid <= CONTRACT_TOL):
            contract_bad.append((name, resid, what))
    eye_res = lambda M: float(np.abs(M - np.eye(M.shape[0])).max()) if M.size else 0.0
    iso = lambda Q: eye_res(Q.conj().T @ Q)                    # QᴴQ = 1
    def dm_res(A):
        A = np.asarray(A)
        return max(abs(np.trace(A) - 1), float(np.abs(A - A.conj().T).max()), max(0.0, -float(np.linalg.eigvalsh((A + A.conj().T) / 2).min())))
    nonzero = lambda x: 0.0 if abs(x) > 1e-12 else 1.0       # `≠ 0` hypotheses: residual 1 when violated
    def guarded(tag, f):
        try:
            f()
        except Exception as e:     # the generator no longer draws / factorises as the model of its last lines expects
            failed.append((tag, f'{type(e).__name__}: {e}'[:160]))
    for s in seeds:
        def blk0(s=s):
            for d in (1, 3, 6):
                for tc in (True, False):
                    g = RecGen(s)
                    with Capture() as c:
                        out = R.rand_haar_state(d, tag_complex=tc, seed=g)
                    raw = c.outs('_random_complex')[-1] if tc else g.log[-1][1]
                    contract('haar_state_unit: |v|^2 != 0', nonzero(np.vdot(raw, raw)))
                    add(f'vec {d} {cbits(raw)}', out)
                for size in (None, (2, 3)):
                    g = RecGen(s)
                    out = R.rand_n_sphere(d, size=size, seed=g)
                    raw = g.log[0][1]
                    for row_raw, row_out in zip(raw.reshape(-1, d), np.asarray(out).reshape(-1, d)):
                        add(f'vec {d} {cbits(row_raw)}', row_out)
                    g = RecGen(s)
                    out = R.rand_n_ball(d, size=size, seed=g)
                    raw, u = g.log[0][1], g.log[1][1]
                    contract('n_ball_mem: 0 <= u <= 1, |v|^2 != 0', max(0.0, -float(u.min()), float(u.max()) - 1, max(nonzero(np.vdot(r_, r_)) for r_ in raw.reshape(-1, d))))
                    for row_raw, ui, row_out in zip(raw.reshape(-1, d), u.reshape(-1), np.asarray(out).reshape(-1, d)):
                        add(f'ball {d} {cbits(row_raw)} {cbits([ui])}', row_out)
        guarded('block0', blk0)
        def blk1(s=s):
            for d in (1, 2, 4):
                with Capture() as c:
                    out = R.rand_haar_unitary(d, seed=RecGen(s))
                Q, Rm = c.outs('qr')[0]
                contract('haar_unitary_signFix: Q unitary (qr)', max(iso(Q), iso(Q.conj().T)))
                add(f'signfix {d} {cbits(Q)} {cbits(np.diag(Rm))}', out, 0.0)
        guarded('block1', blk1)
        def blk2(s=s):
            for d, k in ((2, None), (3, 1), (3, 2), (4, None)):
                kk = d if k is None else k
                with Capture() as c:
                    out = R.rand_density_matrix(d, k=k, kind='haar', seed=RecGen(s))
                G_ = c.outs("_random_complex")[0]
                contract('density_matrix_valid: tr(G G^H) != 0', nonzero(np.trace(G_ @ G_.conj().T)))
                add(f'dm {d} {kk} {cbits(G_)}', out)
                with Capture() as c:
                    out = R.rand_density_matrix(d, k=k, kind='bures', seed=RecGen(s))
                add(f'dmb {d} {kk} {cbits(c.outs("rand_haar_unitary")[0])} {cbits(c.outs("_random_complex")[0])}', out)
        guarded('block2', blk2)
        def blk3(s=s):
            for d, m in ((2, 2), (3, 4)):
                g = RecGen(s)
                with Capture() as c:
                    out = R.rand_povm(d, m, seed=g)
                B = g.log[0][1] + 1j * g.log[1][1]
                evl, evc = c.outs('eigh')[0]
                S_ = c.ins('eigh')[0][0]
                contract('povm_valid: V unitary, S = V diag(l) V^H, l > 0 (eigh)', max(iso(evc), iso(evc.conj().T), float(np.abs((evc * evl) @ evc.conj().T - S_).max()), max(0.0, 1e-12 - float(evl.min()))))
                add(f'povm {d} {m} {cbits(B)} {cbits(evl)} {cbits(evc)}', out, 1e-10)
                add(f'povmsum {d} {m} {cbits(B)}', c.ins('eigh')[0][0], 1e-11)
        guarded('block3', blk3)
        def blk4(s=s):
            for (nt, di, do, tc) in ((1, 2, 2, True), (3, 2, 3, True), (2, 3, 2, False)):
                g = RecGen(s)
                with Capture() as c:
                    out = R.rand_kraus_op(nt, di, do, tag_complex=tc, seed=g)
                raw = g.log[0][1]
                z0 = raw.astype(np.float64, copy=False).view(np.complex128) if tc else raw
                contract('kraus_valid: Minv W = 1 (inv)', eye_res(c.outs("inv")[0] @ c.ins("inv")[0][0]))
                add(f'kraus {nt} {do} {di} {cbits(z0)} {cbits(c.outs("inv")[0])}', out, 1e-10)
        guarded('block4', blk4)
        def blk5(s=s):
            for d in (2, 3):
                for tc in (True, False):
                    g = RecGen(s)
                    with Capture() as c:
                        out = R.rand_hermitian_matrix(d, eig=(-1.0, 2.0), tag_complex=tc, seed=g)
                    evl = g.log[0][1]
                    evc = c.outs('rand_special_orthogonal_matrix')[0]
                    contract('hermitian_eig_range: V V^H = 1 (soExp), a <= l <= b', max(iso(evc.conj().T), max(0.0, -1.0 - float(evl.min()), float(evl.max()) - 2.0)))
                    add(f'herm {d} {cbits(evc)} {cbits(evl)}', out, 1e-11)
        guarded('block5', blk5)
        def blk6(s=s):
            for (di, do, rank) in ((2, 2, None), (2, 3, 2)):
                g = RecGen(s)
                with Capture() as c:
                    out = R.rand_choi_op(di, do, rank=rank, seed=g)
                r = di * do if rank is None else rank
                G = g.log[0][1] + 1j * g.log[1][1]
                evl, evc = c.outs('eigh')[0]
                S_ = c.ins('eigh')[0][0]
                contract('choi_valid: V unitary, S = V diag(l) V^H, l > 0 (eigh)', max(iso(evc), iso(evc.conj().T), float(np.abs((evc * evl) @ evc.conj().T - S_).max()), max(0.0, 1e-12 - float(evl.min()))))
                add(f'choi {di} {do} {r} {cbits(G)} {cbits(evl)} {cbits(evc)}', out, 1e-10)
                add(f'choipt {di} {do} {r} {cbits(G)}', c.ins('eigh')[0][0], 1e-11)
        guarded('block6', blk6)
        def blk7(s=s):
            for d in (2, 5):
                g = RecGen(s)
                out = R.rand_adjacent_matrix(d, seed=g)
                raw = g.log[0][1]
                ops.append(f'C10 nz adj {d} ' + ';'.join(str(int(x)) for x in raw.reshape(-1)))
                want.append(';'.join(str(int(x)) for x in np.asarray(out).reshape(-1))); tols.append(None)

        guarded('block7', blk7)
    def blk_f2():
        for shape in ((1,), (2,), (3,), (2, 2), ()):
            for nz, no in ((False, False), (True, False), (False, True), (True, True)):
                if nz and no and int(np.prod(shape)) <= 1:
                    continue
                for s in range(ctx.seed * 50, ctx.seed * 50 + (12 if ctx.quick() else 60)):
                    g = RecGen(s)
                    out = R.rand_F2(*shape, not_zero=nz, not_one=no, seed=g)
                    draws = '|'.join(';'.join(str(int(x)) for x in np.asarray(d).reshape(-1)) for _, d in g.log)
                    ops.append(f'C10 nz f2 {int(nz)} {int(no)} {draws}')
                    want.append(';'.join(str(int(x)) for x in np.asarray(out).reshape(-1)) + f' {len(g.log)}'); tols.append(None)
    guarded('rand_F2', blk_f2)
    # ---- round 6: generators composed of the above (kron / outer product / permutation-sum / placement steps on the captured inputs)
    for s in seeds:
        def blk_bip(s=s):
            for dA, dB, k in ((2, 2, 1), (2, 3, 2), (3, 2, 2), (3, None, 3), (2, 2, None), (1, 3, 1)):
                dBv = dA if dB is None else dB
                with Capture() as c:
                    psi = R.rand_bipartite_state(dA, dB, k=k, seed=RecGen(s))
                if k is None:
                    add(f'vec {dA * dBv} {cbits(c.outs("_random_complex")[-1])}', psi)
                else:
                    (Q0, _), (Q1, _) = c.outs('qr')[0], c.outs('qr')[1]
                    c_ = c.outs("_random_complex")[2]
                    contract('bipartite_state_valid: Q0^H Q0 = 1, Q1^H Q1 = 1 on k columns (qr), |c|^2 != 0', max(iso(Q0[:, :k]), iso(Q1[:, :k]), nonzero(np.vdot(c_, c_))))
                    add(f'bip {dA} {dBv} {k} {cbits(Q0[:, :k])} {cbits(Q1[:, :k])} {cbits(c.outs("_random_complex")[2])}', psi)
                contract('pure_dm_valid: |psi|^2 = 1', abs(np.vdot(psi, psi) - 1))
                rho = R.rand_bipartite_state(dA, dB, k=k, seed=RecGen(s), return_dm=True)
                add(f'pdm {dA * dBv} {cbits(psi)}', rho, 1e-15)
        guarded('rand_bipartite_state', blk_bip)
        def blk_sep(s=s):
            for dA, dB, k in ((2, 2, 1), (2, 3, 2), (3, None, 3)):
                dBv = dA if dB is None else dB
                g = RecGen(s)
                with Capture() as c:
                    out = R.rand_separable_dm(dA, dB, k=k, seed=g)
                p = next(v for kind, v in g.log if kind == 'uniform')
                dms = c.outs('rand_density_matrix')
                contract('separable_dm_valid: p >= 0, sum p != 0, A_i B_i trace one PSD', max([max(0.0, -float(p.min())), nonzero(p.sum())] + [dm_res(x) for x in dms]))
                add(f'sep {dA} {dBv} {k} {cbits(p)} {cbits(np.stack(dms[0::2]))} {cbits(np.stack(dms[1::2]))}', out)
                g = RecGen(s)
                with Capture() as c:
                    out = R.rand_separable_dm(dA, dB, k=k, seed=g, pure_term=True)
                p = next(v for kind, v in g.log if kind == 'uniform')
                vs = c.outs('rand_haar_state')
                contract('separable_dm_pure_valid: p >= 0, sum p != 0, |u_i| = |v_i| = 1', max([max(0.0, -float(p.min())), nonzero(p.sum())] + [abs(np.vdot(x, x) - 1) for x in vs]))
                add(f'sepp {dA} {dBv} {k} {cbits(p)} {cbits(np.stack(vs[0::2]))} {cbits(np.stack(vs[1::2]))}', out)
        guarded('rand_separable_dm', blk_sep)
        def blk_onb(s=s):
            for no, d, nq in ((2, 2, 1), (3, 2, 1), (2, 3, 1), (2, 2, 2), (3, 2, 3), (2, 3, 2)):
                for ns in (None, 2):
                    for wi in (False, True):
                        with Capture() as c:
                            out = R.rand_orthonormal_matrix_basis(no, d, num_qudit=nq, num_sample=ns, with_I=wi, seed=RecGen(s))
                        us = c.outs('to_special_orthogonal_exp')
                        outs = [out] if ns is None else list(out)
                        assert len(us) == len(outs)
                        for u, o in zip(us, outs):
                            contract('orthonormal_basis_valid: every U unitary (to_special_orthogonal_exp)', max([0.0] + [max(iso(x), iso(x.conj().T)) for x in np.asarray(u).reshape(-1, d, d)]))
                            add(f'onb {no} {d} {nq} {int(wi)} {cbits(u)}', o)
        guarded('rand_orthonormal_matrix_basis', blk_onb)
        def blk_chan(s=s):
            for n, m in ((2, 1), (2, 3), (3, 4), (1, 2)):
                g = RecGen(s)
                out = R.rand_channel_matrix_space(n, m, seed=g)
                zs = [g.log[2 * t][1] + 1j * g.log[2 * t + 1][1] for t in range(m - 1)]
                add(f'chan {n} {m} {cbits(np.stack(zs)) if zs else "-"}', out, 0.0)
            for d in (1, 3):
                for tc in (True, False):
                    g = RecGen(s)
                    out = R.rand_hermitian_matrix(d, eig=None, tag_complex=tc, seed=g)
                    z = (g.log[0][1] + 1j * g.log[1][1]) if tc else g.log[0][1]
                    add(f'hermsym {d} {cbits(z)}', out, 0.0)
        guarded('rand_channel_matrix_space', blk_chan)
        def blk_qcms(s=s):
            for d in (2, 3, 4):
                N1 = d * (d - 1) // 2
                for nh in (1, 2, d * d):
                    with Capture() as c:
                        out = R.rand_quantum_channel_matrix_subspace(d, nh, seed=RecGen(s))
                    if nh > 1:
                        so = c.outs('rand_special_orthogonal_matrix')[0]
                        contract('channel_matrix_subspace_valid: SO rows real', float(np.abs(np.imag(so)).max()))
                        add(f'qcms herm {d} {nh - 1} {cbits(so[:nh - 1])}', out[1:])
                    add(f'chan {d} 1 -', out[:1], 0.0)
                for nsym, nanti in ((1, 0), (2, 1), (N1 + d, N1), (3, 0), (1, N1)):
                    if nsym > N1 + d or nanti > N1 or (nanti > 0 and N1 < 2):
                        continue        # dim_in=2 with an antisymmetric part: the clean tree asks for SO(1) and asserts (observation in design_notes)
                    with Capture() as c:
                        out = R.rand_quantum_channel_matrix_subspace(d, (nsym, nanti), seed=RecGen(s))
                    sos = c.outs('rand_special_orthogonal_matrix')
                    contract('channel_matrix_subspace_valid: SO rows real', max([0.0] + [float(np.abs(np.imag(x)).max()) for x in sos]))
                    add(f'chan {d} 1 -', out[:1], 0.0)
                    if nsym > 1:
                        add(f'qcms sym {d} {nsym - 1} {cbits(sos[0][:nsym - 1])}', out[1:nsym])
                    if nanti > 0:
                        add(f'qcms anti {d} {nanti} {cbits(sos[-1][:nanti])}', out[nsym:])
        guarded('rand_quantum_channel_matrix_subspace', blk_qcms)
        def blk_abk(s=s):
            for dA, dB, kx in ((2, 2, 1), (2, 2, 2), (3, 2, 2), (2, 3, 2), (2, 2, 3), (1, 2, 3)):
                g = RecGen(s)
                out = R.rand_ABk_density_matrix(dA, dB, kx, seed=g)
                G = g.log[0][1] + 1j * g.log[1][1]
                contract('abk_density_matrix_valid: tr(G G^H) != 0', nonzero(np.trace(G @ G.conj().T)))
                add(f'abk {dA} {dB} {kx} {cbits(G)}', out)
        guarded('rand_ABk_density_matrix', blk_abk)
    model = common.run_model(ops)
    worst = 0.0
    for op, w, tol, m in zip(ops, want, tols, model):
        kind = 'nz-' + op.split(' ')[2]
        ctx.count(kind)
        short = op if len(op) < 160 else op[:160] + '…'
        if tol is None:
            (ctx.agree(short, short) if m == w else ctx.disagree(short, m, w))
            continue
        try:
            got = parse_cbits(m)
        except Exception:
            ctx.disagree(short, m[:200], 'array'); continue
        ref = np.asarray(w, dtype=np.complex128).reshape(-1)
        if got.shape != ref.shape:
            ctx.disagree(short, f'shape {got.shape}', f'shape {ref.shape}'); continue
        err = float(np.abs(got - ref).max()) if ref.size else 0.0
        worst = max(worst, err)
        if err <= tol * max(1.0, float(np.abs(ref).max()) if ref.size else 1.0):
            ctx.agree(short, short)
        else:
            ctx.disagree(short, f'max |model - impl| = {err:.3e}', f'tolerance {tol}')
    for name, resid, what in contract_bad:
        ctx.disagree(f'C10 contract {name}', f'hypothesis of the validity theorem holds on the captured arrays (<= {CONTRACT_TOL})', f'residual {resid:.3e} {what}')
    ctx.count('contracts-measured', len(contracts))
    ctx.extra['contracts_measured'] = {k_: float(f'{v:.3e}') for k_, v in sorted(contracts.items())}
    ctx.extra['contracts_tolerance'] = CONTRACT_TOL
    for tag, why in failed:
        ctx.disagree(f'C10 nz capture {tag}', 'the model of the last lines applies', f'capture failed: {why}')
    ctx.extra['validity_tie_ops'] = len(ops)
    ctx.extra['validity_tie_max_abs_err'] = worst
    ctx.assumptions.append('validity tie: model (binary64, left-to-right sums) vs numpy on the same raw draws, tolerance 1e-11 (1e-10 after an inverse square root), '
                           'measured max error %.1e; sign fix of rand_haar_unitary and rand_adjacent_matrix compared exactly' % worst)


# ---------------------------------------------------------------------------------------------------------
# probe: reproducibility (failing-input search) and validity of every generator
# ---------------------------------------------------------------------------------------------------------
def herm_err(M):
    return float(np.abs(M - M.conj().T).max())


def min_eig(M):
    return float(np.linalg.eigvalsh((M + M.conj().T) / 2).min())


def validity_checks(ctx):
    """(key, description, callable(seed) -> (ok, detail)) for every public generator and argument combination"""
    import numqi
    R = numqi.random
    checks = []
    def add(key, desc, f):
        checks.append((key, desc, f))
    def unit(v): return abs(np.linalg.norm(v) - 1)
    for d in (1, 2, 5):
        for tc in (True, False):
            def f(s, d=d, tc=tc):
                v = R.rand_haar_state(d, tag_complex=tc, seed=s)
                return v.shape == (d,) and unit(v) < TOL and (tc or np.isrealobj(v)), f'norm-1={unit(v):.2e}'
            add('rand_haar_state', f'dim={d},tag_complex={tc}', f)
    for d in (1, 2, 4, 7):
        def f(s, d=d):
            U = R.rand_haar_unitary(d, seed=s)
            e = float(np.abs(U @ U.conj().T - np.eye(d)).max())
            return U.shape == (d, d) and e < TOL, f'|UU^H-1|={e:.2e}'
        add('rand_haar_unitary', f'dim={d}', f)
    for d in (2, 3, 5):
        for bs in (None, 1, 3):
            for tc in (False, True):
                def f(s, d=d, bs=bs, tc=tc):
                    U = R.rand_special_orthogonal_matrix(d, batch_size=bs, tag_complex=tc, seed=s)
                    Ub = U[None] if bs is None else U
                    shape_ok = Ub.shape == ((1 if bs is None else bs), d, d)
                    e = float(np.abs(Ub @ Ub.conj().transpose(0, 2, 1) - np.eye(d)).max())
                    dt = float(np.abs(np.linalg.det(Ub) - 1).max())
                    real_ok = tc or np.isrealobj(U)
                    return shape_ok and e < TOL and dt < TOL and real_ok, f'|UU^H-1|={e:.2e} |det-1|={dt:.2e}'
                add('rand_special_orthogonal_matrix', f'dim={d},batch={bs},tag_complex={tc}', f)
    for d in (2, 4):
        for k in (None, 1, 2, d):
            for kind in ('haar', 'bures'):
                def f(s, d=d, k=k, kind=kind):
                    rho = R.rand_density_matrix(d, k=k, kind=kind, seed=s)
                    ev = np.linalg.eigvalsh(rho)
                    rank = int((ev > 1e-10).sum())
                    want = d if k is None else k
                    ok = rho.shape == (d, d) and herm_err(rho) < TOL and abs(np.trace(rho) - 1) < TOL and ev.min() > -TOL and rank == want
                    return ok, f'tr-1={abs(np.trace(rho) - 1):.2e} min_eig={ev.min():.2e} rank={rank} want={want}'
                add('rand_density_matrix', f'dim={d},k={k},kind={kind}', f)
    for (nt, di, do) in ((1, 2, 2), (3, 2, 3), (4, 3, 2), (2, 1, 3)):
        for tc in (True, False):
            def f(s, nt=nt, di=di, do=do, tc=tc):
                K = R.rand_kraus_op(nt, di, do, tag_complex=tc, seed=s)
                e = float(np.abs(sum(x.conj().T @ x for x in K) - np.eye(di)).max())
                return K.shape == (nt, do, di) and e < TOL and (tc or np.isrealobj(K)), f'|sum K^H K - 1|={e:.2e}'
            add('rand_kraus_op', f'num_term={nt},dim_in={di},dim_out={do},tag_complex={tc}', f)
    for (di, do) in ((2, 2), (2, 3), (3, 2)):
        for rank in (None, 1, 3):
            def f(s, di=di, do=do, rank=rank):
                C = R.rand_choi_op(di, do, rank=rank, seed=s)
                N0 = di * do
                ptr = np.einsum(C.reshape(di, do, di, do), [0, 1, 2, 1], [0, 2])
                e = float(np.abs(ptr - np.eye(di)).max())
                me = min_eig(C)
                return C.shape == (N0, N0) and herm_err(C) < TOL and e < TOL and me > -TOL, f'|Tr_out C - 1|={e:.2e} min_eig={me:.2e}'
            if rank is None or rank * do >= di:       # a TP map of Kraus rank r needs r*dim_out >= dim_in
                add('rand_choi_op', f'dim_in={di},dim_out={do},rank={rank}', f)
    for (d, nt) in ((2, 2), (3, 4), (2, 5), (4, 1)):
        def f(s, d=d, nt=nt):
            E = R.rand_povm(d, nt, seed=s)
            e = float(np.abs(E.sum(axis=0) - np.eye(d)).max())
            me = min(min_eig(x) for x in E)
            he = max(herm_err(x) for x in E)
            return E.shape == (nt, d, d) and e < TOL and me > -TOL and he < TOL, f'|sum E - 1|={e:.2e} min_eig={me:.2e}'
        add('rand_povm', f'dim={d},num_term={nt}', f)
    for (dA, dB) in ((2, None), (2, 3), (3, 2)):
        for k in (None, 1, 2):
            for rdm in (False, True):
                def f(s, dA=dA, dB=dB, k=k, rdm=rdm):
                    x = R.rand_bipartite_state(dA, dB, k=k, seed=s, return_dm=rdm)
                    b = dA if dB is None else dB
                    if rdm:
                        ok = x.shape == (dA * b, dA * b) and herm_err(x) < TOL and abs(np.trace(x) - 1) < TOL and abs(np.trace(x @ x) - 1) < 1e-8
                        nerr = f'tr-1={abs(np.trace(x) - 1):.2e} tr(rho^2)-1={abs(np.trace(x @ x) - 1):.2e} herm={herm_err(x):.2e}' if x.ndim == 2 and x.shape[0] == x.shape[1] else f'shape={x.shape}'
                        psi = np.linalg.eigh(x)[1][:, -1]
                    else:
                        ok = x.shape == (dA * b,) and unit(x) < TOL
                        nerr = f'norm-1={unit(x):.2e}' if x.ndim == 1 else f'shape={x.shape}'
                        psi = x
                    sv = np.linalg.svd(psi.reshape(dA, b), compute_uv=False)
                    rank = int((sv > 1e-9).sum())
                    if k is not None:
                        ok = ok and rank == k
                    return ok, f'{nerr}, schmidt rank={rank} want={k}'
                add('rand_bipartite_state', f'dimA={dA},dimB={dB},k={k},return_dm={rdm}', f)
    for (dA, dB) in ((2, None), (2, 3)):
        for k in (1, 2, 4):
            for pt in (False, True):
                def f(s, dA=dA, dB=dB, k=k, pt=pt):
                    rho = R.rand_separable_dm(dA, dB, k=k, seed=s, pure_term=pt)
                    b = dA if dB is None else dB
                    me = min_eig(rho)
                    ptm = min_eig(rho.reshape(dA, b, dA, b).transpose(0, 3, 2, 1).reshape(dA * b, dA * b))
                    ok = rho.shape == (dA * b, dA * b) and herm_err(rho) < TOL and abs(np.trace(rho) - 1) < TOL and me > -TOL and ptm > -TOL
                    # separable by construction: replay the documented construction from the same generator stream
                    rng = np.random.default_rng(s)
                    prob = rng.uniform(0, 1, size=k); prob /= prob.sum()
                    ref = 0
                    for i in range(k):
                        if pt:
                            a = R.rand_haar_state(dA, seed=rng); c = R.rand_haar_state(b, seed=rng)
                            t = np.kron(a, c); ref = ref + prob[i] * np.outer(t, t.conj())
                        else:
                            a = R.rand_density_matrix(dA, seed=rng); c = R.rand_density_matrix(b, seed=rng)
                            ref = ref + prob[i] * np.kron(a, c)
                    e = float(np.abs(ref - rho).max())
                    return ok and e < TOL, f'tr-1={abs(np.trace(rho) - 1):.2e} min_eig={me:.2e} min_eig(PT)={ptm:.2e} |rho - sum p a(x)b|={e:.2e}'
                add('rand_separable_dm', f'dimA={dA},dimB={dB},k={k},pure_term={pt}', f)
    for d in (2, 4):
        for eig in (None, (-1.0, 2.0), (0.5, 0.75)):
            for tc in (True, False):
                def f(s, d=d, eig=eig, tc=tc):
                    H = R.rand_hermitian_matrix(d, eig=eig, tag_complex=tc, seed=s)
                    ok = H.shape == (d, d) and herm_err(H) < TOL and (tc or np.isrealobj(H))
                    ev = np.linalg.eigvalsh(H)
                    if eig is not None:
                        ok = ok and ev.min() >= eig[0] - TOL and ev.max() <= eig[1] + TOL
                    return ok, f'herm_err={herm_err(H):.2e} eig in [{ev.min():.3f},{ev.max():.3f}] want {eig}'
                add('rand_hermitian_matrix', f'd={d},eig={eig},tag_complex={tc}', f)
    for (dA, dB, kx) in ((2, 2, 1), (2, 2, 2), (2, 2, 3), (2, 3, 2), (3, 2, 2)):
        def f(s, dA=dA, dB=dB, kx=kx):
            rho = R.rand_ABk_density_matrix(dA, dB, kx, seed=s)
            N = dA * dB ** kx
            ok = rho.shape == (N, N) and herm_err(rho) < TOL and abs(np.trace(rho) - 1) < TOL and min_eig(rho) > -TOL
            t = rho.reshape([dA] + [dB] * kx + [dA] + [dB] * kx)
            e = 0.0
            for perm in itertools.permutations(range(kx)):
                ax = [0] + [1 + x for x in perm] + [kx + 1] + [kx + 2 + x for x in perm]
                e = max(e, float(np.abs(t.transpose(ax) - t).max()))
            return ok and e < TOL, f'tr-1={abs(np.trace(rho) - 1):.2e} min_eig={min_eig(rho):.2e} perm-asym={e:.2e}'
        add('rand_ABk_density_matrix', f'dimA={dA},dimB={dB},kext={kx}', f)
    for n in (1, 2, 3):
        for rk in ('matrix', 'int_tuple', 'int_tuple-matrix'):
            def f(s, n=n, rk=rk):
                x = R.rand_SpF2(n, return_kind=rk, seed=s)
                mat = x if rk == 'matrix' else (numqi.group.spf2.from_int_tuple(x) if rk == 'int_tuple' else x[1])
                mat = np.asarray(mat).astype(np.int64)
                J = np.block([[np.zeros((n, n), dtype=np.int64), np.eye(n, dtype=np.int64)], [np.eye(n, dtype=np.int64), np.zeros((n, n), dtype=np.int64)]])
                ok = mat.shape == (2 * n, 2 * n) and set(np.unique(mat).tolist()) <= {0, 1} and np.array_equal((mat.T @ J @ mat) % 2, J)
                if rk == 'int_tuple-matrix':
                    ok = ok and np.array_equal(np.asarray(numqi.group.spf2.from_int_tuple(x[0])), np.asarray(x[1]))
                return ok, 'M^T J M = J over F2'
            add('rand_SpF2', f'n={n},return_kind={rk}', f)
    for n in (1, 2, 3):
        def f(s, n=n):
            r, m = R.rand_Clifford_group(n, seed=s)
            m = np.asarray(m).astype(np.int64)
            J = np.block([[np.zeros((n, n), dtype=np.int64), np.eye(n, dtype=np.int64)], [np.eye(n, dtype=np.int64), np.zeros((n, n), dtype=np.int64)]])
            ok = np.asarray(r).shape == (2 * n,) and set(np.unique(r).tolist()) <= {0, 1} and np.array_equal((m.T @ J @ m) % 2, J)
            return ok, 'r in F2^{2n}, M symplectic'
        add('rand_Clifford_group', f'n={n}', f)
    for shape in ((1,), (2,), (3,), (2, 2), ()):
        for nz, no in ((False, False), (True, False), (False, True), (True, True)):
            if nz and no and int(np.prod(shape)) <= 1:
                def frej(s, shape=shape):
                    try:
                        x = R.rand_F2(*shape, not_zero=True, not_one=True, seed=s)
                    except AssertionError:
                        return True, 'rejected by the assert'
                    return False, f'accepted an impossible request and returned {np.asarray(x).tolist()}'
                add('rand_F2', f'size={shape},not_zero=True,not_one=True (must be rejected)', frej)
                continue
            def f(s, shape=shape, nz=nz, no=no):
                x = R.rand_F2(*shape, not_zero=nz, not_one=no, seed=s)
                ok = x.shape == shape and x.dtype == np.uint8 and set(np.unique(x).tolist()) <= {0, 1}
                if nz: ok = ok and x.any()
                if no: ok = ok and not x.all()
                return ok, f'value={x.tolist()}'
            add('rand_F2', f'size={shape},not_zero={nz},not_one={no}', f)
    for d in (2, 5):
        def f(s, d=d):
            A = R.rand_adjacent_matrix(d, seed=s)
            ok = A.shape == (d, d) and A.dtype == np.uint8 and np.array_equal(A, A.T) and not A.diagonal().any() and set(np.unique(A).tolist()) <= {0, 1}
            return ok, 'symmetric 0/1, zero diagonal'
        add('rand_adjacent_matrix', f'dim={d}', f)
    for d in (1, 3):
        for size in (None, 4, (2, 3), ()):
            def f(s, d=d, size=size):
                x = R.rand_n_sphere(d, size=size, seed=s)
                shp = (d,) if size is None else ((size, d) if isinstance(size, int) else tuple(size) + (d,))
                e = float(np.abs(np.linalg.norm(x, axis=-1) - 1).max())
                return x.shape == shp and e < TOL, f'shape={x.shape} want={shp} |norm-1|={e:.2e}'
            add('rand_n_sphere', f'dim={d},size={size}', f)
            def g(s, d=d, size=size):
                x = R.rand_n_ball(d, size=size, seed=s)
                shp = (d,) if size is None else ((size, d) if isinstance(size, int) else tuple(size) + (d,))
                m = float(np.linalg.norm(x, axis=-1).max())
                return x.shape == shp and m <= 1 + TOL, f'shape={x.shape} want={shp} max norm={m:.6f}'
            add('rand_n_ball', f'dim={d},size={size}', g)
    for (di, nt) in ((2, 1), (3, 3)):
        def f(s, di=di, nt=nt):
            M = R.rand_channel_matrix_space(di, nt, seed=s)
            he = max(herm_err(x) for x in M)
            return M.shape == (nt, di, di) and he < TOL and np.array_equal(M[0], np.eye(di)), f'herm_err={he:.2e}'
        add('rand_channel_matrix_space', f'dim_in={di},num_term={nt}', f)
    for nh in (1, 2, 4, (1, 0), (2, 1), (3, 2)):
        def f(s, nh=nh):
            M = R.rand_quantum_channel_matrix_subspace(3, nh, seed=s)
            n = sum(nh) if isinstance(nh, tuple) else nh
            ok = M.shape == (n, 3, 3) and np.array_equal(M[0], np.eye(3))
            if isinstance(nh, tuple):
                ok = ok and np.isrealobj(M)
                sym = float(max(np.abs(x - x.T).max() for x in M[:nh[0]]))
                asym = float(max([np.abs(x + x.T).max() for x in M[nh[0]:]] + [0.0]))
                return ok and sym < TOL and asym < TOL, f'sym_err={sym:.2e} antisym_err={asym:.2e}'
            he = max(herm_err(x) for x in M)
            G = M.reshape(n, -1) @ M.reshape(n, -1).conj().T
            rank = int(np.linalg.matrix_rank(G, tol=1e-9))
            return ok and he < TOL and rank == n, f'herm_err={he:.2e} rank={rank}'
        add('rand_quantum_channel_matrix_subspace', f'dim_in=3,num_hermite={nh}', f)
    for ru in (False, True):
        def f(s, ru=ru):
            part = (2, 1, 2)
            x = R.rand_reducible_matrix_subspace(3, part, return_unitary=ru, seed=s)
            M = x[0] if ru else x
            ok = M.shape == (3, 5, 5)
            if ru:
                U = x[1]
                e = float(np.abs(U @ U.T - np.eye(5)).max())
                B = U @ M @ U.T
                off = 0.0
                edges = np.cumsum((0,) + part)
                mask = np.ones((5, 5), dtype=bool)
                for a, b in zip(edges[:-1], edges[1:]):
                    mask[a:b, a:b] = False
                off = float(np.abs(B[:, mask]).max())
                return ok and e < TOL and off < TOL, f'|UU^T-1|={e:.2e} off-block={off:.2e}'
            return ok, 'shape'
        add('rand_reducible_matrix_subspace', f'return_unitary={ru}', f)
    for N0 in (2, 3):
        def f(s, N0=N0):
            B, U = R.rand_symmetric_inner_product(N0, seed=s)
            rng = np.random.default_rng(s + 1)
            e = 0.0
            for _ in range(5):
                x = rng.normal(size=N0)
                for b in B:
                    e = max(e, abs(x @ b @ U @ x - x @ U.T @ b @ x))
            return B.ndim == 3 and B.shape[1:] == (N0, N0) and U.shape == (N0, N0) and e < 1e-8, f'|x^T B U x - x^T U^T B x|={e:.2e}'
        add('rand_symmetric_inner_product', f'N0={N0}', f)
    for (no, dq, nq, ns, wi) in [(no, dq, nq, ns, wi) for (no, dq, nq) in ((2, 2, 1), (3, 2, 1), (2, 3, 2), (2, 2, 2))
                                 for ns in (None, 1, 2) for wi in (False, True)]:
        def f(s, no=no, dq=dq, nq=nq, ns=ns, wi=wi):
            x = R.rand_orthonormal_matrix_basis(no, dq, num_qudit=nq, num_sample=ns, with_I=wi, seed=s)
            xs = [x] if ns is None else x
            D = dq ** nq
            e = 0.0
            ok = len(xs) == (1 if ns is None else ns)
            for P in xs:
                P0 = P[1:] if wi else P
                ok = ok and P.shape == (no * D + (1 if wi else 0), D, D)
                if wi: ok = ok and np.array_equal(P[0], np.eye(D))
                Q = P0.reshape(no, D, D, D)
                for blk in Q:      # each block: D rank-one projectors resolving the identity
                    e = max(e, float(np.abs(blk.sum(axis=0) - np.eye(D)).max()))
                    e = max(e, float(max(np.abs(p @ p - p).max() for p in blk)))
            return ok and e < TOL, f'projector/resolution error={e:.2e}'
        add('rand_orthonormal_matrix_basis', f'num_orthonormal={no},dim_qudit={dq},num_qudit={nq},num_sample={ns},with_I={wi}', f)
    for n in (1, 3):
        for ih in (None, True, False):
            def f(s, n=n, ih=ih):
                P = R.rand_pauli(n, is_hermitian=ih, seed=s)
                M = P.full_matrix
                e = float(np.abs(M @ M.conj().T - np.eye(2 ** n)).max())
                herm = np.array_equal(M, M.conj().T); anti = np.array_equal(M, -M.conj().T)
                ok = e < TOL and (herm or anti) and (ih is None or (herm if ih else anti))
                return ok, f'hermitian={herm} anti={anti} want={ih}'
            add('rand_pauli', f'n={n},is_hermitian={ih}', f)
    return checks


NAMED_ARGS = {
    '@pauli4': lambda: np.stack([np.eye(2), np.array([[0, 1], [1, 0.]]), np.array([[0, -1j], [1j, 0]]), np.diag([1., -1])]).astype(np.complex128),
    '@pauli3': lambda: np.stack([np.eye(2), np.array([[0, 1], [1, 0.]]), np.diag([1., -1])]).astype(np.complex128),
}


def corpus_replay(ctx):
    """regression corpus /verif/corpus/C10/*.json: the recorded witness of every repaired defect, replayed first on every run (both tiers)
    through the same double-run oracle as the probe"""
    import glob, importlib
    n = 0
    for path in sorted(glob.glob(os.path.join(common.VERIF, 'corpus', 'C10', '*.json'))):
        tag = os.path.basename(path)
        try:
            doc = json.load(open(path))
        except Exception as e:
            ctx.fail('corpus:unreadable', f'[corpus {tag}] cannot be read: {e}', dict(corpus=tag)); continue
        for e in doc['entries']:
            n += 1
            key = doc['key']
            desc = f"{e['function']}(*{e['args']}, **{e['kwargs']}, seed={e['seed']})"
            replay = dict(corpus=tag, function=e['function'], args=e['args'], kwargs=e['kwargs'], seed=e['seed'],
                          how='call twice with this int seed; between the calls re-seed and advance np.random, random and torch global generators')
            try:
                parts = e['function'].split('.')
                obj = importlib.import_module(parts[0])
                for q in parts[1:]:
                    obj = getattr(obj, q)
                args = [share(f'corpus{n}:{a}', NAMED_ARGS[a]()) if isinstance(a, str) and a in NAMED_ARGS else a for a in e['args']]
                ok, (a, b), events, _ = run_recipe(lambda s: obj(*args, **e['kwargs'], seed=s), e['seed'])
            except Exception as ex:
                ctx.fail(key, f'[corpus {tag}] {desc} raised {type(ex).__name__}: {ex}'[:400], dict(replay, observed=f'{type(ex).__name__}: {ex}'[:300])); continue
            finally:
                for k in [k for k in SHARED if k.startswith(f'corpus{n}:')]:
                    del SHARED[k]
            events = [x for x in events if x not in e.get('allowed_events', [])]
            if not ok:
                ctx.fail(key, f'[corpus {tag}] {desc} is not reproducible: {describe(a)} vs {describe(b)}', dict(replay, first=describe(a), second=describe(b), events=events))
            elif events:
                ctx.fail(key, f'[corpus {tag}] {desc} touches state outside the seed: {events}', dict(replay, events=events))
            else:
                ctx.probe_ok(('corpus', tag, n))
            ctx.count('corpus')
    ctx.extra['corpus_entries_replayed'] = n


def generator_table():
    """(name, f(n, seed), kind of generator object accepted) for every public generator of numqi.random, one size parameter each"""
    import numqi
    R = numqi.random
    return [
        ('rand_haar_state', lambda n, s: R.rand_haar_state(n, seed=s), 'np'),
        ('rand_haar_state[real]', lambda n, s: R.rand_haar_state(n, tag_complex=False, seed=s), 'np'),
        ('rand_haar_unitary', lambda n, s: R.rand_haar_unitary(n, seed=s), 'np'),
        ('rand_special_orthogonal_matrix', lambda n, s: R.rand_special_orthogonal_matrix(n, seed=s), 'np'),
        ('rand_density_matrix', lambda n, s: R.rand_density_matrix(n, seed=s), 'np'),
        ('rand_density_matrix[bures]', lambda n, s: R.rand_density_matrix(n, kind='bures', seed=s), 'np'),
        ('rand_kraus_op', lambda n, s: R.rand_kraus_op(2, n, 2, seed=s), 'np'),
        ('rand_choi_op', lambda n, s: R.rand_choi_op(n, 2, seed=s), 'np'),
        ('rand_povm', lambda n, s: R.rand_povm(n, 3, seed=s), 'np'),
        ('rand_bipartite_state', lambda n, s: R.rand_bipartite_state(n, 2, seed=s), 'np'),
        ('rand_bipartite_state[k=1]', lambda n, s: R.rand_bipartite_state(n, 2, k=1, seed=s), 'np'),
        ('rand_separable_dm', lambda n, s: R.rand_separable_dm(n, 2, seed=s), 'np'),
        ('rand_hermitian_matrix', lambda n, s: R.rand_hermitian_matrix(n, seed=s), 'np'),
        ('rand_channel_matrix_space', lambda n, s: R.rand_channel_matrix_space(n, 2, seed=s), 'np'),
        ('rand_quantum_channel_matrix_subspace', lambda n, s: R.rand_quantum_channel_matrix_subspace(n, 2, seed=s), 'np'),
        ('rand_ABk_density_matrix', lambda n, s: R.rand_ABk_density_matrix(2, n, 2, seed=s), 'np'),
        ('rand_reducible_matrix_subspace', lambda n, s: R.rand_reducible_matrix_subspace(2, (1, int(n)), seed=s), 'np'),
        ('rand_symmetric_inner_product', lambda n, s: R.rand_symmetric_inner_product(n, seed=s), 'np'),
        ('rand_orthonormal_matrix_basis', lambda n, s: R.rand_orthonormal_matrix_basis(2, n, seed=s), 'np'),
        ('rand_adjacent_matrix', lambda n, s: R.rand_adjacent_matrix(n, seed=s), 'np'),
        ('rand_n_sphere', lambda n, s: R.rand_n_sphere(n, seed=s), 'np'),
        ('rand_n_ball', lambda n, s: R.rand_n_ball(n, size=2, seed=s), 'np'),
        ('rand_F2', lambda n, s: R.rand_F2(n, seed=s), 'np'),
        ('rand_F2[not_zero,not_one]', lambda n, s: R.rand_F2(n, not_zero=True, not_one=True, seed=s), 'np'),
        ('rand_pauli', lambda n, s: R.rand_pauli(n, seed=s), 'np'),
        ('rand_pauli[hermitian]', lambda n, s: R.rand_pauli(n, is_hermitian=True, seed=s), 'np'),
        ('rand_SpF2', lambda n, s: R.rand_SpF2(n, seed=s), 'py'),
        ('rand_SpF2[int_tuple-matrix]', lambda n, s: R.rand_SpF2(n, return_kind='int_tuple-matrix', seed=s), 'py'),
        ('rand_Clifford_group', lambda n, s: R.rand_Clifford_group(n, seed=s), 'py'),
    ]


def scribble(x):
    """overwrite every writeable array reachable from a returned object (a later call must not see it)"""
    import torch
    if isinstance(x, np.ndarray):
        if x.flags.writeable and x.dtype != object:
            x[...] = 1 if x.dtype == np.uint8 else 7
    elif isinstance(x, torch.Tensor):
        with torch.no_grad():
            x.fill_(7)
    elif isinstance(x, (list, tuple)):
        for y in x:
            scribble(y)
    elif isinstance(x, dict):
        for y in x.values():
            scribble(y)
    elif hasattr(x, 'F2'):
        scribble(x.F2)


def probe_hardening(ctx):
    """input classes that need no theory: seed / size dtypes, generator-object histories, returned-object aliasing, repeated and
    interleaved int-seed calls.  Every statement is an equality between two implementation calls whose equality follows from
    `result_function_of_seed` (the output is a function of the normalised seed and the arguments only)."""
    seeds = sorted({0, 1, 3 + ctx.seed, 2 ** 33 + 5 + ctx.seed}) if ctx.quick() else sorted({0, 1, 2 ** 33 + 5} | {3 + ctx.seed * 7 + i for i in range(6)})
    n0 = 3
    for name, f, kind in generator_table():
        def guarded(what, thunk, replay):
            try:
                return True, thunk()
            except Exception as e:
                ctx.fail(f'robust:{name}', f'numqi.random.{name}: {what} raised {type(e).__name__}: {e}'[:400], dict(replay, observed=f'{type(e).__name__}: {e}'[:300]))
                return False, None
        for s in seeds:
            rp = dict(function='numqi.random.' + name, n=n0, seed=s)
            ok, ref = guarded(f'n={n0}, seed={s}', lambda: canon(f(n0, s)), rp)
            if not ok:
                continue
            # baseline: the very same call repeated must already agree; if it does not, this is plain non-reproducibility (reported once, under its own
            # key) and the derived comparisons below would only restate it with a wrong diagnosis (dtype / aliasing / history)
            ok, again = guarded(f'n={n0}, seed={s} (repeated)', lambda: canon(f(n0, s)), rp)
            if not ok:
                continue
            if again != ref:
                ctx.fail(f'repro:plain:{name}', f'numqi.random.{name}(n={n0}, seed={s}) called twice in a row with the same int seed gives two different results', dict(rp, how='two consecutive calls, nothing in between'))
                continue
            # (2) the seed given as another integer-like type; the size given as a numpy integer
            variants = [('np.int64', np.int64(s)), ('np.uint64', np.uint64(s)), ('0-d int64 array', np.array(s, dtype=np.int64)), ('float', float(s))]
            if s < 2 ** 31: variants.append(('np.int32', np.int32(s)))
            if s in (0, 1): variants += [('bool', bool(s)), ('np.bool_', np.bool_(s))]
            for tn, sv in variants:
                ok, got = guarded(f'seed={tn}({s})', lambda: canon(f(n0, sv)), dict(rp, seed_type=tn))
                if ok and got != ref:
                    ctx.fail(f'dtype:seed:{name}', f'numqi.random.{name}(n={n0}) with seed={tn}({s}) differs from seed={s} (Python int)', dict(rp, seed_type=tn))
                elif ok:
                    ctx.probe_ok(('dtype-seed', name, tn, s))
            for tn, nv in (('np.int64', np.int64(n0)), ('np.int32', np.int32(n0))):
                ok, got = guarded(f'n={tn}({n0})', lambda: canon(f(nv, s)), dict(rp, size_type=tn))
                if ok and got != ref:
                    ctx.fail(f'dtype:size:{name}', f'numqi.random.{name} with n={tn}({n0}), seed={s} differs from n={n0} (Python int)', dict(rp, size_type=tn))
                elif ok:
                    ctx.probe_ok(('dtype-size', name, tn, s))
            # (1) the returned object is the caller's: overwriting it must not influence a later call
            def alias():
                a = f(n0, s); scribble(a)
                b = f(n0, s); cb = canon(b); scribble(b)
                return cb
            ok, got = guarded('repeat after overwriting the returned arrays', alias, rp)
            if ok and got != ref:
                ctx.fail(f'alias:returned:{name}', f'numqi.random.{name}(n={n0}, seed={s}): after overwriting the arrays returned by the first call, the same call returns something else (shared/memoised result)', rp)
            elif ok:
                ctx.probe_ok(('alias-returned', name, s))
            # (3) histories with int seeds: another size and another seed in between
            def hist():
                f(n0 + 1, s); f(n0, s + 1); f(2, s)
                return canon(f(n0, s))
            ok, got = guarded('interleaved sizes/seeds', hist, rp)
            if ok and got != ref:
                ctx.fail(f'history:{name}', f'numqi.random.{name}(n={n0}, seed={s}) changes after calls with n={n0 + 1}, seed={s + 1}, n=2 in the same process', dict(rp, history=[[n0 + 1, s], [n0, s + 1], [2, s], [n0, s]]))
            elif ok:
                ctx.probe_ok(('history', name, s))
            # (3) a generator *object*: the first draw equals the int-seed call, the generator is advanced (not copied or re-seeded),
            #     and a second generator with the same seed reproduces the whole sequence (equality with the int-seed call is only observed)
            mk = (lambda: np.random.default_rng(s)) if kind == 'np' else (lambda: random.Random(s))
            state = (lambda g: json.dumps(g.bit_generator.state, sort_keys=True, default=str)) if kind == 'np' else (lambda g: g.getstate())
            def genhist():
                g1 = mk(); s0 = state(g1)
                x1 = canon(f(n0, g1)); s1 = state(g1); x2 = canon(f(n0, g1)); x3 = canon(f(n0 + 1, g1))
                g2 = mk()
                y = [canon(f(n0, g2)), canon(f(n0, g2)), canon(f(n0 + 1, g2))]
                return x1, s0 != s1, [x1, x2, x3] == y
            ok, got = guarded('generator object passed as seed', genhist, dict(rp, generator=kind))
            if ok:
                x1, advanced, same = got
                if x1 != ref:
                    # not part of the contract (a function may derive sub-seeds from an int seed): recorded as an observation only
                    ctx.extra.setdefault('int_seed_differs_from_fresh_generator_with_that_seed', [])
                    if name not in ctx.extra['int_seed_differs_from_fresh_generator_with_that_seed']:
                        ctx.extra['int_seed_differs_from_fresh_generator_with_that_seed'].append(name)
                if not advanced:
                    ctx.fail(f'history:generator:{name}', f'numqi.random.{name}(n={n0}) does not advance the generator object it is given (seed {s})', dict(rp, generator=kind))
                elif not same:
                    ctx.fail(f'history:generator:{name}', f'numqi.random.{name}: two generators seeded {s} driven through the same three calls give different sequences', dict(rp, generator=kind))
                else:
                    ctx.probe_ok(('history-generator', name, s))
            ctx.count('hardening-' + name.split('[')[0])
    # (4) sizes past machine-word boundaries for the F2 / symplectic generators (validity, not only reproducibility)
    import numqi
    R = numqi.random
    sizes = (31, 32, 33) if ctx.quick() else (16, 31, 32, 33, 63, 64, 65)
    for n in sizes:
        J = np.block([[np.zeros((n, n), dtype=np.int64), np.eye(n, dtype=np.int64)], [np.eye(n, dtype=np.int64), np.zeros((n, n), dtype=np.int64)]])
        base = [int(x) for x in numqi.group.spf2.get_number(n, kind='base')]
        for s in range(ctx.seed * 10, ctx.seed * 10 + (4 if ctx.quick() else 12)):
            rp = dict(n=n, seed=s)
            try:
                tup, mat = R.rand_SpF2(n, return_kind='int_tuple-matrix', seed=s)
                m = np.asarray(mat).astype(np.int64)
                ok = m.shape == (2 * n, 2 * n) and set(np.unique(m).tolist()) <= {0, 1} and np.array_equal((m.T @ J @ m) % 2, J)
                ok = ok and len(tup) == len(base) and all(0 <= int(t) < b for t, b in zip(tup, base))
                ok = ok and np.array_equal(np.asarray(R.rand_SpF2(n, seed=s)), np.asarray(mat)) and tuple(R.rand_SpF2(n, return_kind='int_tuple', seed=s)) == tuple(tup)
                if not ok:
                    ctx.fail('valid:rand_SpF2', f'numqi.random.rand_SpF2(n={n}, seed={s}) is not a symplectic matrix over F2 consistent with its integer tuple', dict(rp, function='numqi.random.rand_SpF2'))
                else:
                    ctx.probe_ok(('boundary', 'rand_SpF2', n, s))
                r, cm = R.rand_Clifford_group(n, seed=s)
                cm = np.asarray(cm).astype(np.int64)
                if not (np.asarray(r).shape == (2 * n,) and set(np.unique(r).tolist()) <= {0, 1} and np.array_equal((cm.T @ J @ cm) % 2, J)):
                    ctx.fail('valid:rand_Clifford_group', f'numqi.random.rand_Clifford_group(n={n}, seed={s}) is not (F2 vector, symplectic matrix)', dict(rp, function='numqi.random.rand_Clifford_group'))
                else:
                    ctx.probe_ok(('boundary', 'rand_Clifford_group', n, s))
                for ih in (None, True, False):
                    P = R.rand_pauli(n, is_hermitian=ih, seed=s)
                    F = np.asarray(P.F2)
                    herm = (int(F[1]) == int(np.dot(F[2:2 + n].astype(np.int64), F[2 + n:].astype(np.int64)) % 2))
                    sg = complex(P.sign)
                    ok = F.shape == (2 * n + 2,) and set(np.unique(F).tolist()) <= {0, 1} and (ih is None or herm == ih) and ((abs(sg.imag) < 1e-12) == herm) and abs(abs(sg) - 1) < 1e-12
                    if not ok:
                        ctx.fail('valid:rand_pauli', f'numqi.random.rand_pauli(n={n}, is_hermitian={ih}, seed={s}): F2={F.tolist()} sign={sg} is not a Pauli operator of the requested kind', dict(rp, function='numqi.random.rand_pauli', is_hermitian=ih))
                    else:
                        ctx.probe_ok(('boundary', 'rand_pauli', n, ih, s))
                for nz, no in ((False, False), (True, False), (False, True), (True, True)):
                    x = R.rand_F2(2 * n, not_zero=nz, not_one=no, seed=s)
                    if not (x.shape == (2 * n,) and x.dtype == np.uint8 and set(np.unique(x).tolist()) <= {0, 1} and (not nz or x.any()) and (not no or not x.all())):
                        ctx.fail('valid:rand_F2', f'numqi.random.rand_F2({2 * n}, not_zero={nz}, not_one={no}, seed={s}) = {x.tolist()}', dict(rp, function='numqi.random.rand_F2'))
                    else:
                        ctx.probe_ok(('boundary', 'rand_F2', n, nz, no, s))
            except Exception as e:
                ctx.fail('robust:boundary', f'F2/symplectic generators at n={n}, seed={s} raised {type(e).__name__}: {e}'[:400], dict(rp, observed=f'{type(e).__name__}: {e}'[:300]))
            ctx.count('boundary')


def probe(ctx):
    import numqi
    corpus_replay(ctx)
    probe_hardening(ctx)
    # --- reproducibility: the double-run experiment is the failing-input search
    for r in experiments(ctx):
        key = 'repro:' + r['name'].split('numqi.')[-1]
        replay = dict(function=r['name'], arguments=r['label'], seed=r['seed'],
                      how='call twice with this int seed; between the calls re-seed and advance np.random, random and torch global generators')
        if r['error']:
            ctx.fail(key + ':raises', f"{r['name']}({r['label']}, seed={r['seed']}) raised {r['error']}", dict(replay, observed=r['error']))
        elif not r['ok']:
            ctx.fail(key, f"{r['name']}({r['label']}, seed={r['seed']}) is not reproducible: {r['a']} vs {r['b']}", dict(replay, first=r['a'], second=r['b'], events=r['events']))
        elif r['events']:
            ctx.fail(key + ':interference', f"{r['name']}({r['label']}, seed={r['seed']}) touches state outside the seed: {r['events']}", dict(replay, events=r['events']))
        else:
            ctx.probe_ok(('repro', r['name'], r['label'], r['seed']))
        ctx.count('repro-' + r['name'].split('.')[-1])
    # --- validity of every generator on every argument combination
    seeds = [ctx.seed * 1000 + i for i in range(3 if ctx.quick() else 25)]
    many = [ctx.seed * 1000 + i for i in range(48 if ctx.quick() else 200)]       # cheap discrete generators: every option product x many seeds
    discrete = {'rand_F2', 'rand_pauli', 'rand_adjacent_matrix', 'rand_SpF2', 'rand_Clifford_group'}
    for key, desc, f in validity_checks(ctx):
        for s in (many if key in discrete else seeds):
            try:
                ok, detail = f(s)
            except Exception as e:
                ok, detail = False, f'raised {type(e).__name__}: {e}'
            if ok:
                ctx.probe_ok(('valid', key, desc, s))
            else:
                ctx.fail('valid:' + key, f'numqi.random.{key}({desc}, seed={s}) is not a valid member: {detail}', dict(function='numqi.random.' + key, arguments=desc, seed=s, observed=detail))
            ctx.count('valid-' + key)
    ctx.assumptions.append('validity tolerance 1e-9 on matrices of dimension <= 16 (observed errors <= 1e-13); rank decisions at 1e-10 relative to trace-one matrices')


def search(ctx, hints):
    # the probe already runs every translated function on every branch at a few sizes; with a broken proof/correspondence and a
    # clean probe, re-run the programs the model flags (and their callers) over a size sweep and a wider seed range
    tr = get_tr(ctx)
    listed = [e for e in tr.order if e.listed]
    flagged = set(ctx.extra.get('translated_not_closed', []))
    for d in hints:
        t = d['op'].split(' ')
        if len(t) >= 3 and t[1] in ('closed', 'tclosed'):
            flagged.add(t[2])
    # callers of flagged programs are affected too
    changed = True
    while changed:
        changed = False
        for e in listed:
            if e.name not in flagged and any(i < len(tr.order) and tr.order[i].name in flagged for i in callees_py(e.stmts)):
                flagged.add(e.name); changed = True
    if not flagged:
        return
    ctx.note('failing-input search over sizes for: ' + ', '.join(sorted(flagged)))
    cands = [(n, l, f, None) for (n, l, f) in size_sweeps()] + list(recipes(False))
    for name, label, f, prep in cands:
        if name not in flagged and canonical_name(tr, name) not in flagged:
            continue
        key = 'repro:' + name.split('numqi.')[-1]
        if any(x['key'].startswith(key) for x in ctx.failures):
            continue
        for s in (0, 1, 7, 40, 41):
            try:
                ok, (a, b), events, _ = run_recipe(f, s, prep)
            except Exception as e:
                ctx.fail(key + ':raises', f'{name}({label}, seed={s}) raised {type(e).__name__}: {e}', dict(function=name, arguments=label, seed=s)); break
            if not ok:
                ctx.fail(key, f'{name}({label}, seed={s}) is not reproducible: {describe(a)} vs {describe(b)}',
                         dict(function=name, arguments=label, seed=s, first=describe(a), second=describe(b), events=events,
                              how='call twice with this int seed; between the calls re-seed and advance np.random, random and torch global generators')); break
            if events:
                ctx.fail(key + ':interference', f'{name}({label}, seed={s}) touches state outside the seed: {events}',
                         dict(function=name, arguments=label, seed=s, events=events)); break
